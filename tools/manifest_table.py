"""Per-property manifest text.  CHECKS[pid] = dict(text, note, technique)."""
FIX_COMMITS = []
NOT_APPLICABLE = {}
CHECKS = {
 "C12": dict(
  text="Postcondition on the dtype-inference funnel (utils.check_type/array_like/zeros/ones/identity/number: real-numeric input never yields object dtype) firing on every internal call, plus two metamorphic workloads run against the real entry points: (a) the same numbers in 5 packagings through rotation_matrix, standard_rotation, elliptic, sl2_iso, from_angle, regular_polygon, Point/Transformation constructors and all CoxeterGroup representations, followed by the library's own inv/eig/coords; (b) independent per-unit homogeneous rescaling by factors in +-[0.1,10] through coordinates, distances, segments/ideal endpoints/circle parameters, tangent directions, constructed isometries, polygons and images. Held on the executions observed (NumPy 2.5.3 only).",
  note="Trusted: numpy's own dtype classification for the independent real-numeric predicate; reference distances of gtmon/ref/hyp.py. Other NumPy versions are not installed and not explored. Tangent-direction relations are judged for dimension >= 2 (C13's domain).",
  technique="postcondition on dtype funnel + metamorphic packaging/rescaling relations"),
 "C09": dict(
  text="Class invariant on FSA (three views = same labelled edge set, no duplicates, same vertices) evaluated at every outermost public-method return, plus replay of every edit history on an independent set model and byte-level kbmag record round trips. Thorough enumerates every depth-3 history over 3 vertices x 2 labels x 6 construction routes (329k histories) and thousands of random depth<=30 histories; held on what was observed, not a proof.",
  note="Trusted: the set model gtmon/ref/fsa_model.py and the regex reader of builtin files. Out of domain (counted, not judged): non-deterministic insertions, non-injective renames, duplicate labels inside one elist.",
  technique="class invariant at hook + history replay on reference model"),
}
