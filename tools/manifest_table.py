"""Per-property manifest text.  CHECKS[pid] = dict(text, note, technique)."""
FIX_COMMITS = []
NOT_APPLICABLE = {}
CHECKS = {
 "C09": dict(
  text="Class invariant on FSA (three views = same labelled edge set, no duplicates, same vertices) evaluated at every outermost public-method return, plus replay of every edit history on an independent set model and byte-level kbmag record round trips. Thorough enumerates every depth-3 history over 3 vertices x 2 labels x 6 construction routes (329k histories) and thousands of random depth<=30 histories; held on what was observed, not a proof.",
  note="Trusted: the set model gtmon/ref/fsa_model.py and the regex reader of builtin files. Out of domain (counted, not judged): non-deterministic insertions, non-injective renames, duplicate labels inside one elist.",
  technique="class invariant at hook + history replay on reference model"),
}
