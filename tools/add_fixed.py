#!/venv/bin/python
"""tools/add_fixed.py <commit> <Fid> <finding.json> [<finding.json> ...] -- appends 'fixed:' lines to KNOWN_FINDINGS.txt
using the property/key of each witness file and the subject line of the repo commit."""
import sys, json, subprocess, os
commit, fid = sys.argv[1], sys.argv[2]
subj = subprocess.run(["git", "-C", "/repo", "log", "--format=%s", "-n1", commit], capture_output=True, text=True).stdout.strip()
subj = subj[len("fix: "):] if subj.startswith("fix: ") else subj
V = os.path.dirname(os.path.dirname(os.path.abspath(__file__)))
with open(os.path.join(V, "KNOWN_FINDINGS.txt"), "a") as out:
    for f in sys.argv[3:]:
        w = json.load(open(os.path.join(V, "findings", f)))
        out.write("fixed: property=%s %s key=%s :: %s %s (witness findings/%s)\n" % (w["property"], commit, w["key"], fid, subj, f))
        print(w["property"], w["key"])
