#!/opt/veriftools/pyvenv/bin/python
"""Validates MANIFEST.json and every evidence/<id>.json against the schemas (uses the tooling venv's jsonschema)."""
import json, sys, glob, os
import jsonschema
V = os.path.dirname(os.path.dirname(os.path.abspath(__file__)))
ok = True
man = json.load(open(os.path.join(V, "MANIFEST.json")))
jsonschema.validate(man, json.load(open("/root/.vp/MANIFEST.schema.json")))
es = json.load(open("/root/.vp/EVIDENCE.schema.json"))
ids = [json.loads(l)["id"] for l in open(os.path.join(V, "properties.jsonl"))]
claimed = [c["property_id"] for c in man["checks"]]
na = [c["property_id"] for c in man.get("not_applicable", [])]
assert sorted(claimed + na) == sorted(ids), "every property must be claimed or not_applicable"
for c in man["checks"]:
    p = c["evidence_file"]
    if not os.path.exists(p):
        print("MISSING evidence", p); ok = False; continue
    ev = json.load(open(p))
    try:
        jsonschema.validate(ev, es)
    except jsonschema.ValidationError as e:
        print("INVALID", p, e.message[:200]); ok = False; continue
    cov = ev["coverage"]
    print("%s %-8s seed=%d evals=%d classes=%d verdict=%s wall=%.1fs" % (
        ev["property_id"], ev["tier"], ev["seed"], cov["evaluations"], cov["distinct_nontrivial"],
        cov.get("verdict"), ev["wall_s"]))
print("manifest: %d checks, %d not_applicable; %s" % (len(claimed), len(na), "OK" if ok else "PROBLEMS"))
sys.exit(0 if ok else 1)
