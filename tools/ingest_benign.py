#!/venv/bin/python
"""tools/ingest_benign.py <worktree> <TAG>: confirms each behaviour-preserving change in
<worktree>/seed_out/<k>/ (patch applies to a scratch copy of /repo, the 79 baseline tests pass,
its own check.py passes with and without the patch) and stores it as /verif/benign/<TAG>-<k>/."""
import os, sys, json, shutil, subprocess, tempfile
VERIF = os.path.dirname(os.path.dirname(os.path.abspath(__file__)))
KEXPR = ("not test_load_kbmag and not test_apply_pairwise and not test_elliptic_fixpoints and not test_loxodromic_fixpoints")
def sh(cmd, cwd, env=None, timeout=900):
    e = dict(os.environ); e.update(env or {})
    p = subprocess.run(cmd, cwd=cwd, env=e, capture_output=True, text=True, timeout=timeout)
    return p.returncode, p.stdout + p.stderr
wt, tag = os.path.abspath(sys.argv[1]), sys.argv[2]
root = os.path.join(wt, "seed_out")
for k in sorted(os.listdir(root)):
    d = os.path.join(root, k)
    if not os.path.exists(os.path.join(d, "patch.diff")):
        continue
    tmp = tempfile.mkdtemp(prefix="gt-benign-in-")
    try:
        tree = os.path.join(tmp, "repo")
        shutil.copytree("/repo", tree, ignore=shutil.ignore_patterns(".git", "__pycache__", "*.egg-info"))
        env = {"PYTHONPATH": tree, "MPLBACKEND": "Agg", "PYTHONDONTWRITEBYTECODE": "1"}
        chk = os.path.join(d, "check.py")
        rc0 = sh(["/venv/bin/python", "-B", chk], tmp, env)[0] if os.path.exists(chk) else 0
        rcp, op = sh(["patch", "-p1", "--no-backup-if-mismatch", "-i", os.path.join(d, "patch.diff")], tree)
        if rcp:
            print(tag, k, "patch does not apply"); continue
        rc1 = sh(["/venv/bin/python", "-B", chk], tmp, env)[0] if os.path.exists(chk) else 0
        rct, ot = sh(["/venv/bin/python", "-B", "-m", "pytest", "-q", "-p", "no:cacheprovider", "--continue-on-collection-errors",
                      "--timeout=600", "-k", KEXPR, "--ignore=testing/sage", "testing"], tree, env)
        ok = rc0 == 0 and rc1 == 0 and rct == 0
        print("%s-%s %s (check clean=%d patched=%d tests=%d)" % (tag, k, "confirmed" if ok else "REJECTED", rc0, rc1, rct))
        if ok:
            dst = os.path.join(VERIF, "benign", "%s-%s" % (tag, k))
            os.makedirs(dst, exist_ok=True)
            for f in ("patch.diff", "check.py", "meta.json"):
                if os.path.exists(os.path.join(d, f)):
                    shutil.copy(os.path.join(d, f), dst)
    finally:
        shutil.rmtree(tmp, ignore_errors=True)
