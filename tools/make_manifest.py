#!/venv/bin/python
"""Regenerates /verif/MANIFEST.json from the table below (kept valid at all times)."""
import json, os, sys
HERE = os.path.dirname(os.path.dirname(os.path.abspath(__file__)))
sys.path.insert(0, HERE)
from tools.manifest_table import CHECKS, NOT_APPLICABLE, FIX_COMMITS
import subprocess
FIX_COMMITS = subprocess.run(["git", "-C", "/repo", "log", "--reverse", "--format=%h", "--grep=^fix:"],
                             capture_output=True, text=True).stdout.split() or FIX_COMMITS

props = [json.loads(l) for l in open(os.path.join(HERE, "properties.jsonl"))]
ids = [p["id"] for p in props]
checks = []
for pid in ids:
    if pid not in CHECKS:
        continue
    c = CHECKS[pid]
    checks.append({
        "property_id": pid,
        "quick_cmd": "./check %s --tier quick" % pid,
        "thorough_cmd": "./check %s --tier thorough" % pid,
        "evidence_file": "/verif/evidence/%s.json" % pid,
        "replay_cmd_template": "./check %s --replay {path}" % pid,
        "engine": "gtmon",
        "level_claimed": {"category": "exploration", "text": c["text"],
                          "design_ref": "DESIGN.md section 5, %s" % pid},
        "level_note": c["note"] + " Input classes, histories and monitors added after the eight rounds of independently seeded changes (memory layouts, exact special positions, extreme scales, live relatives, size thresholds, naming and dtype chains ...) are listed per property in DESIGN.md 9.4 and in the docstring / ASSUMPTIONS of gtmon/props/%s.py; the evidence file lists the class signatures actually seen." % pid.lower(),
        "technique": c["technique"],
    })
na = [{"property_id": pid, "reason": NOT_APPLICABLE.get(pid, "check not built yet in this round; no claim is made")}
      for pid in ids if pid not in CHECKS]
man = {
    "version": 1,
    "setup_cmd": "./setup.sh",
    "hooks": {
        "guard": "GEOMETRY_TOOLS_VERIF",
        "enable": "none needed: all monitors are attached from outside by gtmon.attach at import time (pure Python); the guard name is reserved and no guarded source change exists",
        "baseline_off_cmd": "cd /repo && /venv/bin/python -m pytest -ra -q -p no:cacheprovider --timeout=900 --continue-on-collection-errors",
        "source_commits": [],
        "add_only": True,
    },
    "engines": [{"name": "gtmon", "path": "/verif/gtmon",
                 "serves_properties": [c["property_id"] for c in checks],
                 "kind_free_text": "runtime monitors (postconditions on the real functions, class invariants at outermost returns, history + reference-model checkers) driven by seeded hostile workloads; sys.monitoring line reach; FP-event / warning / shared-default diagnostics"}],
    "checks": checks,
    "not_applicable": na,
    "notes": "All checks run /repo's current working tree in-process with /venv/bin/python (VERIF_REPO overrides). Exit 0 held / 1 VIOLATION / 2 INCONCLUSIVE / 3 harness error. fix: commits in /repo: " + ", ".join(FIX_COMMITS) + ". See KNOWN_FINDINGS.txt and DESIGN.md.",
}
with open(os.path.join(HERE, "MANIFEST.json"), "w") as f:
    json.dump(man, f, indent=1)
    f.write("\n")
print("MANIFEST.json: %d checks, %d not_applicable" % (len(checks), len(na)))
