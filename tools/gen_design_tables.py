#!/venv/bin/python
"""Prints the markdown tables of DESIGN.md section 9.3 (defects) and 9.4 (seeded changes) from
KNOWN_FINDINGS.txt, seeded/*/meta.json and mutants/RESULTS.json."""
import re, json, glob, os, collections
V = os.path.dirname(os.path.dirname(os.path.abspath(__file__)))
rows = [l.strip() for l in open(os.path.join(V, "KNOWN_FINDINGS.txt")) if l.startswith(("fixed:", "known:"))]
fixed = collections.OrderedDict()
known = []
for r in rows:
    if r.startswith("fixed:"):
        m = re.match(r"fixed: property=(\S+) (\S+) key=(.*?) :: (\S+) (.*)$", r)
        prop, commit, key, fid, text = m.groups()
        text = re.sub(r"\s*\(witness.*$", "", text)
        e = fixed.setdefault((fid, commit), [text, [], []])
        if prop not in e[1]:
            e[1].append(prop)
        e[2].append(key)
    else:
        m = re.match(r"known: property=(\S+) key=(.*?) :: (.*)$", r)
        known.append(m.groups())
print("| id | found by | defect (repaired) | repo commit | mechanism keys |")
print("|---|---|---|---|---|")
for (fid, commit), (text, props, keys) in fixed.items():
    ks = "; ".join("`%s`" % k for k in keys[:2]) + (" (+%d)" % (len(keys) - 2) if len(keys) > 2 else "")
    print("| %s | %s | %s | `%s` | %s |" % (fid, ", ".join(props), text.replace("|", "\\|"), commit, ks))
print()
print("| property | known-finding key | what fails |")
print("|---|---|---|")
for prop, key, text in known:
    print("| %s | `%s` | %s |" % (prop, key, re.sub(r"\s*\(witness.*$", "", text).replace("|", "\\|")[:400]))
print()
res = {}
p = os.path.join(V, "mutants", "RESULTS.json")
if os.path.exists(p):
    for r in json.load(open(p))["results"]:
        res[(r["kind"], r["name"])] = r
print("| seeded change | what it breaks / needs | first run | now | caught by (keys) |")
print("|---|---|---|---|---|")
for meta in sorted(glob.glob(os.path.join(V, "seeded", "*", "meta.json"))):
    m = json.load(open(meta))
    name = os.path.basename(os.path.dirname(meta))
    r = res.get(("seeded", name), {})
    print("| %s | %s — needs: %s | %s | %s | %s |" % (
        name, m.get("summary", "")[:160].replace("|", "\\|").replace("\n", " "),
        m.get("needs", "")[:140].replace("|", "\\|").replace("\n", " "),
        m.get("first_run", "?"), r.get("status", "?"),
        ", ".join("`%s`" % k for k in r.get("keys", [])[:2])))
