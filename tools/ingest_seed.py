#!/venv/bin/python
"""tools/ingest_seed.py <worktree> [--prefix NAME]

Confirms each seeded change produced by an independent sub-agent in
<worktree>/seed_out/<k>/ (patch.diff, demo.py, meta.json) against a fresh
scratch copy of /repo's current tree:
  * the patch applies;
  * demo.py exits 0 without the patch and non-zero with it;
  * the repository's baseline tests (the 79 stable ones) still pass with it.
Confirmed changes are stored as /verif/seeded/<ID>-<k>/ with meta.json extended
by what was run.  Then run mutants/run_mutants.py --seeded --only <name>.
"""
import os
import sys
import json
import shutil
import subprocess
import tempfile

VERIF = os.path.dirname(os.path.dirname(os.path.abspath(__file__)))
REPO = "/repo"
KEXPR = ("not test_load_kbmag and not test_apply_pairwise and not "
         "test_elliptic_fixpoints and not test_loxodromic_fixpoints")


def sh(cmd, cwd, env=None, timeout=900):
    e = dict(os.environ)
    e.update(env or {})
    p = subprocess.run(cmd, cwd=cwd, env=e, capture_output=True, text=True, timeout=timeout)
    return p.returncode, (p.stdout + p.stderr)


def main():
    wt = os.path.abspath(sys.argv[1])
    tag = sys.argv[2] if len(sys.argv) > 2 else ""      # e.g. "r2" -> seeded/C04-r2-1
    out_root = os.path.join(wt, "seed_out")
    results = []
    for k in sorted(os.listdir(out_root)):
        d = os.path.join(out_root, k)
        if not os.path.exists(os.path.join(d, "patch.diff")):
            continue
        meta = json.load(open(os.path.join(d, "meta.json")))
        prop = meta["property"]
        name = "%s-%s%s" % (prop, (tag + "-") if tag else "", k)
        tmp = tempfile.mkdtemp(prefix="gt-seed-")
        try:
            tree = os.path.join(tmp, "repo")
            shutil.copytree(REPO, tree, ignore=shutil.ignore_patterns(".git", "__pycache__", "*.egg-info"))
            env = {"PYTHONPATH": tree, "MPLBACKEND": "Agg", "PYTHONDONTWRITEBYTECODE": "1"}
            demo = os.path.join(d, "demo.py")
            rc0, o0 = sh(["/venv/bin/python", "-B", demo], tmp, env)
            rcp, op = sh(["patch", "-p1", "--no-backup-if-mismatch", "-i", os.path.join(d, "patch.diff")], tree)
            if rcp != 0:
                results.append((name, "patch does not apply", op[-300:]))
                continue
            rc1, o1 = sh(["/venv/bin/python", "-B", demo], tmp, env)
            rct, ot = sh(["/venv/bin/python", "-B", "-m", "pytest", "-q", "-p", "no:cacheprovider",
                          "--continue-on-collection-errors", "--timeout=600", "-k", KEXPR,
                          "--ignore=testing/sage", "testing"], tree, env)
            ok = (rc0 == 0 and rc1 != 0 and rct == 0)
            status = "confirmed" if ok else "REJECTED (demo clean=%d patched=%d tests=%d)" % (rc0, rc1, rct)
            results.append((name, status, (o1.strip().splitlines() or [""])[-1][:200]))
            if ok:
                dst = os.path.join(VERIF, "seeded", name)
                os.makedirs(dst, exist_ok=True)
                shutil.copy(os.path.join(d, "patch.diff"), dst)
                shutil.copy(demo, dst)
                meta["confirmed"] = {
                    "demo_exit_unpatched": rc0, "demo_exit_patched": rc1,
                    "demo_last_line_patched": (o1.strip().splitlines() or [""])[-1][:300],
                    "baseline_tests_with_patch": ot.strip().splitlines()[-1][:200],
                    "ran": "patch applied to a scratch copy of /repo (removed afterwards); "
                           "demo.py with PYTHONPATH=<copy>; pytest -k '%s' testing" % KEXPR,
                    "repo_head": subprocess.run(["git", "-C", REPO, "rev-parse", "--short", "HEAD"],
                                                capture_output=True, text=True).stdout.strip(),
                }
                json.dump(meta, open(os.path.join(dst, "meta.json"), "w"), indent=1)
        finally:
            shutil.rmtree(tmp, ignore_errors=True)
    for r in results:
        print("%-10s %-50s %s" % r)


if __name__ == "__main__":
    main()
