#!/venv/bin/python
"""tools/set_first_run.py NAME=caught|missed ...  -- record in seeded/<NAME>/meta.json
what the registered check said the first time it was run against that change."""
import sys, json, os
V = os.path.dirname(os.path.dirname(os.path.abspath(__file__)))
for a in sys.argv[1:]:
    n, s = a.split("=")
    p = os.path.join(V, "seeded", n, "meta.json")
    m = json.load(open(p))
    m.setdefault("first_run", s)
    json.dump(m, open(p, "w"), indent=1)
