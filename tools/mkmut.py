#!/venv/bin/python
"""tools/mkmut.py <PROP> <name> <repo-relative file> <old text> <new text> [count]
Writes mutants/<PROP>/<name>.diff (unified, -p1) replacing the first occurrence."""
import sys, os, difflib
prop, name, rel, old, new = sys.argv[1:6]
old = old.encode().decode("unicode_escape"); new = new.encode().decode("unicode_escape")
src = open(os.path.join("/repo", rel)).read()
assert src.count(old) >= 1, "old text not found"
if src.count(old) > 1 and len(sys.argv) < 7:
    print("warning: %d occurrences, replacing the first" % src.count(old))
dst = src.replace(old, new, 1)
d = "".join(difflib.unified_diff(src.splitlines(True), dst.splitlines(True), "a/" + rel, "b/" + rel))
out = os.path.join(os.path.dirname(os.path.dirname(os.path.abspath(__file__))), "mutants", prop)
os.makedirs(out, exist_ok=True)
open(os.path.join(out, name + ".diff"), "w").write(d)
print(d)
