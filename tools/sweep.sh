#!/bin/sh
# tools/sweep.sh <tier> "<seeds>" [ids...]   -- fresh process per (property, seed); prints one line per run
cd "$(dirname "$0")/.." || exit 3
tier="${1:-quick}"; seeds="${2:-0 1 2 3 4}"; shift 2 2>/dev/null
ids="$*"
[ -z "$ids" ] && ids=$(/venv/bin/python -c "import json;print(' '.join(c['property_id'] for c in json.load(open('MANIFEST.json'))['checks']))")
rc=0
for id in $ids; do for s in $seeds; do
  out=$(VERIF_SEED=$s PYTHONHASHSEED=0 ./check "$id" --tier "$tier" 2>&1); code=$?
  echo "$id seed=$s exit=$code $(echo "$out" | grep -E "^$id (OK|NOT-OK)" | cut -c1-120)"
  if [ $code -ne 0 ]; then rc=1; echo "$out" | grep -E "VIOLATION|INCONCLUSIVE|HARNESS|key=" | head -8; fi
done; done
exit $rc
