#!/venv/bin/python
"""tools/make_reach_baseline.py: records, for every function named in a REQUIRED list of gtmon/props/*.py,
a digest of its source text in the current /repo tree -> gtmon/reach_baseline.json.  Run after every repair
committed to /repo (and after editing a REQUIRED list).  gtmon/reach.py treats an unreached required
statement as INCONCLUSIVE only while the function still has this text."""
import os, sys, json, importlib
V = os.path.dirname(os.path.dirname(os.path.abspath(__file__)))
sys.path.insert(0, V)
from gtmon import core, reach
core.load_repo()
out = {}
for i in range(1, 21):
    mod = importlib.import_module("gtmon.props.c%02d" % i)
    for rel, qual, _pat in getattr(mod, "REQUIRED", []):
        path = os.path.join(core.REPO, rel)
        funcs, src = reach._functions(path)
        if qual in funcs:
            lo, hi, _ = funcs[qual]
            out["%s:%s" % (rel, qual)] = reach.source_digest(src, lo, hi)
json.dump(out, open(os.path.join(V, "gtmon", "reach_baseline.json"), "w"), indent=1, sort_keys=True)
print(len(out), "functions")
