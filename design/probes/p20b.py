import sys; sys.path.insert(0,'/tmp/gt_fix')
import numpy as np, warnings, itertools, collections, traceback
warnings.simplefilter("ignore")
import geometry_tools; assert geometry_tools.__file__.startswith('/tmp/gt_fix')
from geometry_tools import projective, utils, complex_projective as cp
rng = np.random.default_rng(21)
fails=collections.Counter(); ex={}
def rec(k, info):
    fails[k]+=1; ex.setdefault(k, info)
N=300
# disks: (c, r, bounded)
def rand_disks(n):
    c = (rng.normal(size=n)+1j*rng.normal(size=n))*rng.choice([0.1,1,5],size=n)
    r = np.exp(rng.uniform(np.log(0.05),np.log(5),size=n))
    return c,r
def member(c,r,bounded,z):
    inside = np.abs(z-c)<r
    return np.where(bounded, inside, ~inside)
try:
    c,r = rand_disks(N)
    D = cp.CP1Disk(c, r)
    cc, rr = D.circle_parameters()
    if not (np.allclose(cc[:,0]+1j*cc[:,1], c) and np.allclose(rr,r)): rec("affine params", (c[:3],cc[:3]))
    if not D.center_inside().all(): rec("center_inside bounded", None)
    # unit disk
    D1 = cp.CP1Disk(c[0], r[0]); c1,r1 = D1.circle_parameters()
    if not (np.allclose(c1[0]+1j*c1[1],c[0]) and np.isclose(r1,r[0])): rec("unit params",(c[0],c1))
    try:
        ci = D1.center_inside(); 
        if not bool(ci): rec("unit center_inside false", ci)
    except Exception as e: rec("unit center_inside exc "+type(e).__name__, str(e)[:100])
    # complement
    C = D.complement()
    ci = C.center_inside()
    if ci.any(): rec("complement center_inside", ci.sum())
    cc2, rr2 = C.circle_parameters()
    if not (np.allclose(cc2,cc) and np.allclose(rr2,rr)): rec("complement circle", None)
    CC = C.complement()
    ip0 = D.interior_point().affine_coords()[...,0]; ip2 = CC.interior_point().affine_coords()[...,0]
    if not np.allclose(ip0, ip2): rec("double complement", (ip0[:3], ip2[:3]))
    # complement interior point is outside circle
    ipc = C.interior_point()
    pd = ipc.proj_data
    z = np.where(np.abs(pd[:,0])>1e-12, pd[:,1]/np.where(pd[:,0]==0,1,pd[:,0]), np.inf)
    if not (np.abs(z-c)>r).all(): rec("complement interior not outside", None)
    # mobius
    for t in range(20):
        M = rng.normal(size=(2,2))+1j*rng.normal(size=(2,2))
        while np.linalg.cond(M)>20: M = rng.normal(size=(2,2))+1j*rng.normal(size=(2,2))
        T = projective.Transformation(M, column_vectors=True)
        def mob(z): return (M[1,0]+M[1,1]*z)/(M[0,0]+M[0,1]*z)   # proj coords (1,z) column: M@(1,z)
        for disk, bounded in [(D,True),(C,False)]:
            TD = T @ disk
            if type(TD).__name__!="CP1Disk" or TD.shape!=disk.shape: rec("mobius type/shape",(type(TD),TD.shape))
            tc, tr = TD.circle_parameters(); tci = TD.center_inside()
            tcz = tc[:,0]+1j*tc[:,1]
            # sample points inside source disk
            ang = rng.uniform(0,2*np.pi,size=N); rad = rng.uniform(0,0.9,size=N)
            zin = c + r*rad*np.exp(1j*ang); zout = c + r*(1.2+rad)*np.exp(1j*ang)
            src_in, src_out = (zin,zout) if bounded else (zout,zin)
            w_in = mob(src_in); w_out = mob(src_out)
            ok_in = member(tcz,tr,tci,w_in); ok_out = ~member(tcz,tr,tci,w_out)
            # general position: skip points mapped near the circle
            m1 = np.abs(np.abs(w_in-tcz)-tr)>1e-6*tr; m2=np.abs(np.abs(w_out-tcz)-tr)>1e-6*tr
            if not ok_in[m1].all(): rec(("mobius in", bounded), (M, int((~ok_in[m1]).sum())))
            if not ok_out[m2].all(): rec(("mobius out", bounded), (M, int((~ok_out[m2]).sum())))
            # boundary points on image circle
            b = TD.boundary_points().affine_coords()[...,0]
            if not np.allclose(np.abs(b-tcz[:,None]), tr[:,None], rtol=1e-6): rec("mobius boundary", None)
    # contains/intersects
    c2,r2 = rand_disks(N)
    D2 = cp.CP1Disk(c2,r2); C2 = D2.complement()
    d = np.abs(c-c2)
    gp = (np.abs(d-(r+r2))>1e-3)&(np.abs(d-np.abs(r-r2))>1e-3)
    truth = {
      ("contains",True,True): d < r-r2,       # D ⊇ D2
      ("contains",True,False): np.zeros(N,bool),
      ("contains",False,True): d > r+r2,      # C (outside of circle1) ⊇ D2
      ("contains",False,False): d < r2-r,     # C ⊇ C2  iff D ⊆ D2
      ("intersects",True,True): d < r+r2,
      ("intersects",True,False): ~(d < r2-r),  # D ∩ C2 nonempty iff D not inside D2
      ("intersects",False,True): ~(d < r-r2),
      ("intersects",False,False): np.ones(N,bool),
    }
    for (op,b1,b2),exp in truth.items():
        A = D if b1 else C; B = D2 if b2 else C2
        for bc in ["elementwise","pairwise"]:
            try:
                got = getattr(A,op)(B, broadcast=bc)
                if bc=="pairwise":
                    if got.shape!=(N,N): rec((op,b1,b2,bc,"shape"), got.shape); continue
                    got = np.diagonal(got)
                bad = (got!=exp)&gp
                if bad.any(): rec((op,b1,b2,bc), int(bad.sum()))
            except Exception as e:
                rec((op,b1,b2,bc,"exc",type(e).__name__), str(e)[:120])
    # pairwise full check small
    A = cp.CP1Disk(c[:5],r[:5]); B = cp.CP1Disk(c2[:7],r2[:7]).complement()
    got = A.intersects(B, broadcast="pairwise")
    exp = np.array([[not (abs(c[i]-c2[j]) < r2[j]-r[i]) for j in range(7)] for i in range(5)])
    if got.shape!=(5,7) or (got!=exp).any(): rec("pairwise full", (got.shape,))
    # fs
    fc = (rng.normal(size=N)+1j*rng.normal(size=N)); fr = rng.uniform(0.05,0.6,size=N)
    Df = cp.CP1Disk(fc, fr, radius_metric="fs")
    diam = Df.fs_diameter(); ctr = Df.fs_center().affine_coords()[...,0]
    if not np.allclose(diam, 2*fr, atol=1e-8): rec("fs_diameter", (diam[:4], 2*fr[:4]))
    if not np.allclose(ctr, fc, atol=1e-8): rec("fs_center", (ctr[:4], fc[:4]))
except Exception as e:
    traceback.print_exc()
for k,v in fails.items(): print(k, v)
for k,v in ex.items(): print("EX",k,str(v)[:300])
print("done")
