import fixnp
import numpy as np, warnings
warnings.simplefilter("ignore")
from geometry_tools import lie, representation, hyperbolic
from geometry_tools.automata import gap_parse, fsa
rng=np.random.default_rng(20)
def sl2():
    A = rng.normal(size=(2,2)); d = np.linalg.det(A)
    if d<0: A[0]*=-1
    return A/np.sqrt(abs(d))
bad=0
for _ in range(2000):
    A=sl2(); P=lie.o_to_pgl(lie.sl2_to_so21(A)); Q=np.array([[P[1,1],P[1,0]],[P[0,1],P[0,0]]])
    if min(np.abs(Q-A).max(), np.abs(Q+A).max())>1e-6: bad+=1
print("swap-fixed o_to_pgl recover failures /2000:", bad)
# via Isometry.to_sl2
A=sl2(); print(hyperbolic.sl2_iso(A).to_sl2(), A)
# F6
r2 = representation.Representation(parse_simple=False)
r2["s1"]=np.eye(2)*2
for w in ["", "s1", "s1*S1", "(s1*s1)"]:
    try: print(repr(w), r2.elements([w])[0].tolist())
    except Exception as e: print(repr(w), "FAIL", type(e).__name__, e)
r1 = representation.Representation()
r1["a"]=np.eye(2)*2
print(r1[""], r1.elements([""]).shape)
# gap parse
txt = """_RWS.wa := rec(
  isFSA := true,
  alphabet := rec( type := "identifiers", size := 3, format := "dense", names := [a , bb,
     C] ),
  states := rec(type := "simple", size := 3),
  flags := ["DFA","minimized"],
  initial := [1],
  accepting := [1..3],
  table := rec( format := "dense deterministic", numTransitions := 5,
     transitions := [[2,0,3],[ 0,2,0 ],
        [1,3,0]] )
);"""
rec,_ = gap_parse.parse_record(txt)
print(rec)
F = fsa._from_gap_record(rec)
print(F.graph_dict, F.start_vertices)
txt2 = txt.replace("initial := [1]", "initial := [2..2]")
rec,_ = gap_parse.parse_record(txt2); F = fsa._from_gap_record(rec); print(F.start_vertices, F.start_vertices[0])
