import fixnp
import numpy as np, warnings, itertools, collections, traceback
warnings.simplefilter("ignore")
from geometry_tools import hyperbolic, projective, utils
rng = np.random.default_rng(7)
def rand_ball(n, shape=(), rmax=0.95):
    v = rng.normal(size=shape+(n,)); v /= np.linalg.norm(v,axis=-1,keepdims=True)
    return v*rng.uniform(0,rmax,size=shape+(1,))
def rand_iso(n, shape=()):
    P = hyperbolic.Point(rand_ball(n, shape), model="klein")
    return P.origin_to()
def peq(a,b):
    # projective equality of rows
    a=np.asarray(a,float); b=np.asarray(b,float)
    if a.shape!=b.shape: return False
    na=a/np.linalg.norm(a,axis=-1,keepdims=True); nb=b/np.linalg.norm(b,axis=-1,keepdims=True)
    return bool(np.all(np.minimum(np.abs(na-nb).max(-1), np.abs(na+nb).max(-1))<1e-7))
fails=collections.Counter(); ex={}; cnt=collections.Counter()
n=2
def mk(kind, shape):
    if kind=="Point": return hyperbolic.Point(rand_ball(n,shape),model="klein")
    if kind=="Segment": return hyperbolic.Segment(hyperbolic.Point(rand_ball(n,shape),model="klein"), hyperbolic.Point(rand_ball(n,shape),model="klein"))
    if kind=="Geodesic": return hyperbolic.Geodesic(hyperbolic.IdealPoint.from_angle(rng.uniform(0,6,shape)), hyperbolic.IdealPoint.from_angle(rng.uniform(0,6,shape)))
    if kind=="Polygon": return hyperbolic.Polygon(hyperbolic.Point(rand_ball(n,shape+(4,)),model="klein"))
    if kind=="PPolygon": return projective.Polygon(rng.normal(size=shape+(4,n+1)))
    if kind=="TangentVector": return hyperbolic.Point(rand_ball(n,shape),model="klein").unit_tangent_towards(hyperbolic.Point(rand_ball(n,shape),model="klein"))
    if kind=="Horosphere": return hyperbolic.Horosphere(hyperbolic.IdealPoint.from_angle(rng.uniform(0,6,shape)), hyperbolic.Point(rand_ball(n,shape),model="klein"))
    if kind=="Isometry": return rand_iso(n, shape)
    if kind=="Simplex": return projective.Simplex(rng.normal(size=shape+(3,n+1)))
    if kind=="Subspace": return projective.Subspace(rng.normal(size=shape+(2,n+1)))
    if kind=="Hyperplane": return hyperbolic.Hyperplane(rng.normal(size=shape+(1,n+1))*np.array([0.1,1,1]))
def unit(obj, idx):
    return obj[idx]
kinds=["Point","Segment","Geodesic","Polygon","PPolygon","TangentVector","Horosphere","Isometry","Simplex","Subspace","Hyperplane"]
for kind in kinds:
    for oshape in [(),(3,),(2,3),(1,3)]:
        for tshape in [(),(3,),(2,1),(4,)]:
            for bc in ["elementwise","pairwise","pairwise_reversed"]:
                try:
                    X = mk(kind, oshape)
                    T = rand_iso(n, tshape)
                    if X.shape != oshape: fails[(kind,"shape-construct")]+=1; ex.setdefault((kind,"shape-construct"),(oshape,X.shape)); continue
                    if bc=="elementwise":
                        try: bshape = np.broadcast_shapes(oshape,tshape)
                        except ValueError: continue
                    Y = T.apply(X, broadcast=bc); cnt[(kind,bc)]+=1
                    exp = {"elementwise": lambda: np.broadcast_shapes(oshape,tshape), "pairwise": lambda: oshape+tshape, "pairwise_reversed": lambda: tshape+oshape}[bc]()
                    if type(Y)!=type(X): fails[(kind,bc,"type")]+=1
                    if Y.shape!=exp:
                        fails[(kind,bc,"shape")]+=1; ex.setdefault((kind,bc,"shape"),(oshape,tshape,Y.shape,exp)); continue
                    # values
                    for idx in np.ndindex(exp):
                        if bc=="elementwise":
                            oi = tuple(0 if oshape[k-(len(exp)-len(oshape))]==1 else idx[k] for k in range(len(exp)-len(oshape),len(exp)))
                            ti = tuple(0 if tshape[k-(len(exp)-len(tshape))]==1 else idx[k] for k in range(len(exp)-len(tshape),len(exp)))
                        elif bc=="pairwise":
                            oi=idx[:len(oshape)]; ti=idx[len(oshape):]
                        else:
                            ti=idx[:len(tshape)]; oi=idx[len(tshape):]
                        Xu = X[oi] if oshape else X
                        Tu = T[ti] if tshape else T
                        Yu = Tu.apply(Xu)
                        Yi = Y[idx] if exp else Y
                        ok = peq(Yu.proj_data, Yi.proj_data)
                        if Yu.aux_data is not None:
                            ok = ok and Yi.aux_data is not None and peq(Yu.aux_data, Y.aux_data[idx])
                        if not ok:
                            fails[(kind,bc,"value")]+=1; ex.setdefault((kind,bc,"value"),(oshape,tshape,idx)); break
                except Exception as e:
                    fails[(kind,bc,"exc",type(e).__name__)]+=1; ex.setdefault((kind,bc,"exc",type(e).__name__),(oshape,tshape,traceback.format_exc()[-500:]))
for k,v in sorted(fails.items(), key=str): print(k,v)
for k,v in ex.items():
    print(k); 
    for x in v: print("    ",x)
print(cnt)
