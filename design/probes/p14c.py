import fixnp
import numpy as np, warnings
warnings.simplefilter("ignore")
from geometry_tools import hyperbolic, utils
import geometry_tools.utils.core as core
rng = np.random.default_rng(32)
def arc_include_fixed(thetas, reference_theta):
    s_thetas = np.copy(thetas)
    s_theta1 = np.array(thetas[..., 1] - thetas[..., 0])
    s_reference = np.array(np.expand_dims(reference_theta - thetas[..., 0], axis=-1))
    s_theta1[s_theta1 < 0] += 2 * np.pi
    s_reference[s_reference < 0] += 2 * np.pi
    to_swap = (s_theta1 < s_reference[..., 0])
    s_thetas[to_swap] = np.flip(s_thetas[to_swap], axis=-1)
    return s_thetas
core.arc_include = arc_include_fixed; utils.arc_include = arc_include_fixed
N=8
ctr = hyperbolic.IdealPoint.from_angle(rng.uniform(0.3,6,N))
v = rng.normal(size=(N,2)); v/=np.linalg.norm(v,axis=-1,keepdims=True); ref = hyperbolic.Point(v*rng.uniform(0,0.9,(N,1)),model="klein")
H = hyperbolic.Horosphere(ctr, ref); c,r = H.sphere_parameters("poincare")
phi = rng.uniform(0,2*np.pi,N); P2 = hyperbolic.Point(c + r[:,None]*np.stack([np.cos(phi),np.sin(phi)],-1), model="poincare")
HA = hyperbolic.HorosphereArc(ctr, ref, P2)
cc,rr,th = HA.circle_parameters(model="poincare", degrees=False)
for i in range(N):
    c1,r1,t1 = HA[i].circle_parameters(model="poincare", degrees=False)
    print(i, np.allclose(c1,cc[i]), np.allclose(t1, th[i]), np.round(t1,3), np.round(th[i],3))
