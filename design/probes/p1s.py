import fixnp
import numpy as np, warnings
warnings.simplefilter("ignore")
from geometry_tools import hyperbolic
rng = np.random.default_rng(40)
def dref(x,y):
    # Klein formula in longdouble
    x=x.astype(np.longdouble); y=y.astype(np.longdouble)
    num = 1-(x*y).sum(-1); den=np.sqrt((1-(x*x).sum(-1))*(1-(y*y).sum(-1)))
    return np.arccosh(np.maximum(1,num/den)).astype(float)
for n in [2,4]:
    for gap in [1e-2,1e-4,1e-6,1e-8]:
        N=2000
        v = rng.normal(size=(N,n)); v/=np.linalg.norm(v,axis=-1,keepdims=True); x=v*(1-gap*rng.uniform(0.5,1,size=(N,1)))
        w = rng.normal(size=(N,n)); w/=np.linalg.norm(w,axis=-1,keepdims=True); y=w*(1-gap*rng.uniform(0.5,1,size=(N,1)))
        X=hyperbolic.Point(x,model="klein"); Y=hyperbolic.Point(y,model="klein")
        d=X.distance(Y); r=dref(x,y)
        errs={}
        for m in ["poincare","halfspace","hyperboloid"]:
            c=X.coords(m); back=hyperbolic.Point(c,model=m).coords("klein")
            errs[m]=np.nanmax(np.abs(back-x))
        print(n,gap,"dist abs err",np.nanmax(np.abs(d-r)),"nan",np.isnan(d).sum(),"roundtrip klein err",{k:float(f"{v:.2g}") for k,v in errs.items()})
