import fixnp
import numpy as np, warnings, itertools, collections, traceback
warnings.simplefilter("ignore")
from geometry_tools import utils
rng = np.random.default_rng(13)
worst=collections.defaultdict(float); exc=collections.Counter()
for trial in range(400):
    p=int(rng.integers(0,4)); q=int(rng.integers(0,4))
    if p+q<2 or p+q>6: continue
    n=p+q
    # random form with signature (p,q): Q^T D Q
    Q = rng.normal(size=(n,n)); 
    while np.linalg.cond(Q)>50: Q = rng.normal(size=(n,n))
    D = np.diag([1.]*p+[-1.]*q); form = Q.T@D@Q; form=(form+form.T)/2
    k=int(rng.integers(1,n+1))
    batch = [(),(3,),(2,2)][rng.integers(0,3)]
    for attempt in range(20):
        rows = rng.normal(size=batch+(k,n))
        # general position: leading principal gram minors nonzero
        G = rows@form@np.swapaxes(rows,-1,-2)
        mins=[np.abs(np.linalg.det(G[...,:j,:j])).min() for j in range(1,k+1)]
        if min(mins)>0.05: break
    else: continue
    try:
        rows_in = rows.copy()
        out = utils.indefinite_orthogonalize(form, rows_in)
        G2 = out@form@np.swapaxes(out,-1,-2)
        worst["orth offdiag"]=max(worst["orth offdiag"], np.abs(G2-np.diag(np.ones(k))*G2).max() if False else np.abs(G2 - G2*np.eye(k)).max())
        worst["orth norm"]=max(worst["orth norm"], np.abs(np.abs(np.diagonal(G2,axis1=-1,axis2=-2))-1).max())
        # flag: rank of first j rows of out + first j rows of rows == j
        for idx in np.ndindex(batch):
            for j in range(1,k+1):
                r=np.linalg.matrix_rank(np.vstack([rows[idx][:j], out[idx][:j]]), tol=1e-7)
                if r!=j: exc["flag"]+=1
        for fo in [False, True]:
            iso = utils.find_isometry(form, rows.copy(), force_oriented=fo)
            e = np.abs(iso@form@np.swapaxes(iso,-1,-2) - D if False else 0)
            Gi = iso@form@np.swapaxes(iso,-1,-2)
            worst["iso offdiag"]=max(worst["iso offdiag"], np.abs(Gi-Gi*np.eye(n)).max())
            worst["iso norm"]=max(worst["iso norm"], np.abs(np.abs(np.diagonal(Gi,axis1=-1,axis2=-2))-1).max())
            if iso.shape!=batch+(n,n): exc["iso shape"]+=1
            if fo and (np.linalg.det(iso)<0).any(): exc["iso det"]+=1
    except Exception as e:
        exc[("exc",type(e).__name__,str(e)[:60], batch, k, n)]+=1
    # diagonalize_form
    for order in ["signed","minkowski"]:
        try:
            W,Wi = utils.diagonalize_form(form, order_eigenvalues=order)
            Dg = W.T@form@W
            worst["diag offdiag"]=max(worst["diag offdiag"], np.abs(Dg-np.diag(np.diag(Dg))).max())
            worst["diag pm1"]=max(worst["diag pm1"], np.abs(np.abs(np.diag(Dg))-1).max())
            worst["diag inv"]=max(worst["diag inv"], np.abs(W@Wi-np.eye(n)).max())
            s=np.sign(np.diag(Dg))
            if order=="signed":
                if not (np.diff(s)>=0).all(): exc[("signed order",p,q)]+=1
            else:
                # rarer sign first
                first = -1 if q<p else 1   # q negative count
                # doc: spacelike first if p<=q, timelike (negative) first if q<p
                exp = np.array(([1.]*p+[-1.]*q) if p<=q else ([-1.]*q+[1.]*p))
                if not np.array_equal(s,exp): exc[("mink order",p,q,tuple(s))]+=1
        except Exception as e:
            exc[("exc diag",type(e).__name__,str(e)[:60])]+=1
print(dict(worst)); 
for k,v in exc.items(): print(k,v)
# kernel
for _ in range(100):
    m=int(rng.integers(1,5)); n=int(rng.integers(m+1,7)); M=rng.normal(size=(3,m,n))
    K=utils.kernel(M)
    assert K.shape==(3,n,n-m), K.shape
    assert np.abs(M@K).max()<1e-9 and np.abs(np.swapaxes(K,-1,-2)@K-np.eye(n-m)).max()<1e-9
print("kernel ok")
# arcs
th = rng.uniform(-2*np.pi,2*np.pi,size=(2000,2))
s = utils.short_arc(th)
ccw = (s[:,1]-s[:,0])%(2*np.pi)
same = np.all(np.isclose(np.sort(np.mod(s,2*np.pi),axis=-1), np.sort(np.mod(th,2*np.pi),axis=-1)),axis=-1)
print("short_arc ccw<=pi", (ccw<=np.pi+1e-12).all(), "same angles mod 2pi", same.all())
th = rng.uniform(-np.pi,np.pi,size=(2000,2))
r = utils.right_to_left(th); print("r2l", (np.cos(r[:,1])<=np.cos(r[:,0])).all(), np.array_equal(np.sort(r,-1),np.sort(th,-1)))
ref = rng.uniform(-np.pi,np.pi,size=2000)
a = utils.arc_include(th, ref)
inc = ((ref-a[:,0])%(2*np.pi)) <= ((a[:,1]-a[:,0])%(2*np.pi))
print("arc_include", inc.all(), np.array_equal(np.sort(a,-1),np.sort(th,-1)))
