import fixnp
import numpy as np, warnings, itertools, collections, traceback
warnings.simplefilter("ignore")
from geometry_tools import projective, utils, complex_projective as cp
rng = np.random.default_rng(15)
def tryit(name, f):
    try:
        r = f(); print("OK  ", name, "->", r if not hasattr(r,'shape') else r.shape); return r
    except Exception as e:
        print("FAIL", name, type(e).__name__, str(e)[:300]); 
z = rng.normal(size=6)+1j*rng.normal(size=6)
P = cp.CP1Point(z, coords="cx_affine")
s = P.spherical_coords()
ster = np.stack([2*z.real,2*z.imag,np.abs(z)**2-1],-1)/(np.abs(z)**2+1)[:,None]
print("spherical = stereographic", np.abs(s-ster).max(), "unit", np.abs(np.linalg.norm(s,axis=-1)-1).max())
P2 = cp.CP1Point(s, coords="spherical")
print("roundtrip", np.abs(P2.affine_coords()[...,0]-z).max())
inf = cp.CP1Point(np.array([0,1.0+0j]))
print("infinity spherical", inf.spherical_coords(), cp.CP1Point(np.array([0,0,1.]),coords="spherical").proj_data)
D = tryit("disk", lambda: cp.CP1Disk(np.array([1+1j, -2+0.5j, 0j]), np.array([0.5, 1.0, 2.0])))
if D is not None:
    print(D.shape, D.circle_parameters())
    print("center_inside", D.center_inside())
D1 = tryit("unit disk", lambda: cp.CP1Disk(1+1j, 0.5))
if D1 is not None: 
    print(D1.shape, tryit("cp", lambda: D1.circle_parameters()))
    tryit("ci", lambda: D1.center_inside())
Df = tryit("fs disk", lambda: cp.CP1Disk(np.array([1+1j, -2+0.5j, 0.1j]), np.array([0.3, 0.2, 0.5]), radius_metric="fs"))
if Df is not None:
    print(Df.circle_parameters(), tryit("fs_diam", lambda: Df.fs_diameter()), tryit("fs_center", lambda: Df.fs_center().affine_coords()))
if D is not None:
    C = tryit("complement", lambda: D.complement())
    if C is not None:
        print("comp center_inside", C.center_inside())
        CC = tryit("compl twice", lambda: C.complement())
        if CC is not None: print(np.abs(CC.interior_point().affine_coords()-D.interior_point().affine_coords()).max())
    M = rng.normal(size=(2,2))+1j*rng.normal(size=(2,2))
    T = projective.Transformation(M, column_vectors=True)
    TD = tryit("T@D", lambda: T@D)
    if TD is not None: print(type(TD), TD.shape, TD.circle_parameters(), TD.center_inside())
    for bc in ["elementwise","pairwise"]:
        tryit("contains "+bc, lambda: D.contains(D, broadcast=bc))
        tryit("intersects "+bc, lambda: D.intersects(D, broadcast=bc))
        if C is not None:
            tryit("contains C,D "+bc, lambda: C.contains(D, broadcast=bc))
            tryit("intersects C,D "+bc, lambda: C.intersects(D, broadcast=bc))
            tryit("intersects D,C "+bc, lambda: D.intersects(C, broadcast=bc))
            tryit("intersects C,C "+bc, lambda: C.intersects(C, broadcast=bc))
