import fixnp
import numpy as np, warnings, itertools, collections, traceback
warnings.simplefilter("ignore")
from geometry_tools import hyperbolic, projective, utils
from geometry_tools.base import GeometryError
rng = np.random.default_rng(10)
def rand_ball(n, shape=(), rmax=0.95):
    v = rng.normal(size=shape+(n,)); v /= np.linalg.norm(v,axis=-1,keepdims=True)
    return v*rng.uniform(0,rmax,size=shape+(1,))
def peq(a,b,tol=1e-7):
    na=a/np.linalg.norm(a,axis=-1,keepdims=True); nb=b/np.linalg.norm(b,axis=-1,keepdims=True)
    return np.minimum(np.abs(na-nb).max(-1), np.abs(na+nb).max(-1))
for n in [2,3,4]:
    for shape in [(),(5,)]:
        v = rng.normal(size=shape+(1,n+1))*np.array([0.3]+[1]*n)
        if shape==(): v=v[0]
        try:
            H = hyperbolic.Hyperplane(v.copy())
            R = H.reflection_across()
            M = R.proj_data
            J=np.diag([-1.]+[1.]*n)
            print(n,shape,"H shape",H.shape,"invol",np.abs(M@M-np.eye(n+1)).max(),"form",np.abs(M@J@np.swapaxes(M,-1,-2)-J).max(),"det",np.round(np.linalg.det(M),6))
            # fixes ideal basis; negates normal
            ib = H.ideal_basis
            print("   ideal basis lightlike", np.abs(np.einsum('...i,ij,...j',ib,J,ib)).max(), "fixed", np.abs(ib@M-ib).max() if shape==() else np.abs(np.einsum('bki,bij->bkj',ib,M)-ib).max())
            sv = H.spacelike_vector
            img = sv@M if shape==() else np.einsum('bi,bij->bj',sv,M)
            print("   normal negated", np.abs(img+sv).max())
            H2 = hyperbolic.Hyperplane.from_reflection(R)
            print("   from_reflection shape",H2.shape,"normal same", np.max(peq(H2.spacelike_vector, sv)))
            # ideal basis of H2 spans same hyperplane: orthogonal to sv
            print("   H2 ideal basis orth to normal", np.abs(np.einsum('...ki,ij,...j->...k',H2.ideal_basis,J,sv if shape==() else sv)).max() if shape==() else np.abs(np.einsum('bki,ij,bj->bk',H2.ideal_basis,J,sv)).max())
            if n==2:
                G = hyperbolic.Geodesic.from_reflection(R)
                print("   geodesic from refl", G.shape)
        except Exception as e:
            traceback.print_exc(); print(n,shape,"EXC",type(e).__name__,e)
# non reflection rejected
try:
    hyperbolic.Hyperplane.from_reflection(hyperbolic.Isometry.standard_rotation(0.5)); print("NOT rejected")
except GeometryError: print("rejected ok")
# fixed points
for n in [2,3]:
    C = hyperbolic.Point(rand_ball(n,(6,)),model="klein").origin_to()
    rot = hyperbolic.Isometry.standard_rotation(1.1, dimension=n)
    conj = C @ rot @ C.inv()
    try:
        fp = conj.fixed_point()
        img = conj @ fp
        print(n,"elliptic fp shape",fp.shape,"fixed", np.max(peq(img.proj_data, fp.proj_data)), "inside", (np.linalg.norm(fp.coords("klein"),axis=-1)<1).all())
    except Exception as e: traceback.print_exc()
    lox = hyperbolic.Isometry.standard_loxodromic(n, 3.0)
    conj = C @ lox @ C.inv()
    try:
        fpp = conj.fixed_point_pair()
        img = conj @ fpp
        k = fpp.get_endpoints().coords("klein")
        print(n,"lox fpp",fpp.shape,"fixed", np.max(peq(img.proj_data, fpp.proj_data)), "ideal", np.abs(np.linalg.norm(k,axis=-1)-1).max())
        # attracting first: iterate a generic point
        x = hyperbolic.Point.get_origin(n)
        y = x
        for _ in range(12): y = conj.apply(y) if _==0 else conj.apply(y)
        yk = y.coords("klein")
        print("   attracting first:", np.abs(yk-k[:,0]).max(), "vs second", np.abs(yk-k[:,1]).max())
        ax = conj.axis(); print("   axis", ax.shape)
    except Exception as e: traceback.print_exc()
