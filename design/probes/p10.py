import numpy as np, warnings, itertools, collections, copy, traceback
from geometry_tools.automata import fsa
rng = np.random.default_rng(6)
fails=collections.Counter(); ex={}
def lang(gd, s, L):
    out=[]
    def rec(v,w,l):
        out.append((w,v))
        if l==L: return
        for lab,nb in gd.get(v,{}).items(): rec(nb,w+lab,l+1)
    rec(s,"",0); return out
def snap(F): return copy.deepcopy((F.graph_dict, {v:{w:list(l) for w,l in nb.items() if l} for v,nb in F.out_dict.items()}, list(F.start_vertices)))
for trial in range(1500):
    nv=int(rng.integers(1,6)); LAB="abc"[:rng.integers(1,4)]
    gd={v:{l:int(rng.integers(0,nv)) for l in LAB if rng.random()<0.5} for v in range(nv)}
    F=fsa.FSA(gd,start_vertices=[0])
    try:
        L=5
        ref = lang(gd,0,L)
        refw = collections.Counter(w for w,_ in ref)
        got = collections.Counter(F.enumerate_words(L))
        if got!=refw: fails["enum"]+=1
        gs = collections.Counter(F.enumerate_words(L, with_states=True))
        if gs!=collections.Counter(ref): fails["enum_states"]+=1
        for w in map("".join, itertools.chain.from_iterable(itertools.product(LAB,repeat=l) for l in range(5))):
            acc = w in refw
            if F.accepts(w)!=acc: fails["accepts"]+=1
            pre = F.initial_accepted_subword(w)
            exp = max((w[:k] for k in range(len(w)+1) if w[:k] in refw), key=len)
            if pre!=exp: fails["prefix"]+=1
            if acc:
                end=[v for ww,v in ref if ww==w][0]
                if F.follow_word(w)!=end: fails["follow"]+=1
        before=snap(F)
        for k in range(1,4):
            Mk = F.automaton_multiple(k)
            if snap(F)!=before: fails["multiple mutates"]+=1
            for n in range(0, 3):
                gotk = collections.Counter(Mk.enumerate_fixed_length_paths(n))
                expk = collections.Counter(w for w,_ in lang(gd,0,k*n) if len(w)==k*n)
                if gotk!=expk:
                    fails[("multiple",k)]+=1; ex.setdefault(("multiple",k),(gd,n,gotk,expk))
        R = F.recurrent(inplace=False)
        if snap(F)!=before: fails["recurrent mutates"]+=1
        # model recurrent
        mv=set(gd); me={(v,l):w for v,nb in gd.items() for l,w in nb.items()}
        ch=True
        while ch:
            ch=False
            for v in sorted(mv):
                if not any(k[0]==v for k in me) or not any(w==v for w in me.values()):
                    mv.discard(v); me={k:w for k,w in me.items() if k[0]!=v and w!=v}; ch=True
        if set(R.vertices())!=mv or sorted(R.edges(with_labels=True))!=sorted((v,w,l) for (v,l),w in me.items()):
            fails["recurrent"]+=1; ex.setdefault("recurrent",(gd,R.graph_dict,mv,me))
        for ties in [True, False]:
            H = F.remove_long_paths(edge_ties=ties)
            if snap(F)!=before: fails["rlp mutates"]+=1
            # BFS dist
            dist={0:0}; q=[0]
            while q:
                v=q.pop(0)
                for l,w in gd[v].items():
                    if w not in dist: dist[w]=dist[v]+1; q.append(w)
            expE=sorted((v,w,l) for v,nb in gd.items() for l,w in nb.items() if v in dist and dist[w]==dist[v]+1)
            gotE=sorted(H.edges(with_labels=True))
            if ties and gotE!=expE:
                fails["rlp"]+=1; ex.setdefault("rlp",(gd,gotE,expE))
            if not ties:
                # each reachable non-root vertex has exactly one parent; edges subset of expE
                par=collections.defaultdict(set)
                for v,w,l in gotE: par[w].add(v)
                if not set(gotE)<=set(expE) or any(len(p)!=1 for p in par.values()) or set(par)!=set(dist)-{0}:
                    fails["rlp noties"]+=1; ex.setdefault("rlp noties",(gd,gotE,expE))
        perm=dict(zip(LAB,[str(x) for x in rng.permutation(list("xyz"))[:len(LAB)]]))
        Rn=F.rename_generators(perm,inplace=False)
        if snap(F)!=before: fails["rename mutates"]+=1
        if collections.Counter(Rn.enumerate_words(4))!=collections.Counter("".join(perm[c] for c in w) for w,_ in lang(gd,0,4)): fails["rename"]+=1
    except Exception as e:
        fails[("exc",type(e).__name__)]+=1; ex.setdefault(("exc",type(e).__name__),(gd,traceback.format_exc()[-400:]))
print(fails)
for k,v in ex.items():
    print(k)
    for x in v: print("    ",x)
