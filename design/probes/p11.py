import fixnp
import numpy as np, warnings, itertools, collections, traceback
warnings.simplefilter("ignore")
from geometry_tools import hyperbolic, projective, utils
rng = np.random.default_rng(8)
def rand_ball(n, shape=(), rmax=0.95):
    v = rng.normal(size=shape+(n,)); v /= np.linalg.norm(v,axis=-1,keepdims=True)
    return v*rng.uniform(0,rmax,size=shape+(1,))
def tryit(name, f):
    try:
        r = f(); print("OK  ", name, "->", r if not hasattr(r,'shape') else r.shape); return r
    except Exception as e:
        print("FAIL", name, type(e).__name__, str(e)[:200])
n=2
poly = hyperbolic.Polygon(hyperbolic.Point(rand_ball(n,(3,4)),model="klein"))
print(poly.shape, poly.aux_data.shape)
p2 = hyperbolic.Polygon(hyperbolic.Point(rand_ball(n,(4,)),model="klein"))
poly[1] = p2
fresh = hyperbolic.Polygon(poly.proj_data)
print("setitem aux coherent:", np.allclose(poly.aux_data, fresh.aux_data))
tryit("combine polygons", lambda: hyperbolic.Polygon.combine([poly, p2]).shape)
tryit("combine points", lambda: hyperbolic.Point.combine([hyperbolic.Point(rand_ball(n,(3,)),model="klein"), hyperbolic.Point(rand_ball(n,(2,2)),model="klein")]).shape)
seg = hyperbolic.Segment(hyperbolic.Point(rand_ball(n,(3,)),model="klein"), hyperbolic.Point(rand_ball(n,(3,)),model="klein"))
tryit("combine segs", lambda: hyperbolic.Segment.combine([seg, seg]).shape)
tryit("seg reshape", lambda: seg.reshape((3,1)).aux_data.shape)
tryit("seg flatten", lambda: seg.reshape((3,1)).flatten_to_unit().aux_data.shape)
tryit("seg astype", lambda: seg.astype('float32').aux_data.dtype)
tryit("seg getitem", lambda: seg[1].aux_data.shape)
tryit("seg stack", lambda: hyperbolic.Segment([seg, seg]).aux_data.shape)
tryit("poly stack", lambda: hyperbolic.Polygon([poly, poly]).aux_data.shape)
tryit("poly iter", lambda: [p.shape for p in poly])
tryit("poly reshape", lambda: poly.reshape((1,3)).aux_data.shape)
s2 = hyperbolic.Segment(seg)
s2[0] = seg[1]
print("seg setitem aux coherent:", np.allclose(s2.aux_data, hyperbolic.Segment(s2.proj_data).aux_data))
tv = hyperbolic.Point(rand_ball(n,(3,)),model="klein").unit_tangent_towards(hyperbolic.Point(rand_ball(n,(3,)),model="klein"))
print("tv", tv.shape, tv.aux_data.shape)
tryit("tv reshape", lambda: tv.reshape((3,1)).aux_data.shape)
tryit("tv getitem", lambda: tv[0].aux_data.shape)
# queries don't move
P = hyperbolic.Point(rand_ball(n,(5,)),model="klein")
k0 = P.coords("klein").copy()
for q in ["projective","hyperboloid","klein","poincare","halfspace"]: P.coords(q)
P.distance(P); P.origin_to(); P.unit_tangent_towards(hyperbolic.Point(rand_ball(n,(5,)),model="klein"))
print("point unchanged", np.allclose(P.coords("klein"),k0))
tvk = tv.proj_data.copy(); ta = tv.aux_data.copy()
tv.origin_to(); tv.point_along(0.3); tv.normalized(); tv.angle(tv)
def peq(a,b):
    na=a/np.linalg.norm(a,axis=-1,keepdims=True); nb=b/np.linalg.norm(b,axis=-1,keepdims=True)
    return bool(np.all(np.minimum(np.abs(na-nb).max(-1), np.abs(na+nb).max(-1))<1e-9))
print("tv unchanged proj", peq(tv.proj_data, tvk), "aux", peq(tv.aux_data, ta), "exact", np.allclose(tv.aux_data, ta))
# caller arrays
arr = np.array([[1.0,0.2,0.1],[2.0,0.2,0.5]])
arr0=arr.copy()
Q = hyperbolic.Point(arr); Q.hyperboloid_coords(); Q.origin_to(); Q.distance(Q)
print("caller arr unchanged", np.array_equal(arr,arr0))
# spacelike_to mutates caller's array?
v = np.array([0.1,2.0,1.0]); v0=v.copy()
hyperbolic.spacelike_to(v); print("spacelike_to caller unchanged", np.array_equal(v,v0), v)
H = hyperbolic.Hyperplane(v0.copy())
# indefinite_orthogonalize mutates input
M = rng.normal(size=(3,3)); M0=M.copy()
utils.indefinite_orthogonalize(hyperbolic.minkowski(3), M); print("indef_orth caller unchanged", np.array_equal(M,M0))
# sign / rescale: unit_tangent_towards
p = hyperbolic.Point(rand_ball(n),model="klein"); q = hyperbolic.Point(rand_ball(n),model="klein")
d = p.distance(q)
for sp,sq in [(1,1),(-1,1),(1,-1),(-1,-1),(2.5,0.3),(-0.4,3)]:
    pp = hyperbolic.Point(sp*p.proj_data); qq = hyperbolic.Point(sq*q.proj_data)
    t = pp.unit_tangent_towards(qq)
    arrive = t.point_along(pp.distance(qq))
    print(sp,sq,"arrive err", np.abs(arrive.coords("klein")-q.coords("klein")).max(), "dist", pp.distance(qq)-d)
