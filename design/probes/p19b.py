import fixnp
import matplotlib; matplotlib.use("Agg")
import numpy as np, warnings, itertools, collections, traceback
warnings.simplefilter("ignore")
from geometry_tools import hyperbolic, projective, utils, drawtools
import matplotlib.pyplot as plt
from matplotlib.path import Path
rng = np.random.default_rng(14)
def rand_ball(n, shape=(), rmax=0.9):
    v = rng.normal(size=shape+(n,)); v /= np.linalg.norm(v,axis=-1,keepdims=True)
    return v*rng.uniform(0,rmax,size=shape+(1,))
def sample(path, k=5):
    pts=[]
    for bez, code in path.iter_bezier():
        if code==Path.MOVETO: continue
        for t in np.linspace(0,1,k): pts.append(bez.point_at_t(t))
    return np.array(pts)
res=collections.Counter()
for model in ["poincare","halfspace"]:
    for trial in range(100):
        nv=int(rng.integers(3,8))
        poly = hyperbolic.Polygon(hyperbolic.Point(rand_ball(2,(nv,)),model="klein"))
        d = drawtools.HyperbolicDrawing(model=model)
        d.draw_polygon(poly)
        path = d.ax.patches[0].get_path()
        pts = sample(path)
        verts = poly.coords(model)
        VP=[hyperbolic.Point(v,model=model) for v in verts]
        el=[float(VP[i].distance(VP[(i+1)%nv])) for i in range(nv)]
        defects=[]
        for x in pts:
            X=hyperbolic.Point(x,model=model)
            defects.append(min(abs(float(VP[i].distance(X)+X.distance(VP[(i+1)%nv])-el[i])) for i in range(nv)))
        # walk order: consecutive sampled points' nearest edge index should be nondecreasing cyclic
        ok = np.nanmax(defects)<1e-3 and not np.isnan(defects).any()
        res[(model, ok)]+=1
        if not ok and res[(model,False)]<3:
            print(model, nv, "max defect", np.nanmax(defects), "nan", np.isnan(defects).sum(), "codes", collections.Counter(path.codes.tolist()))
        plt.close(d.fig)
print(res)
