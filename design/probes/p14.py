import fixnp
import numpy as np, warnings, itertools, collections, traceback
warnings.simplefilter("ignore")
from geometry_tools import hyperbolic, projective, utils
rng = np.random.default_rng(9)
def rand_ball(n, shape=(), rmax=0.95):
    v = rng.normal(size=shape+(n,)); v /= np.linalg.norm(v,axis=-1,keepdims=True)
    return v*rng.uniform(0,rmax,size=shape+(1,))
N=2000
p = hyperbolic.Point(rand_ball(2,(N,)),model="klein"); q = hyperbolic.Point(rand_ball(2,(N,)),model="klein")
seg = hyperbolic.Segment(p,q)
ie = seg.ideal_endpoint_coords("klein")
print("ideal endpoints on circle", np.abs(np.linalg.norm(ie,axis=-1)-1).max())
# colinear
pk=p.coords("klein"); qk=q.coords("klein")
def cross(a,b): return a[...,0]*b[...,1]-a[...,1]*b[...,0]
print("colinear", max(np.abs(cross(qk-pk, ie[:,0]-pk)).max(), np.abs(cross(qk-pk, ie[:,1]-pk)).max()))
for model in ["poincare","halfspace"]:
    c,r,th = seg.circle_parameters(model=model, degrees=False)
    pc=p.coords(model); qc=q.coords(model)
    e1 = np.abs(np.linalg.norm(pc-c,axis=-1)-r)/r; e2=np.abs(np.linalg.norm(qc-c,axis=-1)-r)/r
    print(model,"endpoints on circle rel err", e1.max(), e2.max())
    if model=="poincare":
        print("  orthogonality |c|^2 = 1 + r^2 rel:", (np.abs((c**2).sum(-1)-1-r**2)/(1+r**2)).max())
    else:
        print("  center on boundary:", np.abs(c[:,-1]).max())
    # arc: points at theta between th0..th1 ccw are on the segment: d(p,x)+d(x,q)=d(p,q)
    th0=th[:,0]; th1=th[:,1]
    span=(th1-th0)%(2*np.pi)
    ends = np.stack([c+r[:,None]*np.stack([np.cos(th0),np.sin(th0)],-1), c+r[:,None]*np.stack([np.cos(th1),np.sin(th1)],-1)],1)
    # endpoints of arc = {p,q}
    d1=np.minimum(np.linalg.norm(ends[:,0]-pc,axis=-1)+np.linalg.norm(ends[:,1]-qc,axis=-1), np.linalg.norm(ends[:,0]-qc,axis=-1)+np.linalg.norm(ends[:,1]-pc,axis=-1))
    print("  arc ends match endpoints (rel to r):", (d1/r).max(), "span<=pi:", (span<=np.pi+1e-9).all(), "max r", r.max())
    worst=0
    for t in [0.25,0.5,0.75]:
        a=th0+t*span
        x=c+r[:,None]*np.stack([np.cos(a),np.sin(a)],-1)
        X=hyperbolic.Point(x,model=model)
        defect = p.distance(X)+X.distance(q)-p.distance(q)
        inside = (np.linalg.norm(x,axis=-1)<1) if model=="poincare" else (x[:,-1]>0)
        worst=max(worst, np.nanmax(np.abs(defect)))
        print("   t",t,"defect max",np.nanmax(np.abs(defect)),"nan",np.isnan(defect).sum(),"inside",inside.all())
# geodesic
g = hyperbolic.Geodesic(hyperbolic.IdealPoint.from_angle(rng.uniform(0,2*np.pi,N)), hyperbolic.IdealPoint.from_angle(rng.uniform(0,2*np.pi,N)))
for model in ["poincare","halfspace"]:
    c,r,th = g.circle_parameters(model=model, degrees=False)
    print("geodesic",model, np.isnan(r).sum(), "max r", np.nanmax(r))
# horosphere
h = hyperbolic.Horosphere(hyperbolic.IdealPoint.from_angle(rng.uniform(0,2*np.pi,N)), p)
for model in ["poincare","halfspace"]:
    c,r = h.sphere_parameters(model=model)
    ref = p.coords(model); ctr = hyperbolic.Point(h.center).coords(model)
    print("horo",model,"ref on sphere", (np.abs(np.linalg.norm(ref-c,axis=-1)-r)/r).max(), "tangent at center:", (np.abs(np.linalg.norm(ctr-c,axis=-1)-r)/r).max(),
          "internal tangency" , (np.abs(np.linalg.norm(c,axis=-1)+r-1)).max() if model=="poincare" else np.abs(c[:,-1]-r).max())
# subspaces in dim 3
n=3
ib = np.concatenate([np.ones((50,3,1)), (lambda v: v/np.linalg.norm(v,axis=-1,keepdims=True))(rng.normal(size=(50,3,3)))],-1)
S = hyperbolic.Subspace(ib)
for model in ["poincare","halfspace"]:
    c,r = S.sphere_parameters(model=model)
    pts = hyperbolic.Point(ib).coords(model)
    print("subspace",model,(np.abs(np.linalg.norm(pts-c[:,None],axis=-1)-r[:,None])/r[:,None]).max())
