import sys, time, collections, dis
import numpy as np
mon = sys.monitoring
TOOL = mon.COVERAGE_ID
mon.use_tool_id(TOOL, "gtmon-reach")
ANCHOR = ("/repo/geometry_tools/automata/fsa.py", "/repo/geometry_tools/representation.py")
hits = collections.defaultdict(set)
def on_line(code, line):
    if code.co_filename in ANCHOR:
        hits[(code.co_filename, code.co_qualname)].add(line)
    return mon.DISABLE
mon.register_callback(TOOL, mon.events.LINE, on_line)
mon.set_events(TOOL, mon.events.LINE)
from geometry_tools.automata import fsa
from geometry_tools import representation
t=time.time()
F = fsa.free_automaton("ab")
rep = representation.Representation(); rep["a"]=np.eye(2)*2; rep["b"]=np.array([[1.,1],[0,1]])
for _ in range(200):
    rep.automaton_accepted(F, 5, with_words=True)
print("time", time.time()-t)
mon.set_events(TOOL, 0)
def exec_lines(fn):
    return {l for _,_,l in fn.__code__.co_lines() if l is not None} - {fn.__code__.co_firstlineno}
f = representation.Representation._automaton_accepted
tot = exec_lines(f); got = hits[(f.__code__.co_filename, f.__code__.co_qualname)]
print("reach _automaton_accepted", len(got & tot), "/", len(tot), "missed lines", sorted(tot-got))
mon.free_tool_id(TOOL)
t=time.time()
for _ in range(200):
    rep.automaton_accepted(F, 5, with_words=True)
print("time unmonitored", time.time()-t)
