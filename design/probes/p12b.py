import fixnp
import numpy as np, warnings, collections
warnings.simplefilter("ignore")
from geometry_tools import hyperbolic, utils, projective
rng = np.random.default_rng(31)
def rand_ball(n, shape=(), rmax=0.9):
    v = rng.normal(size=shape+(n,)); v /= np.linalg.norm(v,axis=-1,keepdims=True)
    return v*rng.uniform(0,rmax,size=shape+(1,))
def scal(shape): return rng.uniform(0.1,10,size=shape)*rng.choice([-1,1],size=shape)
def peqm(A,B):
    A=A.reshape(A.shape[:-2]+(-1,)); B=B.reshape(B.shape[:-2]+(-1,))
    A=A/np.linalg.norm(A,axis=-1,keepdims=True); B=B/np.linalg.norm(B,axis=-1,keepdims=True)
    return np.minimum(np.abs(A-B).max(-1),np.abs(A+B).max(-1)).max()
res={}
for n in [2,3]:
    N=500
    p=rand_ball(n,(N,)); q=rand_ball(n,(N,))
    P=hyperbolic.Point(p,model="klein"); Q=hyperbolic.Point(q,model="klein")
    Ps=hyperbolic.Point(P.proj_data*scal((N,1))); Qs=hyperbolic.Point(Q.proj_data*scal((N,1)))
    for m in ["klein","poincare","halfspace"]:
        res[(n,"coords",m)] = np.abs(P.coords(m)-Ps.coords(m)).max()
    hy = Ps.coords("hyperboloid"); res[(n,"hyperboloid proj")] = peqm(hy[:,None,:], P.coords("hyperboloid")[:,None,:])
    d=P.distance(Q); ds=Ps.distance(Qs); m=~(np.isnan(d)|np.isnan(ds)); res[(n,"distance")] = np.abs(d-ds)[m].max()
    S=hyperbolic.Segment(P,Q); Ss=hyperbolic.Segment(Ps,Qs)
    ie=np.sort(S.ideal_endpoint_coords("klein"),axis=-2); ies=np.sort(Ss.ideal_endpoint_coords("klein"),axis=-2)
    res[(n,"ideal endpoints (as set)")] = min(np.abs(S.ideal_endpoint_coords("klein")-Ss.ideal_endpoint_coords("klein")).max(), np.abs(S.ideal_endpoint_coords("klein")-Ss.ideal_endpoint_coords("klein")[:,::-1]).max())
    # per-case set comparison
    a=S.ideal_endpoint_coords("klein"); b=Ss.ideal_endpoint_coords("klein")
    e=np.minimum(np.abs(a-b).max((-1,-2)), np.abs(a-b[:,::-1]).max((-1,-2)))
    res[(n,"ideal endpoints per-case set")] = e.max()
    res[(n,"ideal endpoints ordered")] = np.abs(a-b).max((-1,-2)).max()
    if n==2:
        for model in ["poincare","halfspace"]:
            c,r,th=S.circle_parameters(model=model,degrees=False); cs,rs,ths=Ss.circle_parameters(model=model,degrees=False)
            res[(n,"circle",model)] = max((np.abs(c-cs)/ (1+r[:,None])).max(), (np.abs(r-rs)/(1+r)).max(), np.abs(np.mod(th-ths+np.pi,2*np.pi)-np.pi).max())
    I=P.origin_to(); Is=Ps.origin_to()
    o=hyperbolic.Point.get_origin(n)
    res[(n,"origin_to image")] = np.abs((I@o).coords("klein")-(Is@o).coords("klein")).max()
    poly = hyperbolic.Polygon(hyperbolic.Point(rand_ball(n,(50,4)),model="klein"))
    polys = hyperbolic.Polygon(poly.proj_data*scal((50,4,1)))
    res[(n,"polygon coords")] = np.abs(poly.coords("klein")-polys.coords("klein")).max()
    T = hyperbolic.Point(rand_ball(n),model="klein").origin_to()
    res[(n,"image under T")] = np.abs((T@P).coords("klein")-(T@Ps).coords("klein")).max()
for k,v in res.items(): print(k, v)
