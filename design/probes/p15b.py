import fixnp
import numpy as np, warnings, collections
warnings.simplefilter("ignore")
from geometry_tools import hyperbolic, utils
rng = np.random.default_rng(30)
def rand_ball(n, shape=(), rmax=0.9):
    v = rng.normal(size=shape+(n,)); v /= np.linalg.norm(v,axis=-1,keepdims=True)
    return v*rng.uniform(0,rmax,size=shape+(1,))
def mink(x,y): return -x[...,0]*y[...,0]+(x[...,1:]*y[...,1:]).sum(-1)
res=collections.Counter()
for n in [2,3,4]:
    N=3000
    C = hyperbolic.Point(rand_ball(n,(N,)),model="klein").origin_to()
    for ang in [0.3, 1.1, np.pi, 2.5]:
        rot = hyperbolic.Isometry.standard_rotation(ang, dimension=n)
        conj = C @ rot @ C.inv()
        fp = conj.fixed_point()
        v = fp.proj_data
        nsq = mink(v,v)/ (v**2).sum(-1)
        img = (conj @ fp).proj_data
        # projectively fixed?
        a=v/np.linalg.norm(v,axis=-1,keepdims=True); b=img/np.linalg.norm(img,axis=-1,keepdims=True)
        fixed = np.minimum(np.abs(a-b).max(-1),np.abs(a+b).max(-1))<1e-7
        res[(n,round(ang,2),"notfixed")]+=int((~fixed).sum())
        res[(n,round(ang,2),"exterior")]+=int((nsq>1e-9).sum())
        res[(n,round(ang,2),"ideal-ish")]+=int((np.abs(nsq)<=1e-9).sum())
    # parabolic
    par = hyperbolic.sl2_iso(np.array([[1.,0.7],[0.,1.]]))
    if n==2:
        conj = C @ par @ C.inv()
        fp = conj.fixed_point(); v=fp.proj_data; img=(conj@fp).proj_data
        a=v/np.linalg.norm(v,axis=-1,keepdims=True); b=img/np.linalg.norm(img,axis=-1,keepdims=True)
        err=np.minimum(np.abs(a-b).max(-1),np.abs(a+b).max(-1))
        nsq = mink(v,v)/(v**2).sum(-1)
        print("parabolic: max fixed err", err.max(), "max |normsq|", np.abs(nsq).max(), "exterior", (nsq>1e-6).sum())
for k,v in sorted(res.items()): 
    if v: print(k,v)
print("done")
