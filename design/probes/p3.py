import fixnp
import numpy as np, warnings
warnings.simplefilter("ignore")
from geometry_tools import hyperbolic, projective, utils, coxeter
from geometry_tools.hyperbolic import Model
rng = np.random.default_rng(2)
def rand_ball(n, shape=(), rmax=0.99):
    v = rng.normal(size=shape+(n,)); v /= np.linalg.norm(v,axis=-1,keepdims=True)
    r = rng.uniform(0,rmax,size=shape+(1,))
    return v*r
def formerr(M):
    n = M.shape[-1]
    J = np.diag([-1.]+[1.]*(n-1))
    # row-matrix convention: x -> x M ; preserve: M J M^T = J
    return np.abs(M @ J @ np.swapaxes(M,-1,-2) - J).max()
for n in [1,2,3,4]:
    P = hyperbolic.Point(rand_ball(n,(50,)), model="klein")
    for fo in [True, False]:
        I = P.origin_to(force_oriented=fo)
        print(n, "origin_to", fo, I.proj_data.shape, "formerr", formerr(I.proj_data), "dets", np.unique(np.sign(np.linalg.det(I.proj_data))))
        o = hyperbolic.Point.get_origin(n)
        img = I @ o
        print("    img err", np.abs(img.coords("klein") - P.coords("klein")).max())
    if n>=2:
        Q = hyperbolic.Point(rand_ball(n,(50,)), model="klein")
        tv = P.unit_tangent_towards(Q)
        I = tv.origin_to()
        print(n, "tv.origin_to formerr", formerr(I.proj_data))
        tv2 = Q.unit_tangent_towards(P)
        I2 = tv.isometry_to(tv2)
        print(n, "isometry_to formerr", formerr(I2.proj_data))
        H = hyperbolic.Hyperplane(rng.normal(size=(n+1,))*np.array([0.1]+[1]*n))
        R = H.reflection_across()
        print(n, "reflection formerr", formerr(R.proj_data), "det", np.linalg.det(R.proj_data))
        Hs = hyperbolic.Hyperplane(rng.normal(size=(4,1,n+1,))*np.array([0.1]+[1]*n))
        R = Hs.reflection_across()
        print(n, "reflections formerr", formerr(R.proj_data), "det", np.linalg.det(R.proj_data))
        rot = hyperbolic.Isometry.standard_rotation(0.7, dimension=n)
        print(n, "rot formerr", formerr(rot.proj_data))
        lox = hyperbolic.Isometry.standard_loxodromic(n, 3.0)
        print(n, "lox formerr", formerr(lox.proj_data))
A = rng.normal(size=(2,2)); A /= np.sqrt(abs(np.linalg.det(A)))
print("det", np.linalg.det(A))
S = hyperbolic.sl2_iso(A)
print("sl2 formerr", formerr(S.proj_data))
A2 = A.copy(); A2[0]*=-1
print("det", np.linalg.det(A2)); print("sl2 (det -1) formerr", formerr(hyperbolic.sl2_iso(A2).proj_data))
for tri in [(2,3,7),(3,3,4),(2,4,6),(3,3,0),(0,0,0)]:
    G = coxeter.TriangleGroup(tri)
    try:
        rep = G.hyperbolic_rep()
        print(tri, "hyp_rep formerr", [formerr(rep[g].proj_data) for g in "abc"])
    except Exception as e:
        print(tri, "FAIL", type(e).__name__, e)
