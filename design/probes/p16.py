import fixnp
import numpy as np, warnings, itertools, collections, traceback
from geometry_tools import hyperbolic, projective, utils, lie
from geometry_tools.base import GeometryError
rng = np.random.default_rng(11)
def tryit(name, f):
    try:
        r = f(); print("OK  ", name, "->", r if not hasattr(r,'shape') else r.shape); return r
    except Exception as e:
        print("FAIL", name, type(e).__name__, str(e)[:200])
# complex chart
with warnings.catch_warnings(record=True) as w:
    warnings.simplefilter("always")
    z = np.array([1j, 2.0, 1+1j])
    tryit("complex chart0 (imag coord)", lambda: projective.Point(z).affine_coords(chart_index=0))
    a = np.array([1+2j, 3j])
    P = tryit("complex from affine", lambda: projective.Point(a, chart_index=1))
    if P is not None: print(P.proj_data, P.affine_coords(chart_index=1))
    print("warnings:", [str(x.message)[:60] for x in w][:3])
# affine_linear_map
for d in [1,2,3,4]:
    for ci in range(d+1):
        L = rng.normal(size=(d,d)); t=rng.normal(size=d); x = rng.normal(size=(5,d))
        try:
            T = projective.affine_linear_map(L, chart_index=ci)
            P = projective.Point(x, chart_index=ci)
            y = (T@P).affine_coords(chart_index=ci)
            e1 = np.abs(y - x@L.T).max()
            Tr = projective.affine_linear_map(L, chart_index=ci, column_vectors=False)
            e1r = np.abs((Tr@P).affine_coords(chart_index=ci) - x@L).max()
            T2 = projective.affine_translation(t, chart_index=ci)
            e2 = np.abs((T2@P).affine_coords(chart_index=ci) - (x+t)).max()
            print(d,ci,"linear",e1,"row",e1r,"transl",e2)
        except Exception as e:
            print(d,ci,"EXC",type(e).__name__,str(e)[:100])
# hyperplane_coordinate_transform
for d in [2,3,4]:
    nrm = rng.normal(size=d+1)
    T = tryit("hct", lambda: projective.hyperplane_coordinate_transform(nrm))
    if T is not None:
        M = T.proj_data
        print("  orth", np.abs(M@M.T-np.eye(d+1)).max())
        # points on hyperplane {x.n=0} go to x0=0
        K = utils.kernel(nrm[None,:]).T  # rows spanning hyperplane
        img = (T @ projective.Point(K)).proj_data
        print("  hyperplane to infinity: x0 =", np.abs(img[:,0]).max())
# intersect
for d in [2,3,4]:
    for (k1,k2) in [(d,d),(d,2)] if d>2 else [(2,2)]:
        if k1+k2-(d+1) < 1: continue
        A = projective.Subspace(rng.normal(size=(4,k1,d+1))); B = projective.Subspace(rng.normal(size=(4,k2,d+1)))
        try:
            I = A.intersect(B)
            print(d,k1,k2,"intersect shape",I.shape, I.proj_data.shape)
            # lies in both: rank test
            for i in range(4):
                r1 = np.linalg.matrix_rank(np.vstack([A.proj_data[i], I.proj_data[i]]), tol=1e-8); r2=np.linalg.matrix_rank(np.vstack([B.proj_data[i], I.proj_data[i]]), tol=1e-8)
                if r1!=k1 or r2!=k2 or np.linalg.matrix_rank(I.proj_data[i])!=k1+k2-d-1: print("   BAD",i,r1,r2)
            Ip = A.intersect(B, broadcast="pairwise"); print("   pairwise", Ip.shape)
        except Exception as e:
            traceback.print_exc(); print(d,k1,k2,"EXC",type(e).__name__,str(e)[:100])
# eigenvector
M = rng.normal(size=(3,3)); D=np.diag([2.,-1.,0.5]); T = projective.Transformation(M@D@np.linalg.inv(M), column_vectors=True)
for lam in [2.,-1.,0.5]:
    v = tryit("eigvec", lambda: T.eigenvector(lam))
    if v is not None:
        img=(T@v).proj_data; print("   ", np.abs(img - lam*v.proj_data).max())
Ts = projective.Transformation(np.stack([M@D@np.linalg.inv(M)]*2), column_vectors=True)
v = tryit("eigvec composite", lambda: Ts.eigenvector(2.))
if v is not None: print("   ", np.abs((Ts@v).proj_data - 2*v.proj_data).max())
