import fixnp
import numpy as np, warnings, collections, traceback
warnings.simplefilter("ignore")
from geometry_tools import hyperbolic, utils, coxeter, projective
rng = np.random.default_rng(33)
def rand_ball(n, shape=(), rmax=0.9):
    v = rng.normal(size=shape+(n,)); v /= np.linalg.norm(v,axis=-1,keepdims=True)
    return v*rng.uniform(0,rmax,size=shape+(1,))
def peq(a,b,tol=1e-7):
    a=a/np.linalg.norm(a,axis=-1,keepdims=True); b=b/np.linalg.norm(b,axis=-1,keepdims=True)
    return np.minimum(np.abs(a-b).max(-1),np.abs(a+b).max(-1)).max()
def tryit(name,f):
    try: r=f(); print("OK  ",name,r); return r
    except Exception as e: print("FAIL",name,type(e).__name__,str(e)[:160])
# C04 fixed points composite vs unit (dim 2)
C = hyperbolic.Point(rand_ball(2,(2,3)),model="klein").origin_to()
lox = hyperbolic.Isometry.standard_loxodromic(2, 3.0); rot = hyperbolic.Isometry.standard_rotation(1.0)
for name,g in [("lox",lox),("rot",rot)]:
    conj = C @ g @ C.inv()
    print(name, "conj shape", conj.shape)
    fpp = tryit(name+" fixed_point_pair shape", lambda: conj.fixed_point_pair().proj_data.shape)
    fp = conj.fixed_point()
    worst=0
    for idx in np.ndindex(conj.shape):
        u = conj[idx].fixed_point()
        worst=max(worst, peq(u.proj_data, fp.proj_data[idx]))
        if name=="lox":
            up = conj[idx].fixed_point_pair().proj_data; cp_ = conj.fixed_point_pair().proj_data[idx]
            worst=max(worst, peq(up,cp_))
    print("   composite vs unit", worst)
# C13 isometry_to
for n in [2,3,4]:
    N=200
    P=hyperbolic.Point(rand_ball(n,(N,)),model="klein"); Q=hyperbolic.Point(rand_ball(n,(N,)),model="klein")
    R=hyperbolic.Point(rand_ball(n,(N,)),model="klein"); S=hyperbolic.Point(rand_ball(n,(N,)),model="klein")
    t1=P.unit_tangent_towards(Q); t2=R.unit_tangent_towards(S)
    I=t1.isometry_to(t2)
    img = I @ t1
    base_err = np.abs(hyperbolic.Point(img.proj_data[...,0,:]).coords("klein") - R.coords("klein")).max()
    # direction: image vector parallel (positive) to t2 vector
    v_img = img.aux_data[...,1,:]; v2 = t2.aux_data[...,1,:]
    # account for sign of basepoint reps
    s = np.sign((img.proj_data[...,0,:]*t2.proj_data[...,0,:]).sum(-1))  # crude: same nappe?
    cosang = (v_img*v2).sum(-1)/np.linalg.norm(v_img,axis=-1)/np.linalg.norm(v2,axis=-1)
    print(n,"isometry_to base err",base_err,"dir euclid-cos min", (cosang*s).min(), "det", np.unique(np.round(np.linalg.det(I.proj_data),6)))
    # tv.origin_to @ base tangent
    bt = hyperbolic.TangentVector.get_base_tangent(n)
    O = t1.origin_to()
    im = O.apply(bt)
    print("   origin_to basepoint err", np.abs(hyperbolic.Point(im.proj_data[...,0,:]).coords("klein")-P.coords("klein")).max(), "shape", im.shape)
# timelike_to
v = np.array([1.0,0.2,0.3]); tryit("timelike_to", lambda: hyperbolic.timelike_to(v.copy()).proj_data.shape)
tryit("timelike_to array", lambda: hyperbolic.timelike_to(np.array([[1.0,0.2,0.3],[2,0.1,0.1]])).proj_data.shape)
tryit("timelike_to (k,1,n)", lambda: hyperbolic.timelike_to(np.array([[[1.0,0.2,0.3]],[[2,0.1,0.1]]])).proj_data.shape)
# C08 alphanum & matrix route
G = coxeter.CoxeterGroup(matrix=[[1,3,0],[3,1,4],[0,4,1]], generator_style="alphanum")
rep = tryit("alphanum geometric", lambda: G.geometric_representation())
if rep is not None:
    print(list(rep.generators), rep.parse_simple)
    tryit("rep['s0']", lambda: rep["s0"].shape)
    tryit("rep.element('s0*s1',False)", lambda: rep.element("s0*s1", parse_simple=False).shape)
    tryit("rep.elements(['s0*s1'])", lambda: rep.elements(["s0*s1"]).shape)
    tryit("automaton words", lambda: list(G.automaton().enumerate_words(2)))
G2 = coxeter.CoxeterGroup(diagram=[("x","y",3),("y","z",5),("x","z",2)])
r2 = tryit("diagram rep", lambda: G2.canonical_representation())
if r2 is not None:
    M=r2["xy"]; print(np.abs(np.linalg.matrix_power(M,3)-np.eye(3)).max(), np.abs(np.linalg.matrix_power(r2["yz"],5)-np.eye(3)).max(), np.abs(np.linalg.matrix_power(r2["xz"],2)-np.eye(3)).max())
tv = tryit("tits_vinberg", lambda: coxeter.CoxeterGroup(matrix=[[1,-1,3],[-1,1,3],[3,3,1]]).tits_vinberg_rep({(0,1):-3.0}))
if tv is not None:
    a,b,c = (tv[g] for g in "abc")
    print("tv invol", np.abs(a@a-np.eye(3)).max(), "(ac)^3", np.abs(np.linalg.matrix_power(a@c,3)-np.eye(3)).max(), "(bc)^3", np.abs(np.linalg.matrix_power(b@c,3)-np.eye(3)).max())
