import fixnp
import matplotlib; matplotlib.use("Agg")
import matplotlib.pyplot as plt
import numpy as np, warnings, collections, traceback
warnings.simplefilter("ignore")
from geometry_tools import hyperbolic, utils, drawtools
rng = np.random.default_rng(32)
def rand_ball(n, shape=(), rmax=0.9):
    v = rng.normal(size=shape+(n,)); v /= np.linalg.norm(v,axis=-1,keepdims=True)
    return v*rng.uniform(0,rmax,size=shape+(1,))
def k2p(k): return k/(1+np.sqrt(np.maximum(0,1-(k**2).sum(-1,keepdims=True))))
def p2h(p):
    y=p[...,0]; v=p[...,1:]; x2=(v**2).sum(-1); den=x2+(y-1)**2
    return np.concatenate([-2*v/den[...,None], ((1-x2-y*y)/den)[...,None]],-1)
N=1000
# Geodesic arcs: angles away from infinity (Klein (1,0) = angle 0)
t1=rng.uniform(0.3,2*np.pi-0.3,N); t2=rng.uniform(0.3,2*np.pi-0.3,N)
ok=np.abs(np.angle(np.exp(1j*(t1-t2))))>0.05; t1=t1[ok]; t2=t2[ok]
G=hyperbolic.Geodesic(hyperbolic.IdealPoint.from_angle(t1), hyperbolic.IdealPoint.from_angle(t2))
e1=np.stack([np.cos(t1),np.sin(t1)],-1); e2=np.stack([np.cos(t2),np.sin(t2)],-1)
for model,conv in [("poincare",lambda k:k2p(k)),("halfspace",lambda k:p2h(k2p(k)))]:
    c,r,th=G.circle_parameters(model=model,degrees=False)
    a=conv(e1); b=conv(e2)
    print(model,"endpoints on circle", (np.abs(np.linalg.norm(a-c,axis=-1)-r)/r).max(), (np.abs(np.linalg.norm(b-c,axis=-1)-r)/r).max())
    span=(th[:,1]-th[:,0])%(2*np.pi)
    mid=c+r[:,None]*np.stack([np.cos(th[:,0]+span/2),np.sin(th[:,0]+span/2)],-1)
    inside = (np.linalg.norm(mid,axis=-1)<1) if model=="poincare" else (mid[:,1]>0)
    print("   arc midpoint inside model:", inside.mean(), "span<=pi", (span<=np.pi+1e-9).mean())
# HorosphereArc
ctr_ang = rng.uniform(0.3,2*np.pi-0.3,N)
ctr = hyperbolic.IdealPoint.from_angle(ctr_ang)
ref = hyperbolic.Point(rand_ball(2,(N,)),model="klein")
H = hyperbolic.Horosphere(ctr, ref)
# second point on same horosphere: rotate ref about center by parabolic? use intersect with geodesic? simpler: construct via sphere params in poincare
c,r = H.sphere_parameters("poincare")
phi = rng.uniform(0,2*np.pi,N)
p2 = c + r[:,None]*np.stack([np.cos(phi),np.sin(phi)],-1)
P2 = hyperbolic.Point(p2, model="poincare")
try:
    HA = hyperbolic.HorosphereArc(ctr, ref, P2)
    for model in ["poincare","halfspace"]:
        cc,rr,th = HA.circle_parameters(model=model, degrees=False)
        pc = ref.coords(model); qc = P2.coords(model); ic = hyperbolic.Point(ctr).coords(model)
        print("horoarc",model,"on circle",(np.abs(np.linalg.norm(pc-cc,axis=-1)-rr)/rr).max(),(np.abs(np.linalg.norm(qc-cc,axis=-1)-rr)/rr).max())
        # arc from th0 to th1 ccw should NOT contain the ideal center (flip of arc_include)
        ang_c = np.arctan2((ic-cc)[:,1],(ic-cc)[:,0])
        span=(th[:,1]-th[:,0])%(2*np.pi); rel=(ang_c-th[:,0])%(2*np.pi)
        print("   arc avoids ideal center:", (rel>span).mean())
except Exception as e: traceback.print_exc()
# drawing geodesic / point / horosphere artists
d = drawtools.HyperbolicDrawing(model="poincare")
S = hyperbolic.Segment(hyperbolic.Point(rand_ball(2,(5,)),model="klein"), hyperbolic.Point(rand_ball(2,(5,)),model="klein"))
d.draw_geodesic(S); print("patches", [type(p).__name__ for p in d.ax.patches])
A = d.ax.patches[0]; c,r,th = S.circle_parameters(model="poincare")
print("arc center", A.center, c[0], "width", A.width, 2*r[0], "thetas", A.theta1, A.theta2, th[0])
d.draw_point(hyperbolic.Point(rand_ball(2,(4,)),model="klein")); print("lines", len(d.ax.lines), d.ax.lines[0].get_xydata().shape)
d.draw_horosphere(H[:3]); print("collections", [type(c).__name__ for c in d.ax.collections]); ec=d.ax.collections[0]; print(ec.get_offsets()[:2], ec._widths[:2] if hasattr(ec,'_widths') else None)
plt.close(d.fig)
from geometry_tools import projective
pd = drawtools.ProjectiveDrawing()
poly = projective.Polygon(rng.normal(size=(3,4,3))+np.array([3,0,0]))
pd.draw_polygon(poly); pc = pd.ax.collections[0]; print("proj poly paths", len(pc.get_paths()), pc.get_paths()[0].vertices[:4], poly.affine_coords()[0])
print("---- horoarc unit vs composite")
cc,rr,th = HA[:6].circle_parameters(model="poincare", degrees=False)
for i in range(6):
    c1,r1,t1_ = HA[i].circle_parameters(model="poincare", degrees=False)
    print(i, np.allclose(c1,cc[i]), np.allclose(r1,rr[i]), np.round(t1_,4), np.round(th[i],4))
avoid=[]
for i in range(200):
    c1,r1,t = HA[i].circle_parameters(model="poincare", degrees=False)
    ic = hyperbolic.Point(ctr)[i].coords("poincare")
    ang_c=np.arctan2((ic-c1)[1],(ic-c1)[0]); span=(t[1]-t[0])%(2*np.pi); rel=(ang_c-t[0])%(2*np.pi)
    avoid.append(rel>span)
print("unit arcs avoid ideal center:", np.mean(avoid))
