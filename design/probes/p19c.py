import fixnp
import matplotlib; matplotlib.use("Agg")
import numpy as np, warnings, itertools, collections, traceback
warnings.simplefilter("ignore")
from geometry_tools import hyperbolic, projective, utils, drawtools
import matplotlib.pyplot as plt
from matplotlib.path import Path
np.set_printoptions(precision=4, suppress=True)
poly = hyperbolic.Polygon(hyperbolic.Point(np.array([[0.5,0.1],[-0.3,0.6],[-0.2,-0.5]]),model="klein"))
d = drawtools.HyperbolicDrawing(model="poincare")
d.draw_polygon(poly)
path = d.ax.patches[0].get_path()
print(poly.coords("poincare"))
print(np.c_[path.vertices, path.codes])
segs = poly.get_edges()
print(segs.circle_parameters(model="poincare"))
print(segs.circle_parameters(model="poincare", degrees=False))
for bez, code in path.iter_bezier():
    print(code, bez.control_points.tolist() if hasattr(bez,'control_points') else bez, [bez.point_at_t(t) for t in (0,0.5,1)])
    break
pts=[]
for bez, code in path.iter_bezier():
    if code==Path.MOVETO: continue
    for t in np.linspace(0,1,3): pts.append(np.array(bez.point_at_t(t)))
pts=np.array(pts); print(pts[:6])
verts=poly.coords("poincare")
VP=[hyperbolic.Point(v,model="poincare") for v in verts]
for x in pts[:6]:
    X=hyperbolic.Point(x,model="poincare")
    print(x, [float(VP[i].distance(X)+X.distance(VP[(i+1)%3])-VP[i].distance(VP[(i+1)%3])) for i in range(3)])
