import fixnp
import numpy as np, warnings
warnings.simplefilter("ignore")
from geometry_tools import hyperbolic, projective, utils
from geometry_tools.hyperbolic import Model
rng = np.random.default_rng(1)
def rand_ball(n, shape=()):
    v = rng.normal(size=shape+(n,)); v /= np.linalg.norm(v,axis=-1,keepdims=True)
    r = rng.uniform(0,0.999,size=shape+(1,))
    return v*r
for n in [1,2,3,5]:
    k = rand_ball(n,(1000,))
    P = hyperbolic.Point(k, model="klein")
    d = P.distance(P)
    print(n, "nan frac d(x,x):", np.isnan(d).mean(), "max", np.nanmax(d))
    # roundtrips
    for m in ["projective","hyperboloid","klein","poincare","halfspace"]:
        c = P.coords(m)
        Q = hyperbolic.Point(c, model=m)
        err = np.abs(Q.coords("klein")-k).max()
        print("   ", m, c.shape, "roundtrip err", err)
# does distance mutate?
k = rand_ball(2,(5,))
P = hyperbolic.Point(k, model="klein")
before = P.proj_data.copy()
P.distance(P)
print("proj_data changed by distance:", not np.allclose(before,P.proj_data), "projectively same:", np.allclose(before/before[:,:1], P.proj_data/P.proj_data[:,:1]))
# hyperboloid_coords on caller array
arr = np.array([[2.0,0.2,0.1]])
P = hyperbolic.Point(arr)
print("shares memory with caller:", np.shares_memory(P.proj_data, arr))
P.hyperboloid_coords()
print("caller arr after query:", arr)
# integer input
try:
    P = hyperbolic.Point(np.array([[2,1,0]]))
    print(P.hyperboloid_coords())
except Exception as e: print("int input fails:", type(e).__name__, e)
# ideal point distance
I = hyperbolic.IdealPoint.from_angle(0.3)
print("ideal coords poincare", I.coords("poincare"), "halfspace", I.coords("halfspace"), "hyperboloid", I.coords("hyperboloid"))
