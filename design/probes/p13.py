import fixnp
import numpy as np, warnings
warnings.simplefilter("ignore")
from geometry_tools import hyperbolic, utils
rng = np.random.default_rng(16)
def rand_ball(n, shape=(), rmax=0.95):
    v = rng.normal(size=shape+(n,)); v /= np.linalg.norm(v,axis=-1,keepdims=True)
    return v*rng.uniform(0,rmax,size=shape+(1,))
def hyp(k):  # klein -> hyperboloid, positive time
    return np.concatenate([np.ones(k.shape[:-1]+(1,)),k],-1)/np.sqrt(1-(k**2).sum(-1,keepdims=True))
def mink(x,y): return -x[...,0]*y[...,0]+(x[...,1:]*y[...,1:]).sum(-1)
def dref(a,b): return np.arccosh(np.maximum(1,-mink(hyp(a),hyp(b))))
for n in [2,3,5]:
    N=2000
    p=rand_ball(n,(N,)); q=rand_ball(n,(N,)); r=rand_ball(n,(N,))
    P,Q,R=[hyperbolic.Point(x,model="klein") for x in (p,q,r)]
    t1=P.unit_tangent_towards(Q); t2=P.unit_tangent_towards(R)
    ang=t1.angle(t2)
    a=dref(q,r); b=dref(p,q); c=dref(p,r)
    cosA=(np.cosh(b)*np.cosh(c)-np.cosh(a))/(np.sinh(b)*np.sinh(c))
    print(n,"angle nan",np.isnan(ang).sum(),"law of cos err",np.nanmax(np.abs(np.cos(ang)-cosA)))
    print("   self angle", np.isnan(t1.angle(t1)).mean(), np.nanmax(t1.angle(t1)))
    # point_along
    for t in [-2.0, -0.3, 0.0, 0.5, 3.0]:
        X = t1.point_along(t)
        xk = X.coords("klein")
        print("   t",t,"dist err", np.abs(dref(p,xk)-abs(t)).max(), end=" ")
        # on geodesic through p,q: collinear in Klein
        if n==2:
            cr=(q-p)[:,0]*(xk-p)[:,1]-(q-p)[:,1]*(xk-p)[:,0]; print("collinear",np.abs(cr).max(), "side ok", (np.sign(((xk-p)*(q-p)).sum(-1))==np.sign(t)).all() if t!=0 else "")
        else: print()
    # isometry_to
    I = t1.isometry_to(t2)
    img = I @ t1
    print("   isometry_to basepoint", np.abs(img.coords("klein")[...,0,:]-p).max() if False else "", img.proj_data.shape, img.aux_data.shape)
# regular polygon
for n in [3,4,5,8,12]:
    amax=(n-2)*np.pi/n
    for a in [0.05*amax, 0.5*amax, 0.95*amax]:
        poly=hyperbolic.Polygon.regular_polygon(n, angle=a)
        v=poly.coords("klein")
        d0=dref(np.zeros(2),v); sides=dref(v,np.roll(v,-1,0))
        # interior angle at vertex i
        H=hyp(v)
        def tang(x,y):  # unit tangent at x toward y
            w=y+mink(x,y)[...,None]*x; return w/np.sqrt(mink(w,w))[...,None]
        u1=tang(H,np.roll(H,-1,0)); u2=tang(H,np.roll(H,1,0))
        ang=np.arccos(np.clip(mink(u1,u2),-1,1))
        rad=hyperbolic.regular_polygon_radius(n,a)
        print(n,round(a,3),"radius spread",np.ptp(d0),"vs formula",abs(d0[0]-rad),"side spread",np.ptp(sides),"angle err",np.abs(ang-a).max(),"inverse", abs(hyperbolic.polygon_interior_angle(n,rad)-a))
