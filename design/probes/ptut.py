import fixnp
import matplotlib; matplotlib.use("Agg")
import numpy as np, warnings, time
warnings.simplefilter("ignore")
from geometry_tools import hyperbolic, coxeter, drawtools
from geometry_tools.examples import reps
t=time.time()
triangle_group = coxeter.TriangleGroup((2,3,7))
triangle_rep = triangle_group.hyperbolic_rep()
reflections = triangle_rep.isometries(["a", "b", "c"])
walls = hyperbolic.Geodesic.from_reflection(reflections)
wall_a, wall_b, wall_c = walls
vertices = triangle_rep.isometries(["ab", "bc", "ca"]).fixed_point()
print(vertices.coords("klein"))
fund_triangle = hyperbolic.Polygon(vertices)
# angles of triangle
V = vertices
def ang(i,j,k):
    t1 = V[i].unit_tangent_towards(V[j]); t2 = V[i].unit_tangent_towards(V[k]); return float(t1.angle(t2))
print([np.pi/ang(0,1,2), np.pi/ang(1,2,0), np.pi/ang(2,0,1)])
triangle_fsa = triangle_group.automaton(even_length=True)
pos_isometries = triangle_rep.automaton_accepted(triangle_fsa, 6)
fig = drawtools.HyperbolicDrawing(model="poincare")
fig.draw_plane()
fig.draw_polygon(pos_isometries @ fund_triangle, facecolor="royalblue", edgecolor="none")
print("tutorial ok", time.time()-t, pos_isometries.shape)
rep = reps.surface_rep_I()
print(np.abs(rep["adCbADcB"]-np.eye(2)).max())
print(np.abs(rep.cocycle_matrix()@rep.coboundary_matrix()).max())
G = coxeter.TriangleGroup((3,4,0))
hr = G.hyperbolic_rep()
V = hr.isometries(["ab","bc","ca"]).fixed_point()
print(V.coords("klein"), np.linalg.norm(V.coords("klein"),axis=-1))
