import fixnp
import matplotlib; matplotlib.use("Agg")
import numpy as np, warnings, itertools, collections, traceback
warnings.simplefilter("ignore")
from geometry_tools import hyperbolic, projective, utils, drawtools
import matplotlib.pyplot as plt
from matplotlib.path import Path
rng = np.random.default_rng(14)
def rand_ball(n, shape=(), rmax=0.9):
    v = rng.normal(size=shape+(n,)); v /= np.linalg.norm(v,axis=-1,keepdims=True)
    return v*rng.uniform(0,rmax,size=shape+(1,))
def dH(x,y):
    return np.arccosh(np.maximum(1, 1+((x-y)**2).sum(-1)/(2*x[...,-1]*y[...,-1])))
def k2h(k):
    # klein -> poincare -> halfspace (reference, same convention as library)
    p = k/(1+np.sqrt(1-(k**2).sum(-1,keepdims=True)))
    y=p[...,0]; v=p[...,1:]; x2=(v**2).sum(-1); den=x2+(y-1)**2
    return np.concatenate([-2*v/den[...,None], ((1-x2-y*y)/den)[...,None]],-1)
def sample(path, k=5):
    pts=[]; segid=[]
    for i,(bez, code) in enumerate(path.iter_bezier()):
        if code==Path.MOVETO: continue
        for t in np.linspace(0,1,k): pts.append(bez.point_at_t(t)); segid.append((i,code))
    return np.array(pts), segid
bad=0
for trial in range(600):
    nv=int(rng.integers(3,8))
    kv = rand_ball(2,(nv,))
    poly = hyperbolic.Polygon(hyperbolic.Point(kv,model="klein"))
    d = drawtools.HyperbolicDrawing(model="halfspace")
    d.draw_polygon(poly)
    path = d.ax.patches[0].get_path()
    pts,segid = sample(path)
    verts = k2h(kv)
    assert np.allclose(verts, poly.coords("halfspace"))
    el=[dH(verts[i],verts[(i+1)%nv]) for i in range(nv)]
    defects=np.array([[abs(dH(verts[i],x)+dH(x,verts[(i+1)%nv])-el[i]) if x[1]>0 else np.inf for i in range(nv)] for x in pts])
    dmin=defects.min(1)
    if dmin.max()>=1e-5:
        bad+=1
        c,r,th = poly.get_edges().circle_parameters(model="halfspace")
        w = int(dmin.argmax())
        if bad<=6: print("trial",trial,"nv",nv,"max defect",dmin.max(),"radii",np.round(r,2),"codes",collections.Counter(path.codes.tolist()), "worst pt", pts[w], segid[w])
    plt.close(d.fig)
print("bad",bad)
