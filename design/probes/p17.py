import fixnp
import numpy as np, warnings, itertools, collections, traceback
warnings.simplefilter("ignore")
from geometry_tools import hyperbolic, projective, utils, lie
rng = np.random.default_rng(12)
def sl2(shape=()):
    A = rng.normal(size=shape+(2,2)); d = np.linalg.det(A)
    A[...,0,:] *= np.sign(d)[...,None]; return A/np.sqrt(np.abs(d))[...,None,None]
def tryit(name, f):
    try:
        r = f(); print("OK  ", name, "->", r if not hasattr(r,'shape') else r.shape); return r
    except Exception as e:
        print("FAIL", name, type(e).__name__, str(e)[:200])
A=sl2(); B=sl2()
for n in range(2,7):
    e = np.abs(lie.sl2_irrep(A@B,n)-lie.sl2_irrep(A,n)@lie.sl2_irrep(B,n)).max()
    print("irrep",n,e,"det",np.linalg.det(lie.sl2_irrep(A,n)), "id", np.abs(lie.sl2_irrep(np.eye(2),n)-np.eye(n)).max())
As=sl2((3,2)); Bs=sl2((3,2))
print("irrep array", np.abs(lie.sl2_irrep(As@Bs,4)-lie.sl2_irrep(As,4)@lie.sl2_irrep(Bs,4)).max(), np.abs(lie.sl2_irrep(As,4)[1,1]-lie.sl2_irrep(As[1,1],4)).max())
J=np.diag([-1.,1,1])
S=lie.sl2_to_so21(A); print("so21 hom", np.abs(lie.sl2_to_so21(A@B)-S@lie.sl2_to_so21(B)).max(), "form", np.abs(S.T@J@S-J).max(), "det", np.linalg.det(S))
print("so21 array", np.abs(lie.sl2_to_so21(As)[2,0]-lie.sl2_to_so21(As[2,0])).max())
P = tryit("o_to_pgl", lambda: lie.o_to_pgl(S))
if P is not None: print("   recover up to sign", min(np.abs(P-A).max(), np.abs(P+A).max()), P, A)
cnt=0
for _ in range(200):
    A=sl2(); B=sl2()
    PA=lie.o_to_pgl(lie.sl2_to_so21(A)); 
    if min(np.abs(PA-A).max(), np.abs(PA+A).max())>1e-6: cnt+=1
print("o_to_pgl recover failures /200:", cnt)
cnt=0
for _ in range(200):
    A=sl2(); B=sl2()
    SA=lie.sl2_to_so21(A); SB=lie.sl2_to_so21(B)
    l=lie.o_to_pgl(SA@SB); r=lie.o_to_pgl(SA)@lie.o_to_pgl(SB)
    if min(np.abs(l-r).max(), np.abs(l+r).max())>1e-6: cnt+=1
print("o_to_pgl hom-up-to-sign failures /200:", cnt)
tryit("o_to_pgl array", lambda: lie.o_to_pgl(lie.sl2_to_so21(As[0])))
# adjoint
for n in [2,3,4]:
    X=rng.normal(size=(n,n)); Y=rng.normal(size=(n,n))
    g = lambda M: lie.gln_adjoint(M).astype(float)
    print("gln_adj",n, np.abs(g(X@Y)-g(X)@g(Y)).max(), lie.gln_adjoint(X).dtype)
    X/=np.abs(np.linalg.det(X))**(1/n)*np.sign(np.linalg.det(X)) if n%2 else np.abs(np.linalg.det(X))**(1/n); 
    s = lambda M: lie.sln_adjoint(M).astype(float)
    K = lie.sln_killing_form(n)
    SX = s(X)
    print("sln_adj",n, np.abs(s(X@Y)-s(X)@s(Y)).max(), "killing", np.abs(SX.T@K@SX-K).max(), K.dtype)
tryit("gln_adjoint array", lambda: lie.gln_adjoint(rng.normal(size=(3,2,2))))
# slc_to_slr
C1=rng.normal(size=(3,3))+1j*rng.normal(size=(3,3)); C2=rng.normal(size=(3,3))+1j*rng.normal(size=(3,3))
print("slc_to_slr", np.abs(lie.slc_to_slr(C1@C2)-lie.slc_to_slr(C1)@lie.slc_to_slr(C2)).max(), lie.slc_to_slr(C1).dtype)
Cs=rng.normal(size=(4,2,2))+1j*rng.normal(size=(4,2,2))
tryit("slc_to_slr array", lambda: np.abs(lie.slc_to_slr(Cs)[2]-lie.slc_to_slr(Cs[2])).max())
# sl2c_to_so31
def sl2c():
    A=rng.normal(size=(2,2))+1j*rng.normal(size=(2,2)); return A/np.sqrt(np.linalg.det(A))
A=sl2c(); B=sl2c()
S = tryit("sl2c_to_so31", lambda: lie.sl2c_to_so31(A))
if S is not None:
    print(S.dtype)
    J4=np.diag([-1.,1,1,1])
    for Jt in [J4, np.diag([1.,-1,-1,-1]), np.diag([1.,1,1,-1.]), np.diag([1,-1,1,1.])]:
        print("   form", np.diag(Jt), np.abs(S.T@Jt@S-Jt).max())
    print("   hom", np.abs(lie.sl2c_to_so31(A@B)-S@lie.sl2c_to_so31(B)).max(), "det", np.linalg.det(S))
tryit("sl2c array", lambda: lie.sl2c_to_so31(np.stack([A,B])))
# block include
print("block", np.abs(lie.block_include(A@B,4)-lie.block_include(A,4)@lie.block_include(B,4)).max())
tryit("block array", lambda: lie.block_include(As,3).shape)
from geometry_tools.lie import hom
h = hom.sl2_irrep(3); print(h(A.real if False else sl2()).shape)
tryit("hom.so21_adjoint", lambda: hom.so21_adjoint()(lie.sl2_to_so21(sl2())).shape)
