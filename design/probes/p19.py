import fixnp
import matplotlib; matplotlib.use("Agg")
import numpy as np, warnings, itertools, collections, traceback
warnings.simplefilter("ignore")
from geometry_tools import hyperbolic, projective, utils, drawtools
import matplotlib.pyplot as plt
from matplotlib.path import Path
rng = np.random.default_rng(14)
def rand_ball(n, shape=(), rmax=0.9):
    v = rng.normal(size=shape+(n,)); v /= np.linalg.norm(v,axis=-1,keepdims=True)
    return v*rng.uniform(0,rmax,size=shape+(1,))
res=collections.Counter()
for model in ["poincare","halfspace","klein"]:
    for trial in range(60):
        nv=int(rng.integers(3,8))
        poly = hyperbolic.Polygon(hyperbolic.Point(rand_ball(2,(nv,)),model="klein"))
        d = drawtools.HyperbolicDrawing(model=model)
        try:
            d.draw_polygon(poly)
            if model=="klein":
                coll = d.ax.collections[0]; paths = coll.get_paths()
                v = paths[0].vertices
                ok = np.allclose(v[:nv], poly.coords("klein"))
                res[(model,"ok" if ok else "bad")]+=1
            else:
                patch = d.ax.patches[0]; path = patch.get_path()
                V = path.vertices; C = path.codes
                # continuity: only one MOVETO
                nmove = (C==Path.MOVETO).sum()
                ip = path.interpolated(1)
                # to sample actual curve, flatten bezier:
                polys = path.to_polygons(closed_only=False)
                verts = poly.coords(model)
                # each vertex is visited in order
                dists = [np.linalg.norm(V-vv,axis=-1).min() for vv in verts]
                firstidx = [int(np.linalg.norm(V-vv,axis=-1).argmin()) for vv in verts]
                # sampled points on path lie on hyperbolic edges
                pts = polys[0]
                P = hyperbolic.Point(pts, model=model)
                # distance to nearest edge: min over edges of d(a,x)+d(x,b)-d(a,b)
                vp = hyperbolic.Point(verts, model=model)
                defects=[]
                for x in pts:
                    X=hyperbolic.Point(x,model=model)
                    best=min(abs(float(hyperbolic.Point(verts[i],model=model).distance(X)+X.distance(hyperbolic.Point(verts[(i+1)%nv],model=model))-hyperbolic.Point(verts[i],model=model).distance(hyperbolic.Point(verts[(i+1)%nv],model=model)))) for i in range(nv))
                    defects.append(best)
                ok = nmove==1 and max(dists)<1e-6 and firstidx==sorted(firstidx) and np.nanmax(defects)<1e-3
                res[(model,"ok" if ok else "bad")]+=1
                if not ok and res[(model,"bad")]<3: print(model,"nmove",nmove,"maxvdist",max(dists),"order",firstidx,"defect",np.nanmax(defects), "len polys", len(polys))
        except Exception as e:
            res[(model,"exc",type(e).__name__)]+=1
            if res[(model,"exc",type(e).__name__)]<2: traceback.print_exc()
        plt.close(d.fig)
print(res)
