import fixnp
import matplotlib; matplotlib.use("Agg")
import numpy as np, warnings, itertools, collections, traceback
warnings.simplefilter("ignore")
from geometry_tools import hyperbolic, projective, utils, drawtools
import matplotlib.pyplot as plt
from matplotlib.path import Path
rng = np.random.default_rng(14)
def rand_ball(n, shape=(), rmax=0.9):
    v = rng.normal(size=shape+(n,)); v /= np.linalg.norm(v,axis=-1,keepdims=True)
    return v*rng.uniform(0,rmax,size=shape+(1,))
def dP(x,y):
    return np.arccosh(np.maximum(1, 1+2*((x-y)**2).sum(-1)/((1-(x**2).sum(-1))*(1-(y**2).sum(-1)))))
def dH(x,y):
    return np.arccosh(np.maximum(1, 1+((x-y)**2).sum(-1)/(2*x[...,-1]*y[...,-1])))
def sample(path, k=5):
    pts=[]
    for bez, code in path.iter_bezier():
        if code==Path.MOVETO: continue
        for t in np.linspace(0,1,k): pts.append(bez.point_at_t(t))
    return np.array(pts)
res=collections.Counter(); worst=collections.defaultdict(float)
for model,dist in [("poincare",dP),("halfspace",dH)]:
    for trial in range(300):
        nv=int(rng.integers(3,8))
        poly = hyperbolic.Polygon(hyperbolic.Point(rand_ball(2,(nv,)),model="klein"))
        d = drawtools.HyperbolicDrawing(model=model)
        d.draw_polygon(poly)
        path = d.ax.patches[0].get_path()
        pts = sample(path)
        verts = poly.coords(model)
        el=[dist(verts[i],verts[(i+1)%nv]) for i in range(nv)]
        defects=np.array([[abs(dist(verts[i],x)+dist(x,verts[(i+1)%nv])-el[i]) for i in range(nv)] for x in pts])
        edge = defects.argmin(1); dmin=defects.min(1)
        worst[model]=max(worst[model], dmin.max())
        ok = dmin.max()<1e-5
        res[(model, bool(ok))]+=1
        plt.close(d.fig)
print(res, dict(worst))
