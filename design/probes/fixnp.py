import numpy as np
from geometry_tools.utils import types
def _dt(a):
    return np.asarray(a).dtype
def inexact_type(array):
    try:
        dt=_dt(array)
        return (not np.can_cast(dt, int) and (np.can_cast(dt, np.dtype("complex")) or np.can_cast(dt, float)))
    except TypeError:
        return False
def is_linalg_type(array):
    try:
        dt=_dt(array)
        return (np.can_cast(dt, np.dtype("complex")) or np.can_cast(dt, float))
    except TypeError:
        return False
types.inexact_type = inexact_type
types.is_linalg_type = is_linalg_type
