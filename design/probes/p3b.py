import sys; sys.path.insert(0,'/tmp/gt_fix')
import numpy as np, warnings, itertools, collections, traceback
warnings.simplefilter("ignore")
from geometry_tools import projective, hyperbolic, utils
rng = np.random.default_rng(22)
fails=collections.Counter(); ex={}; cnt=collections.Counter()
def peq(a,b,tol=1e-7):
    a=np.asarray(a).astype(complex); b=np.asarray(b).astype(complex)
    if a.shape!=b.shape: return False
    a=a/np.linalg.norm(a,axis=-1,keepdims=True); b=b/np.linalg.norm(b,axis=-1,keepdims=True)
    return bool(np.all(np.abs(np.abs((a*np.conj(b)).sum(-1))-1)<tol))
def peqmat(a,b,tol=1e-7):
    a=np.asarray(a).astype(complex); b=np.asarray(b).astype(complex)
    if a.shape!=b.shape: return False
    fa=a.reshape(a.shape[:-2]+(-1,)); fb=b.reshape(b.shape[:-2]+(-1,))
    return peq(fa,fb,tol)
def randT(n, shape=(), cx=False):
    while True:
        M = rng.normal(size=shape+(n+1,n+1))
        if cx: M = M+1j*rng.normal(size=shape+(n+1,n+1))
        if np.all(np.linalg.cond(M)<30): return projective.Transformation(M)
def mk(kind,n,shape,cx):
    def R(*s):
        x=rng.normal(size=shape+s)
        return x+1j*rng.normal(size=shape+s) if cx else x
    if kind=="Point": return projective.Point(R(n+1))
    if kind=="PointPair": return projective.PointPair(R(2,n+1))
    if kind=="Polygon": return projective.Polygon(R(4,n+1))
    if kind=="Simplex": return projective.Simplex(R(3,n+1))
    if kind=="Subspace": return projective.Subspace(R(2,n+1))
    if kind=="Transformation": return randT(n,shape,cx)
for kind in ["Point","PointPair","Polygon","Simplex","Subspace","Transformation"]:
    for n in [1,2,3]:
        for cx in [False,True]:
            for shape in [(),(3,),(2,2)]:
                try:
                    X=mk(kind,n,shape,cx); A=randT(n,(),cx); B=randT(n,(),cx)
                    cnt[kind]+=1
                    L=(A@B)@X; Rr=A@(B@X)
                    cmp = peqmat if kind=="Transformation" else peq
                    if type(L)!=type(X) or L.shape!=X.shape: fails[(kind,"type/shape")]+=1
                    if not cmp(L.proj_data,Rr.proj_data): fails[(kind,"assoc")]+=1; ex.setdefault((kind,"assoc"),(n,cx,shape))
                    if X.aux_data is not None and not peq(L.aux_data,Rr.aux_data): fails[(kind,"assoc aux")]+=1
                    I=projective.identity(n)
                    if not cmp((I@X).proj_data,X.proj_data): fails[(kind,"id")]+=1
                    back=A.inv()@(A@X)
                    if not cmp(back.proj_data,X.proj_data): fails[(kind,"inv")]+=1
                    if X.aux_data is not None and not peq(back.aux_data,X.aux_data): fails[(kind,"inv aux")]+=1
                    # column-vector semantics for points
                    if kind=="Point":
                        M = A.proj_data.T   # column matrix
                        img = (A@X).proj_data
                        exp = np.einsum('ij,...j->...i', M, X.proj_data)
                        if not peq(img,exp): fails[(kind,"colvec")]+=1
                except Exception as e:
                    fails[(kind,"exc",type(e).__name__)]+=1; ex.setdefault((kind,"exc",type(e).__name__),(n,cx,shape,traceback.format_exc()[-400:]))
# representation action
rep = projective.ProjectiveRepresentation()
Ma = rng.normal(size=(3,3)); Mb = rng.normal(size=(3,3))
rep["a"]=projective.Transformation(Ma, column_vectors=True); rep["b"]=projective.Transformation(Mb, column_vectors=True)
x = rng.normal(size=3); P=projective.Point(x)
for w in ["ab","abA","bbaB",""]:
    M=np.eye(3)
    for ch in w: M = M@{"a":Ma,"b":Mb,"A":np.linalg.inv(Ma),"B":np.linalg.inv(Mb)}[ch]
    if not peq((rep[w]@P).proj_data, M@x): fails[("rep",w)]+=1
hr = hyperbolic.HyperbolicRepresentation()
S=hyperbolic.sl2_iso(np.array([[2.,1.],[1.,1.]])); T=hyperbolic.Isometry.standard_rotation(0.7)
hr["a"]=S; hr["b"]=T
Sa=S.proj_data.T; Tb=T.proj_data.T
x=np.array([1.,0.2,0.3]); P=hyperbolic.Point(x)
for w in ["ab","abA","bbaB",""]:
    M=np.eye(3)
    for ch in w: M = M@{"a":Sa,"b":Tb,"A":np.linalg.inv(Sa),"B":np.linalg.inv(Tb)}[ch]
    img = hr[w]@P
    if not peq(img.proj_data, M@x) or type(img).__name__!="Point": fails[("hrep",w)]+=1
print(cnt); print(dict(fails)); 
for k,v in ex.items(): print(k,v)
