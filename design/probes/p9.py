import numpy as np, warnings, itertools, collections, copy, traceback
from geometry_tools.automata import fsa
rng = np.random.default_rng(5)
def views(F):
    g = sorted((v,w,l) for v,nb in F.graph_dict.items() for l,w in nb.items())
    o = sorted((v,w,l) for v,nb in F.out_dict.items() for w,ls in nb.items() for l in ls)
    i = sorted((v,w,l) for w,nb in F.in_dict.items() for v,ls in nb.items() for l in ls)
    return g,o,i
def vset(F):
    return set(F.graph_dict), set(F.out_dict), set(F.vertices())
fails=collections.Counter()
examples={}
for trial in range(3000):
    V=list(range(4)); LAB="abc"
    # model: vertices set, edges dict (v,l)->w
    route = rng.integers(0,3)
    mv=set(); me={}
    nv = rng.integers(1,4)
    for v in range(nv):
        mv.add(v)
        for l in LAB:
            if rng.random()<0.4:
                w=int(rng.integers(0,4)); me[(v,l)]=w; mv.add(w)
    gd={v:{l:w for (vv,l),w in me.items() if vv==v} for v in range(nv)}
    hist=[("construct",route,gd)]
    try:
        if route==0: F=fsa.FSA(gd,start_vertices=[0])
        elif route==1:
            od={v:{} for v in mv}
            for (v,l),w in me.items(): od[v].setdefault(w,[]).append(l)
            F=fsa.FSA(od,start_vertices=[0],graph_dict=False)
        else:
            F=fsa.FSA({},start_vertices=[0]); F.add_vertices(sorted(mv)); F.add_edges([(v,w,l) for (v,l),w in me.items()])
        for step in range(rng.integers(1,7)):
            op = rng.choice(["addv","adde","addes","delv","rename","recurrent","copy"])
            if op=="addv":
                v=int(rng.integers(0,5)); hist.append((op,v)); F.add_vertices([v]); mv.add(v)
            elif op=="adde":
                v=int(rng.integers(0,5)); w=int(rng.integers(0,5)); l=str(rng.choice(list(LAB)))
                if (v,l) in me and me[(v,l)]!=w: continue
                hist.append((op,v,w,l)); F.add_edges([(v,w,l)]); mv|={v,w}; me[(v,l)]=w
            elif op=="addes":
                v=int(rng.integers(0,5)); w=int(rng.integers(0,5)); ls=[l for l in LAB if rng.random()<0.5 and (v,l) not in me]
                hist.append((op,v,w,ls)); F.add_edges([(v,w,ls)],elist=True); mv|={v,w}
                for l in ls: me[(v,l)]=w
            elif op=="delv":
                if not mv: continue
                v=int(rng.choice(sorted(mv))); hist.append((op,v)); F.delete_vertex(v); mv.discard(v)
                me={k:w for k,w in me.items() if k[0]!=v and w!=v}
            elif op=="rename":
                perm=dict(zip(LAB, rng.permutation(list(LAB)))); perm={k:str(v) for k,v in perm.items()}
                hist.append((op,perm)); F.rename_generators(perm, inplace=True); me={(v,perm[l]):w for (v,l),w in me.items()}
            elif op=="recurrent":
                hist.append((op,)); F.recurrent(inplace=True)
                ch=True
                while ch:
                    ch=False
                    for v in sorted(mv):
                        outd=any(k[0]==v for k in me); ind=any(w==v for w in me.values())
                        if not outd or not ind:
                            mv.discard(v); me={k:w for k,w in me.items() if k[0]!=v and w!=v}; ch=True
            elif op=="copy":
                hist.append((op,)); F=copy.deepcopy(F)
            g,o,i = views(F)
            exp = sorted((v,w,l) for (v,l),w in me.items())
            if not (g==o==i==exp):
                key=("views", hist[-1][0]); fails[key]+=1; examples.setdefault(key,(hist[:],g,o,i,exp)); break
            a,b,c = vset(F)
            if not (a==b==c==mv):
                key=("vertices", hist[-1][0]); fails[key]+=1; examples.setdefault(key,(hist[:],a,b,c,mv)); break
    except Exception as e:
        key=("exc", hist[-1][0], type(e).__name__); fails[key]+=1; examples.setdefault(key,(hist[:],traceback.format_exc()[-300:]))
print(fails)
for k,v in examples.items():
    print(k); 
    for x in v: print("   ",x)
