import fixnp
import numpy as np, warnings, itertools, collections
warnings.simplefilter("ignore")
from geometry_tools import representation, utils
from geometry_tools.automata import fsa
rng = np.random.default_rng(4)
rep = representation.Representation()
mats = {}
for g in "ab":
    M = rng.normal(size=(2,2)); rep[g]=M
def val(w):
    M=np.eye(2)
    for c in w: M = M@rep.generators[c]
    return M
def ref_paths(F, L, exact, start=None, end=None):
    """multiset of (word) for paths from start vertex, optionally ending at end"""
    s = F.start_vertices[0] if start is None else start
    out=[]
    def rec(v, w, l):
        if (not exact or l==L) and (end is None or v==end):
            out.append(w)
        if l==L: return
        for lab, nb in F.graph_dict[v].items():
            rec(nb, w+lab, l+1)
    rec(s, "", 0)
    return collections.Counter(out)
bad=0; total=0
for trial in range(300):
    nv = rng.integers(1,5); labels="abAB"[:rng.integers(1,5)]
    gd = {v:{} for v in range(nv)}
    for v in range(nv):
        for lab in labels:
            if rng.random()<0.5: gd[v][lab]=int(rng.integers(0,nv))
    F = fsa.FSA(gd, start_vertices=[0])
    for L in range(0,5):
        for maxlen in [True, False]:
            for mode in ["default","start","end"]:
                kw={}
                st=None; en=None
                if mode=="start": st=int(rng.integers(0,nv)); kw["start_state"]=st
                if mode=="end": en=int(rng.integers(0,nv)); kw["end_state"]=en
                total+=1
                try:
                    mats_, words = rep.automaton_accepted(F, L, maxlen=maxlen, with_words=True, **kw)
                    m2 = rep.automaton_accepted(F, L, maxlen=maxlen, with_words=False, **kw)
                except Exception as e:
                    bad+=1
                    if bad<8: print("EXC", gd, L, maxlen, kw, type(e).__name__, e)
                    continue
                exp = ref_paths(F, L, not maxlen, st, en)
                got = collections.Counter(words)
                ok = (got==exp) and len(words)==len(mats_) and all(np.allclose(m, val(w)) for m,w in zip(mats_,words)) and m2.shape==mats_.shape and np.allclose(m2, mats_)
                if not ok:
                    bad+=1
                    if bad<8: print("BAD", gd, "L",L,"maxlen",maxlen,kw,"missing",exp-got,"extra",got-exp)
print("total",total,"bad",bad)
