import fixnp
import numpy as np, warnings, itertools
warnings.simplefilter("ignore")
from geometry_tools import representation, projective, hyperbolic, utils, lie
from geometry_tools.automata import fsa
rng = np.random.default_rng(3)
def tryit(name, f):
    try:
        r = f(); print("OK  ", name, "->", r if not hasattr(r,'shape') else r.shape); return r
    except Exception as e:
        import traceback
        print("FAIL", name, type(e).__name__, str(e)[:200])
rep = representation.Representation()
A = rng.normal(size=(3,3)); B = rng.normal(size=(3,3))
rep["a"]=A; rep["b"]=B
w="abAAbBa"
def val(w):
    M=np.eye(3)
    for c in w:
        M = M @ {"a":A,"b":B,"A":np.linalg.inv(A),"B":np.linalg.inv(B)}[c]
    return M
print("word ok", np.allclose(rep[w], val(w)))
d = tryit("dual", lambda: rep.dual())
if d: print("  dual check", np.allclose(d[w], np.linalg.inv(val(w)).T))
t = tryit("tensor", lambda: rep.tensor_product(rep))
if t: print("  tensor check", np.allclose(t[w], np.kron(val(w), val(w))))
s = tryit("symsq", lambda: rep.symmetric_square())
sub = tryit("subgroup", lambda: rep.subgroup(["ab","bA"]))
if sub: print("  subgroup check", np.allclose(sub["abA"], val("ab"+"bA"+"BA")), list(sub.generators))
sub2 = tryit("subgroup dict", lambda: rep.subgroup({"x":"ab","y":"bA"}))
sub3 = tryit("subgroup nocomp", lambda: rep.subgroup(["ab","bA"], compute_inverse=False))
if sub3: print("  ", list(sub3.generators), np.allclose(sub3["B"], val("aB")))
g = tryit("gln_adjoint", lambda: rep.gln_adjoint())
if g: print("   adj check", np.allclose(g[w], lie.gln_adjoint(val(w)).astype(float)), np.allclose(g["ab"], g["a"]@g["b"]))
g = tryit("sln_adjoint", lambda: rep.sln_adjoint())
if g: print("   adj check", np.allclose(g[w], lie.sln_adjoint(val(w)).astype(float)))
c = tryit("conjugate", lambda: rep.conjugate(B))
if c: print("   conj check", np.allclose(c[w], np.linalg.inv(B)@val(w)@B))
at = tryit("astype", lambda: rep.astype(complex))
if at: print("  ", at[w].dtype, np.allclose(at[w], val(w)))
cp = tryit("copy", lambda: representation.Representation(rep))
if cp: print("   copy", np.allclose(cp[w], val(w)))
pr = tryit("projrep", lambda: projective.ProjectiveRepresentation(rep))
if pr: print("   proj", np.allclose(pr[w].matrix.T, val(w)))
# differential
rep.relations=["abAB"]
D = tryit("differential", lambda: rep.differential(w))
if D is not None:
    n=3
    lhs = val(w)-np.eye(3)
    rhs = D[:, :3] @ (A-np.eye(3)) + D[:, 3:] @ (B-np.eye(3))
    print("   fox formula", np.allclose(lhs, rhs), np.abs(lhs-rhs).max())
cm = tryit("cocycle", lambda: rep.cocycle_matrix())
cb = tryit("coboundary", lambda: rep.coboundary_matrix())
# multi-char gens
r2 = representation.Representation(parse_simple=False)
tryit("multichar set", lambda: r2.__setitem__("s1", A))
tryit("multichar set", lambda: r2.__setitem__("s2", B))
tryit("multichar word", lambda: np.allclose(r2["s1*s2*S1"], A@B@np.linalg.inv(A)))
print(list(r2.generators))
# int gens
ri = representation.Representation()
ri["a"] = np.array([[1,1],[0,1]])
print("int rep", ri["aaA"].dtype, ri["aaA"], ri.generators["A"].dtype)
# reassign
rep["a"] = B
print("reassign", np.allclose(rep["aA"], np.eye(3)), np.allclose(rep["a"], B))
# freely_reduced
e, ws = rep.freely_reduced_elements(3, with_words=True)
print(len(ws), len(set(ws)), e.shape)
allw = set(utils.words.simplify_word(''.join(t)) for l in range(4) for t in itertools.product("abAB", repeat=l))
print("free words set equal", set(ws)==allw)
print(list(rep.free_words_less_than(2)))
