import numpy as np, warnings, traceback
import fixnp
from geometry_tools import hyperbolic, projective, utils, coxeter, representation, lie
from geometry_tools.hyperbolic import Model
rng = np.random.default_rng(0)
def tryit(name, f):
    try:
        r = f()
        print("OK  ", name, "->", (r if not hasattr(r,'shape') else (r.shape, getattr(r,'dtype',None))))
        return r
    except Exception as e:
        print("FAIL", name, type(e).__name__, str(e)[:150])

# C12/C08 numpy2 issues
tryit("rotation_matrix(py float)", lambda: utils.rotation_matrix(0.3))
tryit("rotation_matrix(np float)", lambda: utils.rotation_matrix(np.float64(0.3)))
tryit("rotation_matrix(0d arr)", lambda: utils.rotation_matrix(np.array(0.3)))
tryit("standard_rotation(py)", lambda: hyperbolic.Isometry.standard_rotation(0.3).proj_data)
tryit("standard_rotation(np)", lambda: hyperbolic.Isometry.standard_rotation(np.float64(0.3)).proj_data)
tryit("standard_rotation(np).inv", lambda: hyperbolic.Isometry.standard_rotation(np.float64(0.3)).inv().proj_data)
tryit("standard_rotation(py).inv", lambda: hyperbolic.Isometry.standard_rotation(0.3).inv().proj_data)
tryit("sl2_iso(list)", lambda: hyperbolic.sl2_iso([[2.,0.],[0.,.5]]).proj_data)
tryit("sl2_iso(arr)", lambda: hyperbolic.sl2_iso(np.array([[2.,0.],[0.,.5]])).proj_data)
tryit("from_angle(py)", lambda: hyperbolic.IdealPoint.from_angle(0.3).proj_data)
tryit("from_angle(np)", lambda: hyperbolic.IdealPoint.from_angle(np.float64(0.3)).proj_data)
tryit("regular_polygon py", lambda: hyperbolic.Polygon.regular_polygon(5, angle=np.pi/3).proj_data)
tryit("regular_polygon np", lambda: hyperbolic.Polygon.regular_polygon(5, angle=np.float64(np.pi/3)).proj_data)
tryit("regular_polygon radius", lambda: hyperbolic.Polygon.regular_polygon(5, radius=np.float64(1.0)).proj_data)
tryit("elliptic(list)", lambda: hyperbolic.Isometry.elliptic(2, [[0.,-1.],[1.,0.]]).proj_data)
tryit("elliptic(arr)", lambda: hyperbolic.Isometry.elliptic(2, np.array([[0.,-1.],[1.,0.]])).proj_data)
tryit("std loxodromic", lambda: hyperbolic.Isometry.standard_loxodromic(2, 5.0).proj_data)
G = coxeter.TriangleGroup((2,3,7))
tryit("bilinear_form", lambda: G.bilinear_form())
tryit("geom rep", lambda: G.geometric_representation()["ab"])
tryit("canon rep", lambda: G.canonical_representation()["ab"])
tryit("hyp rep", lambda: G.hyperbolic_rep()["ab"].proj_data)
tryit("automaton", lambda: list(G.automaton().enumerate_words(3)))
tryit("utils.number(1, like=0.5)", lambda: type(utils.number(1, like=0.5)))
tryit("utils.zeros like py", lambda: utils.zeros((2,), like=0.5).dtype)
tryit("utils.identity like py", lambda: utils.identity(2, like=0.5).dtype)
tryit("array_like list", lambda: utils.array_like([[1.,2.],[3.,4.]]).dtype)
tryit("array_like int list", lambda: utils.array_like([[1,2],[3,4]]).dtype)
tryit("array_like arr", lambda: utils.array_like(np.array([[1,2],[3,4]])).dtype)
