import fixnp
import numpy as np, warnings, itertools, sys, time
warnings.simplefilter("ignore")
from geometry_tools import coxeter
from geometry_tools.automata import fsa

def braid_class(word, M):
    """all words reachable from `word` (tuple of ints) by braid moves"""
    n = len(M)
    seen = {word}; stack=[word]
    while stack:
        w = stack.pop()
        L = len(w)
        for i in range(L):
            s = w[i]
            for t in range(n):
                if t == s: continue
                m = M[s][t]
                if m <= 0 or i + m > L: continue
                # alternating s t s t ... of length m starting at i
                ok = all(w[i+k] == (s if k%2==0 else t) for k in range(m))
                if ok:
                    new = w[:i] + tuple((t if k%2==0 else s) for k in range(m)) + w[i+m:]
                    if new not in seen:
                        seen.add(new); stack.append(new)
    return seen
def has_square(w):
    return any(w[i]==w[i+1] for i in range(len(w)-1))
def is_reduced(word, M, cache={}):
    cls = braid_class(word, M)
    return not any(has_square(w) for w in cls), cls

def check(M, L, names="abcdefg"):
    G = coxeter.CoxeterGroup(matrix=np.array(M))
    geo = G.automaton(shortlex=False)
    slx = G.automaton(shortlex=True)
    n = len(M)
    bad = []
    reduced_prev = {(): frozenset({()})}
    nwords=0
    for l in range(1, L+1):
        reduced_now = {}
        for w in itertools.product(range(n), repeat=l):
            nwords+=1
            ws = "".join(names[i] for i in w)
            # a word is reduced only if prefix reduced
            if w[:-1] in reduced_prev:
                red, cls = is_reduced(w, M)
            else:
                red, cls = False, None
            if red:
                reduced_now[w] = frozenset(cls)
            a_geo = geo.accepts(ws)
            a_slx = slx.accepts(ws)
            if a_geo != red:
                bad.append(("geo", ws, a_geo, red))
            exp_slx = red and min(cls) == w
            if a_slx != exp_slx:
                bad.append(("slx", ws, a_slx, exp_slx))
        reduced_prev = reduced_now
    return nwords, bad

mats = {
 "237": [[1,2,3],[2,1,7],[3,7,1]],
 "334": [[1,3,3],[3,1,4],[3,4,1]],
 "A3": [[1,3,2],[3,1,3],[2,3,1]],
 "B3": [[1,4,2],[4,1,3],[2,3,1]],
 "H3": [[1,5,2],[5,1,3],[2,3,1]],
 "affA2": [[1,3,3],[3,1,3],[3,3,1]],
 "inf": [[1,0,0],[0,1,0],[0,0,1]],
 "33inf": [[1,3,-1],[3,1,3],[-1,3,1]],
 "2,inf": [[1,2,0],[2,1,3],[0,3,1]],
 "I2(5)": [[1,5],[5,1]],
 "I2(inf)": [[1,0],[0,1]],
 "rank4 3334": [[1,3,2,2],[3,1,3,2],[2,3,1,4],[2,2,4,1]],
 "rank4 cyc": [[1,3,2,3],[3,1,3,2],[2,3,1,3],[3,2,3,1]],
 "rank4 red": [[1,3,2,2],[3,1,2,2],[2,2,1,0],[2,2,0,1]],
 "535": [[1,5,2,2],[5,1,3,2],[2,3,1,5],[2,2,5,1]],
 "666": [[1,6,6],[6,1,6],[6,6,1]],
 "777": [[1,7,7],[7,1,7],[7,7,1]],
 "2,2,2": [[1,2,2],[2,1,2],[2,2,1]],
}
for name, M in mats.items():
    t=time.time()
    L = 9 if len(M)==2 else (8 if len(M)==3 else 6)
    try:
        n, bad = check(M, L)
        print(name, "words", n, "bad", len(bad), bad[:4], "%.1fs"%(time.time()-t))
    except Exception as e:
        import traceback; traceback.print_exc()
        print(name, "EXC", type(e).__name__, e)
