#!/bin/sh
# Offline setup: nothing to build (pure Python, uses /venv/bin/python with the
# repository's own dependencies).  Verifies the interpreter and the harness import.
cd "$(dirname "$0")" || exit 1
mkdir -p evidence replays
exec /venv/bin/python -B -c "import sys; sys.path.insert(0,'.'); import gtmon.core as c; c.load_repo(); import numpy, scipy, matplotlib; print('gtmon ready: numpy', numpy.__version__, 'repo', c.REPO)"
