"""gtmon -- runtime monitors for tjweisman/geometry_tools (see /verif/DESIGN.md)."""
