"""Diagnostic 'sanitizers' for numerical Python (DESIGN.md section 1).  They
localise a defect; they never decide a property.

* FP-event log: np.seterr(all='call') with a callback that attributes every
  floating-point exception to the innermost geometry_tools frame.
* Warning log: ComplexWarning etc. raised from a library frame.
* Shared-default watch: mutable default arguments snapshotted at attach time.
"""
import os
import sys
import copy
import warnings
import inspect

from . import core

fp_events = {}
warn_events = {}
_defaults = []


def _lib_frame():
    pkg = os.path.join(core.REPO, "geometry_tools") + os.sep
    f = sys._getframe(2)
    n = 0
    while f is not None and n < 40:
        fn = f.f_code.co_filename
        if fn.startswith(pkg):
            return "%s.%s" % (os.path.splitext(os.path.basename(fn))[0],
                              f.f_code.co_name)
        f = f.f_back
        n += 1
    return None


def start_fp():
    import numpy as np

    def cb(kind, flag):
        where = _lib_frame()
        if where is not None:
            k = "%s@%s" % (kind, where)
            fp_events[k] = fp_events.get(k, 0) + 1
    np.seterrcall(cb)
    np.seterr(all="call")


def start_warnings():
    orig = warnings.showwarning

    def show(message, category, filename, lineno, file=None, line=None):
        pkg = os.path.join(core.REPO, "geometry_tools") + os.sep
        if str(filename).startswith(pkg):
            k = "%s@%s:%d" % (category.__name__, os.path.basename(filename), lineno)
            warn_events[k] = warn_events.get(k, 0) + 1
    warnings.showwarning = show
    warnings.simplefilter("always")


def watch_defaults(funcs):
    """Snapshot mutable default arguments of the given functions."""
    for f in funcs:
        f = getattr(f, "__gtmon_original__", f)
        try:
            sig = inspect.signature(f)
        except (TypeError, ValueError):
            continue
        for name, p in sig.parameters.items():
            if isinstance(p.default, (list, dict, set)):
                _defaults.append((f.__qualname__, name, p.default,
                                  copy.deepcopy(p.default)))


def changed_defaults():
    out = []
    for qual, name, live, snap in _defaults:
        if live != snap:
            out.append("%s(%s=%r) is now %r" % (qual, name, snap, live))
    return out
