"""Attaching monitors to the real functions of the imported repository, from
outside (no source edits).  DESIGN.md 2.2.

* ``wrap_attr(run, owner, name, hook)`` -- postcondition on a function or a
  method (owner = module or class).  The hook receives a ``Call``.
* ``wrap_everywhere(run, func, hook)`` -- same, and rebinds every name in
  every loaded ``geometry_tools.*`` module that *is* the original function
  (``from .core import *`` re-exports).
* ``attach_invariant(run, cls, invariant)`` -- class invariant evaluated when
  the *outermost* public call on any object returns.

Hooks never raise into the library: an exception inside a hook is a harness
error (exit 3), not a violation.
"""
import sys
import types
import inspect
import functools


class Call:
    __slots__ = ("name", "args", "kwargs", "result", "exc", "func", "_sig")

    def __init__(self, name, func, args, kwargs):
        self.name = name
        self.func = func
        self.args = args
        self.kwargs = kwargs
        self.result = None
        self.exc = None
        self._sig = None

    def bound(self):
        """dict argument-name -> value, defaults applied."""
        if self._sig is None:
            try:
                sig = _sig_cache.get(self.func)
                if sig is None:
                    sig = _sig_cache[self.func] = inspect.signature(self.func)
                ba = sig.bind(*self.args, **self.kwargs)
                ba.apply_defaults()
                self._sig = dict(ba.arguments)
            except Exception:
                self._sig = {}
        return self._sig


_counters = {}
_sig_cache = {}


def evaluations():
    return dict(_counters)


def _make_wrapper(run, func, label, hook, pre=None):
    @functools.wraps(func)
    def wrapper(*args, **kwargs):
        if run.suspended:
            return func(*args, **kwargs)
        call = Call(label, func, args, kwargs)
        state = None
        if pre is not None:
            try:
                with run.quiet():
                    state = pre(call)
            except Exception as e:      # monitor bug
                run.harness_error("pre-hook " + label, e)
        try:
            call.result = func(*args, **kwargs)
        except BaseException as e:
            call.exc = e
            _counters[label] = _counters.get(label, 0) + 1
            try:
                with run.quiet():
                    if pre is not None:
                        hook(call, state)
                    else:
                        hook(call)
            except Exception as he:
                run.harness_error("hook " + label, he)
            raise
        _counters[label] = _counters.get(label, 0) + 1
        try:
            with run.quiet():
                if pre is not None:
                    hook(call, state)
                else:
                    hook(call)
        except Exception as he:
            run.harness_error("hook " + label, he)
        return call.result
    wrapper.__gtmon_original__ = func
    return wrapper


def wrap_attr(run, owner, name, hook, pre=None, label=None, overrides=False):
    """Replace owner.name by a monitored wrapper (handles static/class
    methods).  Returns the original callable.  With overrides=True every
    subclass of `owner` that defines its own `name` is wrapped as well, so that
    a change which moves the behaviour into a subclass override (seeded changes
    C02-r2-2 / C12-r2-2: Hyperplane.reflection_across) stays under the contract."""
    if overrides and isinstance(owner, type):
        seen = set()
        stack = list(owner.__subclasses__())
        while stack:
            sub = stack.pop()
            if sub in seen:
                continue
            seen.add(sub)
            stack.extend(sub.__subclasses__())
            if name in sub.__dict__:
                wrap_attr(run, sub, name, hook, pre=pre, label=label)
    raw = owner.__dict__[name] if name in getattr(owner, "__dict__", {}) \
        else getattr(owner, name)
    label = label or "%s.%s" % (getattr(owner, "__name__", str(owner)).split(".")[-1], name)
    if isinstance(raw, staticmethod):
        new = staticmethod(_make_wrapper(run, raw.__func__, label, hook, pre))
    elif isinstance(raw, classmethod):
        new = classmethod(_make_wrapper(run, raw.__func__, label, hook, pre))
    else:
        new = _make_wrapper(run, raw, label, hook, pre)
    setattr(owner, name, new)
    return raw


def wrap_everywhere(run, func, hook, pre=None, label=None):
    """Wrap a module-level function and rebind every alias of it in all loaded
    geometry_tools modules."""
    label = label or "%s.%s" % (func.__module__.split(".")[-1], func.__name__)
    new = _make_wrapper(run, func, label, hook, pre)
    n = 0
    for modname, mod in list(sys.modules.items()):
        if mod is None or not modname.startswith("geometry_tools"):
            continue
        for k, v in list(vars(mod).items()):
            if v is func:
                setattr(mod, k, new)
                n += 1
    if n == 0:
        raise RuntimeError("wrap_everywhere: %s not found in any module" % label)
    return new


PUBLIC_DUNDERS = ("__init__", "__setitem__", "__getitem__", "__matmul__",
                  "__len__", "__iter__")


def attach_invariant(run, cls, invariant, extra_methods=(), skip=()):
    """Evaluate ``invariant(obj, method_name, result)`` whenever the outermost
    public method call on objects of `cls` (methods defined on `cls` itself)
    returns normally.  Depth is tracked globally (single-threaded code)."""
    state = attach_invariant.__dict__.setdefault("state", {"depth": 0})
    names = []
    for name, raw in list(cls.__dict__.items()):
        if name in skip:
            continue
        if name.startswith("_") and name not in PUBLIC_DUNDERS \
                and name not in extra_methods:
            continue
        if isinstance(raw, (staticmethod, classmethod, property)):
            continue
        if not isinstance(raw, types.FunctionType):
            continue
        names.append(name)

    def make(name, func):
        @functools.wraps(func)
        def wrapper(self, *args, **kwargs):
            if run.suspended:
                return func(self, *args, **kwargs)
            state["depth"] += 1
            try:
                res = func(self, *args, **kwargs)
            finally:
                state["depth"] -= 1
            if state["depth"] == 0:
                try:
                    with run.quiet():
                        invariant(self, name, res)
                except Exception as he:
                    run.harness_error("invariant %s.%s" % (cls.__name__, name), he)
            return res
        wrapper.__gtmon_original__ = func
        return wrapper

    for name in names:
        setattr(cls, name, make(name, cls.__dict__[name]))
    return names
