"""Input classes added to C04 in round 3 (numpy only; geometry_tools is
imported lazily inside the builders).

* memory layouts   -- the same logical array handed over in a different memory
                      layout (Fortran order, transposed view, permuted outer
                      axes, strided / reversed views).  The library keeps the
                      layout (``np.array`` copies with order='K'), so every
                      order-sensitive reshape inside it sees a non-C array.
* exact null units -- homogeneous vectors of Minkowski norm *exactly* 0 (ideal
                      points written with integer coordinates), exact origins,
                      exactly coincident pairs: units on which a vectorised
                      routine takes a special branch.
* generic objects  -- objects whose unit / auxiliary / dual rank is a setting of
                      the instance, not of the class.
"""
import numpy as np


# ---------------------------------------------------------------------------
# memory layouts

LAYOUTS = ("fortran", "transposed-view", "outer-permuted", "strided", "reversed", "unit-fortran")


def relayout(a, layout, unit=1):
    """an array equal to `a` (same shape, same values, same dtype) whose
    memory layout is the named one.  `unit` = number of trailing unit axes
    (only used by 'unit-fortran')."""
    a = np.ascontiguousarray(a)
    if layout == "c" or a.ndim < 2:
        return a.copy()
    if layout == "fortran":
        out = np.asfortranarray(a)
    elif layout == "transposed-view":
        # the way coordinates assembled from separate arrays arrive:
        # np.array([w, x, y]).T
        out = np.ascontiguousarray(a.T).T
    elif layout == "outer-permuted":
        # first two axes stored in swapped order (neither C nor F contiguous)
        out = np.ascontiguousarray(np.swapaxes(a, 0, 1)).swapaxes(0, 1)
    elif layout == "strided":
        big = np.zeros(a.shape[:-1] + (2 * a.shape[-1],), dtype=a.dtype)
        big[..., ::2] = a
        out = big[..., ::2]
    elif layout == "reversed":
        out = np.ascontiguousarray(a[::-1])[::-1]
    elif layout == "unit-fortran":
        # composite axes in C order, every unit stored column-major
        if unit < 2 or a.ndim < unit:
            out = np.asfortranarray(a)
        else:
            out = np.ascontiguousarray(np.swapaxes(a, -1, -2)).swapaxes(-1, -2)
    else:
        raise ValueError(layout)
    assert out.shape == a.shape and np.array_equal(out, a)
    return out


# ---------------------------------------------------------------------------
# exactly lightlike vectors

# (time, space...) with time^2 = sum space^2, small integers
_NULL_BASE = {
    1: [(1, 1)],
    2: [(1, 1), (5, 3, 4), (13, 5, 12), (17, 8, 15)],
    3: [(1, 1), (5, 3, 4), (3, 1, 2, 2), (7, 2, 3, 6), (9, 1, 4, 8)],
    4: [(1, 1), (5, 3, 4), (3, 1, 2, 2), (2, 1, 1, 1, 1), (5, 1, 2, 2, 4), (7, 2, 3, 6)],
}


def exact_null(rng, n):
    """a vector of R^(n,1) (time coordinate first) whose Minkowski norm is
    exactly 0 in floating point: a Pythagorean tuple, space coordinates
    permuted, signs flipped, scaled by a power of two."""
    base = _NULL_BASE[min(n, 4)]
    t = base[int(rng.integers(len(base)))]
    space = np.zeros(n)
    space[:len(t) - 1] = t[1:]
    space = rng.permutation(space) * rng.choice([-1.0, 1.0], size=n)
    v = np.concatenate([[float(t[0])], space])
    v = v * float(rng.choice([-1.0, 1.0])) * 2.0 ** int(rng.integers(-2, 3))
    assert float(-v[0] * v[0] + np.sum(v[1:] * v[1:])) == 0.0
    return v


def exact_origin(rng, n):
    v = np.zeros(n + 1)
    v[0] = float(rng.choice([-1.0, 1.0])) * 2.0 ** int(rng.integers(-2, 3))
    return v


def special_positions(rng, shape, kmax=2):
    """boolean mask over `shape` with 1..kmax True entries, at least one False
    (needs >= 2 units)."""
    total = int(np.prod(shape, dtype=int))
    k = int(rng.integers(1, min(kmax, total - 1) + 1))
    flat = np.zeros(total, dtype=bool)
    flat[rng.choice(total, size=k, replace=False)] = True
    return flat.reshape(shape)


# ---------------------------------------------------------------------------
# objects whose ranks are set per instance

# name -> (module letter, class name, accepts aux/dual data)
GENERIC_CLASSES = {
    "P.ProjectiveObject": ("P", "ProjectiveObject", True),
    "H.HyperbolicObject": ("H", "HyperbolicObject", True),
    "P.PointCollection": ("P", "PointCollection", False),
    "P.PointPair": ("P", "PointPair", False),
}


def generic_unit_shape(rng, rank, n):
    """per-unit array shape of the given rank over R^(n+1)."""
    if rank == 0:
        return ()
    lead = tuple(int(x) for x in rng.integers(2, 5, size=rank - 1))
    return lead + (n + 1,)


def build_generic(name, data, ranks):
    """library object of the generic class `name` from
    data = {"proj": .., "aux": .. or None, "dual": .. or None} and
    ranks = (unit, aux, dual)."""
    from geometry_tools import projective as P, hyperbolic as H
    mod, cname, full = GENERIC_CLASSES[name]
    cls = getattr(P if mod == "P" else H, cname)
    u, a, d = ranks
    proj = np.array(data["proj"], copy=True)
    if not full:
        return cls(proj, unit_ndims=u)
    aux = None if data.get("aux") is None else np.array(data["aux"], copy=True)
    dual = None if data.get("dual") is None else np.array(data["dual"], copy=True)
    return cls(proj, aux, dual, unit_ndims=u, aux_ndims=a, dual_ndims=d)
