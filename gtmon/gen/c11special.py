"""Exact special-position data for C11 (numpy only): segments, polygons and
tangent vectors whose coordinates are small dyadic rationals placed so that
intermediate quantities of the derived-data formulas are EXACTLY zero --
an endpoint / vertex / base point at the origin of the Klein model, an
axis-parallel segment ending on a coordinate hyperplane, (p - q).q == 0 or
(p - q).p == 0 exactly, antipodal endpoints, a chord through the origin,
endpoints on different coordinate axes, a vector that is already exactly
tangent, and the pre-image of the origin under a boost with dyadic entries
(cosh, sinh of k ln 2), which an `apply` then moves exactly onto the origin.
Random floating-point data never reaches these branch boundaries (seeded
change C11-r4-1: sign(b) == 0 in a 'stable' quadratic formula).

Classes 9..11 put EXACTLY null vectors (Minkowski norm 0.0 in floating point:
Pythagorean tuples (1,1,0), (5,3,4), (13,5,12), (3,1,2,2), ..., on random axes,
sign-flipped, times powers of two) into the primary data: ideal endpoints of
segments, ideal vertices of polygons, a null raw vector of a tangent vector.
Generic ideal points (norm ~1e-17) never reach a `norm == 0` branch (seeded
change C11-r5-1: normalize zeroes the rows of exactly zero norm).

raw dicts have the format of gen/projobjs.draw (composite shape + unit shape).
Homogeneous lifts are scaled by powers of two only, so that dividing by the
time coordinate is exact.
"""
import numpy as np

from ..ref import hyp as rh

DEN = 8
SEG_CLASSES = ["q-origin", "p-origin", "axis-parallel-onto-axis", "orthogonal-at-q",
               "orthogonal-at-p", "antipodal", "through-origin", "on-two-axes"]
POLY_CLASSES = ["vertex-origin", "edge-onto-axis", "antipodal-vertices", "on-two-axes",
                "orthogonal-at-vertex"]
TAN_CLASSES = ["base-origin", "already-tangent", "axis-vector", "time-vector"]
N_CLASSES = 12                     # 0..7 cycle through the lists above; 8 = boost pre-image;
#                                    9, 10, 11 = one / two / all exactly-null rows
NULL_CLASSES = (9, 10, 11)
NULL2 = [(1, 1, 0), (5, 3, 4), (13, 5, 12), (17, 8, 15), (25, 7, 24), (5, 4, 3), (13, 12, 5)]
NULL3 = [(3, 1, 2, 2), (7, 2, 3, 6), (9, 1, 4, 8), (9, 4, 4, 7), (11, 2, 6, 9), (3, 2, 2, 1)]


def null_vector(rng, n, flip=True):
    """homogeneous vector of Minkowski norm exactly 0.0: a Pythagorean tuple on
    random axes with random signs, times a power of two, time coordinate of
    either sign."""
    t = NULL3[int(rng.integers(0, len(NULL3)))] if n >= 3 and rng.random() < 0.5 \
        else NULL2[int(rng.integers(0, len(NULL2)))]
    v = np.zeros(n + 1)
    v[0] = t[0]
    axes = rng.choice(n, size=len(t) - 1, replace=False)
    for a, x in zip(axes, t[1:]):
        v[1 + int(a)] = x * float(rng.choice([-1.0, 1.0]))
    v *= 2.0 ** int(rng.integers(-2, 3))
    if flip and rng.random() < 0.5:
        v = -v
    assert rh.mink_sq(v) == 0.0
    return v


def distinct_null_vectors(rng, n, m):
    """m exactly-null vectors, cyclically consecutive ones projectively distinct."""
    while True:
        V = np.stack([null_vector(rng, n) for _ in range(m)])
        K = V[:, 1:] / V[:, :1]
        if m == 1 or np.min(np.linalg.norm(K - np.roll(K, -1, axis=0), axis=-1)) > 0.2:
            return V


def dyadic_point(rng, n, rmax=0.85, nonzero=True, top=5):
    """Klein coordinates, multiples of 1/8, inside the ball of radius rmax."""
    while True:
        k = rng.integers(-top, top + 1, size=n) / DEN
        if np.sum(k * k) < rmax * rmax and (np.any(k != 0) or not nonzero):
            return k


def nz(rng, top=5):
    """a non-zero multiple of 1/8."""
    return float(rng.choice([-1, 1]) * rng.integers(1, top + 1)) / DEN


def lift(k, rng):
    """homogeneous coordinates (1, k) times a power of two."""
    return np.concatenate([[1.0], k]) * 2.0 ** int(rng.integers(-2, 3))


def exact_boost(n, axis, k):
    """(n+1)x(n+1) boost by k ln 2 along coordinate `axis` (1-based): entries
    (2^k +- 2^-k)/2 are dyadic, all products with dyadic data exact."""
    c = (2.0 ** k + 2.0 ** -k) / 2
    s = (2.0 ** k - 2.0 ** -k) / 2
    B = np.eye(n + 1)
    B[0, 0] = B[axis, axis] = c
    B[0, axis] = B[axis, 0] = s
    return B, c, s


def boost_spec(rng, n):
    return {"axis": 1 + int(rng.integers(0, n)), "k": int(rng.choice([1, 2, -1, -2]))}


def preimage_of_origin(n, spec, rng):
    """the homogeneous vector that exact_boost(spec) sends to a multiple of
    (1, 0, ..., 0), spatial coordinates exactly zero."""
    _, c, s = exact_boost(n, spec["axis"], spec["k"])
    q = np.zeros(n + 1)
    q[0] = c
    q[spec["axis"]] = -s
    return q * 2.0 ** int(rng.integers(-1, 2))


def _axes(rng, n):
    i, j = rng.choice(n, size=2, replace=False)
    return int(i), int(j)


def _orthogonal_pair(rng, n):
    """(at, other) with (other - at).at == 0 exactly."""
    i, j = _axes(rng, n)
    a, b = nz(rng, 3), nz(rng, 3)
    t = float(rng.choice([-1.0, 1.0, -0.5, 0.5]))
    at = np.zeros(n)
    at[i], at[j] = a, b
    d = np.zeros(n)
    d[i], d[j] = -b * t, a * t
    return at, at + d


def segment_unit(rng, n, c, spec=None):
    """-> (P, Q) homogeneous endpoints of one special segment."""
    e = np.eye(n)
    if c == 8:
        return lift(dyadic_point(rng, n), rng), preimage_of_origin(n, spec, rng)
    if c == 9:
        return lift(dyadic_point(rng, n, nonzero=False), rng), null_vector(rng, n)
    if c == 10:
        return null_vector(rng, n), lift(dyadic_point(rng, n, nonzero=False), rng)
    if c == 11:
        V = distinct_null_vectors(rng, n, 2)
        return V[0], V[1]
    name = SEG_CLASSES[c % len(SEG_CLASSES)]
    if name == "q-origin":
        pk, qk = dyadic_point(rng, n), np.zeros(n)
    elif name == "p-origin":
        pk, qk = np.zeros(n), dyadic_point(rng, n)
    elif name == "axis-parallel-onto-axis":
        i, j = _axes(rng, n)
        qk = nz(rng) * e[j]
        pk = qk + nz(rng) * e[i]
    elif name == "orthogonal-at-q":
        qk, pk = _orthogonal_pair(rng, n)
    elif name == "orthogonal-at-p":
        pk, qk = _orthogonal_pair(rng, n)
    elif name == "antipodal":
        qk = dyadic_point(rng, n)
        pk = -qk
    elif name == "through-origin":
        qk = dyadic_point(rng, n)
        pk = qk * float(rng.choice([-0.5, 0.5, -0.25]))
    else:
        i, j = _axes(rng, n)
        pk, qk = nz(rng) * e[i], nz(rng) * e[j]
    return lift(pk, rng), lift(qk, rng)


def polygon_unit(rng, n, c, m, spec=None):
    """-> (m, n+1) homogeneous vertices, consecutive ones distinct."""
    e = np.eye(n)
    while True:
        K = np.stack([dyadic_point(rng, n) for _ in range(m)])
        j = int(rng.integers(0, m))
        j1 = (j + 1) % m
        V = None
        if c in NULL_CLASSES:
            V = np.stack([lift(k, rng) for k in K])
            cnt = {9: 1, 10: 2, 11: m}[c]
            Z = distinct_null_vectors(rng, n, cnt)
            for t in range(cnt):
                V[(j + t) % m] = Z[t]
            K = V[:, 1:] / V[:, :1]
        elif c == 8:
            V = np.stack([lift(k, rng) for k in K])
            V[j] = preimage_of_origin(n, spec, rng)
            K = V[:, 1:] / V[:, :1]
        else:
            name = POLY_CLASSES[c % len(POLY_CLASSES)]
            if name == "vertex-origin":
                K[j] = 0.0
            elif name == "edge-onto-axis":
                i = int(np.argmax(np.abs(K[j])))
                K[j1] = K[j]
                K[j1, i] = 0.0
            elif name == "antipodal-vertices":
                K[j1] = -K[j]
            elif name == "on-two-axes":
                a, b = _axes(rng, n)
                K[j], K[j1] = nz(rng) * e[a], nz(rng) * e[b]
            else:
                K[j1], K[j] = _orthogonal_pair(rng, n)
        if np.min(np.linalg.norm(K - np.roll(K, -1, axis=0), axis=-1)) < 1.0 / DEN:
            continue
        if V is None:
            V = np.stack([lift(k, rng) for k in K])
        return V


def tangent_unit(rng, n, c, spec=None):
    """-> (P, V): base point and raw vector of one special tangent vector
    (projected vector clearly non-zero)."""
    e = np.eye(n + 1)
    while True:
        if c in NULL_CLASSES:
            # the raw vector is exactly null (its tangential part is not)
            P = lift({9: dyadic_point(rng, n), 10: np.zeros(n),
                      11: nz(rng) * np.eye(n)[int(rng.integers(0, n))]}[c], rng)
            V = null_vector(rng, n)
        elif c == 8:
            P = preimage_of_origin(n, spec, rng)
            V = rng.integers(-4, 5, size=n + 1) / 4.0
        else:
            name = TAN_CLASSES[c % len(TAN_CLASSES)]
            i, j = _axes(rng, n)
            x = nz(rng)
            if name == "base-origin":
                P = lift(np.zeros(n), rng)
                V = rng.integers(-4, 5, size=n + 1) / 4.0
            elif name == "already-tangent":
                P = lift(x * np.eye(n)[i], rng)
                V = x * e[0] + e[1 + i] + float(rng.integers(-2, 3)) / 2 * e[1 + j]
            elif name == "axis-vector":
                P = lift(x * np.eye(n)[i], rng)
                V = e[1 + j] * float(rng.choice([-1.0, 1.0, 2.0]))
            else:
                P = lift(dyadic_point(rng, n), rng)
                V = e[0] * float(rng.choice([-1.0, 1.0]))
        w = rh.tangent_project(P, V)
        if rh.mink_sq(w) > 0.05:
            return P, V


def draw(rng, kind, n, shape, c, spec=None, nv=None):
    """raw inputs of a (composite) special-position object.  Units cycle
    through the classes starting at c (class 8 -- boost pre-image -- for all
    units alike, since one transformation must serve them all)."""
    shape = tuple(shape)
    units = list(np.ndindex(*shape))

    def cls(t):
        return c if c >= 8 else (c + t) % 8
    if kind == "H.Segment":
        P = np.zeros(shape + (n + 1,))
        Q = np.zeros(shape + (n + 1,))
        for t, ix in enumerate(units):
            P[ix], Q[ix] = segment_unit(rng, n, cls(t), spec)
        return {"P": P, "Q": Q}
    if kind == "H.Polygon":
        m = nv or int(rng.integers(3, 6))
        X = np.zeros(shape + (m, n + 1))
        for t, ix in enumerate(units):
            X[ix] = polygon_unit(rng, n, cls(t), m, spec)
        return {"X": X}
    if kind == "H.TangentVector":
        P = np.zeros(shape + (n + 1,))
        V = np.zeros(shape + (n + 1,))
        for t, ix in enumerate(units):
            P[ix], V[ix] = tangent_unit(rng, n, cls(t), spec)
        return {"P": P, "V": V}
    raise ValueError(kind)
