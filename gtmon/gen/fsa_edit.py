"""In-place *edit histories* of automata for the C06 workloads: a script of
documented FSA editing calls is planned on the set model (plain data) and then
applied to a library automaton.  (Workload-side code: it drives the library,
it is not an oracle.  The model side only uses ``ref.fsa_model.Model``.)

Every planned script keeps the automaton deterministic (a new label never
leaves a state that already has an edge with that label) and, unless
``keep_start=False``, keeps the start vertex, so that the automaton denoted by
(construction + script) is unambiguous.

An op is one of
  ("add_edges", [(tail, head, label), ...])            add_edges(edges)
  ("add_edges_elist", [(tail, head, [labels]), ...])   add_edges(edges, elist=True)
  ("add_vertices", [v, ...])
  ("delete_vertex", v) / ("delete_vertices", [v, ...])
  ("rename", {old: new})                               rename_generators(map, inplace=True)
  ("recurrent",)                                       recurrent(inplace=True)
"""

KINDS = ("parallel",          # a NEW label between an already connected ordered pair
                              # of states (parallel edge / second self-loop label)
         "parallel-elist",    # the same through the list-of-labels form
         "delete",            # delete_vertex / delete_vertices
         "new-pair",          # a new edge between two unconnected existing states
         "rename",            # in-place relabelling (injective)
         "new-vertex",        # an edge to / from a vertex that does not exist yet
         "recurrent",         # in-place pruning of dead ends
         "redundant")         # re-adding an existing edge / vertex (documented no-op)


def _pick(rng, seq):
    return seq[int(rng.integers(0, len(seq)))]


def _near(cands, dist, key):
    """the candidates whose tail is closest to the start vertex (so that short
    words see the edit); everything when nothing is reachable."""
    if not cands:
        return cands
    d = [dist.get(key(c), 10 ** 6) for c in cands]
    lo = min(d)
    return [c for c, x in zip(cands, d) if x <= lo + 1]


def _new_vertex(M):
    if all(isinstance(v, int) and not isinstance(v, bool) for v in M.vertices):
        return (max(M.vertices) + 1) if M.vertices else 0
    k = 0
    while "n%d" % k in M.vertices:
        k += 1
    return "n%d" % k


def plan_one(rng, M, start, universe, kind, keep_start=True):
    """-> op of the given kind on model M, or None when not applicable."""
    dist = M.bfs_dist(start) if start in M.vertices else {}
    verts = sorted(M.vertices, key=repr)
    pair_set = {(t, h) for (t, _l), h in M.delta.items()}
    pairs = sorted(pair_set, key=repr)
    free = {v: [l for l in universe if (v, l) not in M.delta] for v in verts}
    if kind in ("parallel", "parallel-elist"):
        cands = _near([p for p in pairs if free[p[0]]], dist, lambda p: p[0])
        if not cands:
            return None
        t, h = _pick(rng, cands)
        if kind == "parallel":
            return ("add_edges", [(t, h, _pick(rng, free[t]))])
        labs = [free[t][i] for i in rng.permutation(len(free[t]))[:2]]
        return ("add_edges_elist", [(t, h, labs)])
    if kind == "new-pair":
        cands = _near([(t, h) for t in verts for h in verts
                       if (t, h) not in pair_set and free[t]], dist, lambda p: p[0])
        if not cands:
            return None
        t, h = _pick(rng, cands)
        return ("add_edges", [(t, h, _pick(rng, free[t]))])
    if kind == "new-vertex":
        nv = _new_vertex(M)
        cands = _near([t for t in verts if free[t]], dist, lambda t: t)
        if not cands or not universe:
            return None
        t = _pick(rng, cands)
        # the new vertex is created by add_edges itself; it also gets an edge back
        return ("add_edges", [(t, nv, _pick(rng, free[t])), (nv, t, _pick(rng, list(universe)))])
    if kind == "delete":
        cands = [v for v in verts if not (keep_start and v == start)]
        cands = _near(cands, dist, lambda v: v)
        if not cands:
            return None
        v = _pick(rng, cands)
        rest = [w for w in verts if w != v and not (keep_start and w == start)]
        if rest and rng.random() < 0.5:
            return ("delete_vertices", [v, _pick(rng, rest)])
        return ("delete_vertex", v)
    if kind == "rename":
        labs = sorted({l for (_v, l) in M.delta})
        if not labs or len(universe) < 2:
            return None
        for _ in range(8):
            img = [universe[i] for i in rng.permutation(len(universe))[:len(labs)]]
            if len(img) == len(labs) and img != labs:
                return ("rename", dict(zip(labs, img)))
        return None
    if kind == "recurrent":
        R = M.recurrent()
        if R.vertices == M.vertices or (keep_start and start not in R.vertices):
            return None
        return ("recurrent",)
    if kind == "redundant":
        edges = M.edges()
        if not edges:
            return ("add_vertices", [_pick(rng, verts)]) if verts else None
        t, h, l = _pick(rng, edges)
        if rng.random() < 0.5:
            return ("add_edges", [(t, h, l)])
        return ("add_edges_elist", [(t, h, [l])])
    raise ValueError(kind)


def apply_model(M, op):
    """-> the model after `op` (a new object)."""
    M = M.copy()
    k = op[0]
    if k == "add_edges":
        for t, h, l in op[1]:
            M.add_edge(t, h, l)
    elif k == "add_edges_elist":
        for t, h, ls in op[1]:
            for l in ls:
                M.add_edge(t, h, l)
    elif k == "add_vertices":
        M.add_vertices(op[1])
    elif k == "delete_vertex":
        M.delete_vertex(op[1])
    elif k == "delete_vertices":
        for v in op[1]:
            M.delete_vertex(v)
    elif k == "rename":
        M.rename(op[1])
    elif k == "recurrent":
        starts = M.starts
        M = M.recurrent()
        M.starts = list(starts)
    else:
        raise ValueError(k)
    return M


def apply_lib(F, op):
    """apply `op` to the library automaton F in place."""
    k = op[0]
    if k == "add_edges":
        F.add_edges([tuple(e) for e in op[1]])
    elif k == "add_edges_elist":
        F.add_edges([(t, h, list(ls)) for t, h, ls in op[1]], elist=True)
    elif k == "add_vertices":
        F.add_vertices(list(op[1]))
    elif k == "delete_vertex":
        F.delete_vertex(op[1])
    elif k == "delete_vertices":
        F.delete_vertices(list(op[1]))
    elif k == "rename":
        F.rename_generators(dict(op[1]), inplace=True)
    elif k == "recurrent":
        F.recurrent(inplace=True)
    else:
        raise ValueError(k)


def plan(rng, M, start, universe, primary, extra=0, keep_start=True):
    """-> (ops, model after, kinds).  The first op is of kind `primary` when
    that is applicable to M (otherwise the next applicable kind in KINDS
    order); `extra` further ops of random kinds follow."""
    ops, kinds = [], []
    universe = list(universe)
    want = [primary] + [_pick(rng, KINDS) for _ in range(extra)]
    for kind in want:
        i0 = KINDS.index(kind)
        for j in range(len(KINDS)):
            kd = KINDS[(i0 + j) % len(KINDS)]
            op = plan_one(rng, M, start, universe, kd, keep_start)
            if op is not None:
                ops.append(op)
                kinds.append(kd)
                M = apply_model(M, op)
                break
    return ops, M, kinds


def describe(ops):
    return [[op[0]] + [repr(x) for x in op[1:]] for op in ops]
