"""Builders of *library* automata from a plain specification (label dict +
start vertex), through every construction route.  Shared by the C06 and C10
workloads.  (Workload-side code: it drives the library, it is not an oracle.)
"""
import copy

ROUTES = ("dict", "target", "incremental", "deepcopy", "renamed", "queried",
          "hidden")


def fsamod():
    from geometry_tools.automata import fsa
    return fsa


def build(route, d, start, rng=None):
    """-> library FSA with label dict `d` (all vertices are keys) and the
    single start vertex `start`, built through `route`."""
    fsa = fsamod()
    if route == "dict":
        return fsa.FSA(d, start_vertices=[start])
    if route == "hidden":
        # vertices without outgoing edges are left out of the dict ('hidden')
        targets = {w for nb in d.values() for w in nb.values()}
        dd = {v: nb for v, nb in d.items()
              if nb or v == start or v not in targets}
        return fsa.FSA(dd, start_vertices=[start])
    if route == "target":
        td = {}
        for v, nb in d.items():
            td[v] = {}
            for lab, w in nb.items():
                td[v].setdefault(w, []).append(lab)
        return fsa.FSA(td, start_vertices=[start], graph_dict=False)
    if route == "incremental":
        F = fsa.FSA(start_vertices=[start])
        F.add_vertices(list(d.keys()))
        edges = [(v, w, lab) for v, nb in d.items() for lab, w in nb.items()]
        if rng is not None and len(edges) > 1:
            edges = [edges[i] for i in rng.permutation(len(edges))]
        F.add_edges(edges)
        return F
    if route == "deepcopy":
        return copy.deepcopy(fsa.FSA(d, start_vertices=[start]))
    if route == "renamed":
        labels = sorted({lab for nb in d.values() for lab in nb})
        tmp = {lab: "tmp%d" % i for i, lab in enumerate(labels)}
        back = {t: lab for lab, t in tmp.items()}
        F = fsa.FSA({v: {tmp[lab]: w for lab, w in nb.items()}
                     for v, nb in d.items()}, start_vertices=[start])
        F.rename_generators(back, inplace=True)
        return F
    if route == "queried":
        # an automaton that has answered adjacency queries (also about
        # non-adjacent pairs) before it is used
        F = fsa.FSA(d, start_vertices=[start])
        vs = list(d.keys())
        pairs = [(v, w) for v in vs for w in vs]
        if rng is not None and len(pairs) > 6:
            pairs = [pairs[i] for i in rng.permutation(len(pairs))[:6]]
        for v, w in pairs:
            F.has_edge(v, w)
            F.edge_labels(v, w)
        return F
    raise ValueError(route)
