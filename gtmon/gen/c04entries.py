"""C04, round 4: the less common vectorised entry points, each under the
per-index law  op(composite)[i] == op(unit i).

An *entry* is a function ``entry(rng, n, shape, variant) -> Spec``.  A Spec
carries the raw numpy inputs (arrays whose leading axes are the composite
shape), a ``call(sel)`` that runs the library operation on the whole composite
(sel None) or on the unit cut out of the raw inputs at index ``sel``, the
comparison rule of every part of the result, and optionally an independent
by-hand check of one entry (numpy only) and an in-domain filter per unit.

geometry_tools is imported lazily (after core.load_repo()).
"""
import math
import numpy as np

from ..ref import hyp as rh
from ..ref import proj as rp
from . import projobjs as G


class Spec:
    def __init__(self, inputs, call, rules, hand=None, skip=None, out_shape=None, sig=(),
                 skip_part=None):
        self.inputs = inputs          # name -> ndarray (JSON-able witness)
        self.call = call              # sel -> {part: array}
        self.rules = rules            # part -> (rule, tol)
        self.hand = hand              # (index, {part: entry}) -> [(label, err, tol)]
        self.skip = skip              # index -> reason or None
        self.out_shape = out_shape    # expected composite shape (default: input shape)
        self.sig = sig                # input-class signature (evidence)
        self.skip_part = skip_part    # (index, part) -> reason or None


def _sl(a, sel):
    return np.array(a if sel is None else a[sel], copy=True)


def _H():
    from geometry_tools import hyperbolic
    return hyperbolic


def _P():
    from geometry_tools import projective
    return projective


# ---------------------------------------------------------------------------
# Transformation: eigenvector / diagonalize / inv / commute / apply(ndarray)

_SPECTRUM_POOL = (0.5, -1.0, 3.0, 5.0, -2.5, 0.25, 7.0)


def _with_spectrum(rng, dim, shape, ev, mult_of):
    """column-convention matrices C diag(lam) C^-1 whose spectrum contains
    `ev` with multiplicity mult_of[index] and otherwise distinct values far from
    `ev`; returns (matrices, spectra)."""
    M = np.empty(shape + (dim, dim))
    spec = np.empty(shape + (dim,))
    for i in np.ndindex(*shape):
        m = int(min(mult_of[i], dim))
        others = rng.permutation(_SPECTRUM_POOL)[:dim - m]
        lam = rng.permutation(np.concatenate([[ev] * m, others]))
        C = rp.rand_invertible(rng, dim, (), cond_max=20.0)
        M[i] = C @ np.diag(lam) @ np.linalg.inv(C)
        spec[i] = lam
    return M, spec


def eigenvector_given(rng, n, shape, variant):
    """Transformation.eigenvector(ev): every unit has the eigenvalue; in the
    'repeated' variant some units have it with multiplicity 2 (the operation
    then picks one vector of the eigenspace: the same one for the unit alone
    and inside the composite)."""
    P = _P()
    dim = n + 1
    ev = 2.0
    mult = np.ones(shape, dtype=int)
    if variant % 2 == 1 and dim >= 2:
        mult = rng.integers(1, 3, size=shape)
        if mult.size and not np.any(mult == 2):
            mult[tuple(int(rng.integers(s)) for s in shape)] = 2
    M, spec = _with_spectrum(rng, dim, shape, ev, mult)

    def call(sel):
        T = P.Transformation(_sl(M, sel), column_vectors=True)
        return {"point": T.eigenvector(ev).proj_data}

    def hand(i, parts):
        v = np.asarray(parts["point"])
        if v.shape != (dim,):
            return [("eigen-equation", np.inf, 1e-7)]
        res = np.linalg.norm(M[i] @ v - ev * v) / max(np.linalg.norm(M[i], 2) * np.linalg.norm(v), 1e-300)
        return [("eigen-equation", float(res) if np.linalg.norm(v) > 0 else np.inf, 1e-7)]

    return Spec({"matrices(column)": M, "eigenvalue": np.array(ev), "spectra": spec}, call,
                {"point": ("rows", 1e-8)}, hand=hand,
                sig=("repeated" if np.any(mult == 2) else "simple",))


def eigenvector_any(rng, n, shape, variant):
    """Transformation.eigenvector(): an arbitrary eigenvector per unit."""
    P = _P()
    dim = n + 1
    if variant % 2:
        M = rp.rand_invertible(rng, dim, shape, cond_max=20.0)      # complex spectra
    else:
        M, _ = _with_spectrum(rng, dim, shape, 2.0, np.ones(shape, dtype=int))

    def call(sel):
        return {"point": P.Transformation(_sl(M, sel), column_vectors=True).eigenvector().proj_data}

    def hand(i, parts):
        v = np.asarray(parts["point"]).astype(complex)
        w = M[i] @ v
        return [("is-eigenvector", float(np.max(rp.row_dev(w, v))), 1e-7)]

    return Spec({"matrices(column)": M}, call, {"point": ("rows", 1e-8)}, hand=hand,
                sig=("generic" if variant % 2 else "real-spectrum",))


def diagonalize(rng, n, shape, variant):
    """Transformation.diagonalize(return_inv=True)."""
    P = _P()
    dim = n + 1
    M, _ = _with_spectrum(rng, dim, shape, 2.0, np.ones(shape, dtype=int))

    def call(sel):
        T = P.Transformation(_sl(M, sel), column_vectors=True)
        if variant % 2:
            return {"frame": T.diagonalize().proj_data}
        C, Ci = T.diagonalize(return_inv=True)
        return {"frame": C.proj_data, "inverse": Ci.proj_data}

    def hand(i, parts):
        # rows of the frame's row matrix are eigenvectors: r M^T ~ r
        R = np.asarray(parts["frame"])
        if R.shape != (dim, dim):
            return [("frame-rows-eigen", np.inf, 1e-7)]
        return [("frame-rows-eigen", float(np.max(rp.row_dev(R @ M[i].T, R))), 1e-7)]

    rules = {"frame": ("rows", 1e-8)}
    if variant % 2 == 0:
        rules["inverse"] = ("mat", 1e-7)
    return Spec({"matrices(column)": M}, call, rules, hand=hand)


def inverse(rng, n, shape, variant):
    """Transformation.inv() / Isometry.inv()."""
    hyp = bool(variant % 2)
    kind = "H.Isometry" if hyp else "P.Transformation"
    raw = G.draw(rng, kind, n, shape)
    M = G.row_matrix(kind, raw)

    def call(sel):
        return {"matrix": G.build(kind, {"M": _sl(raw["M"], sel)}).inv().proj_data}

    def hand(i, parts):
        return [("is-inverse", rp.max_mat_dev(np.asarray(parts["matrix"]) @ M[i], np.eye(n + 1)), 1e-8)]

    return Spec({"M": raw["M"]}, call, {"matrix": ("mat", 1e-9)}, hand=hand, sig=(kind,))


COMMUTE_CLASSES = ("commuting", "miss-1e-6", "miss-1e-4", "generic", "large-shear", "within-1e-11")


def _commute_pair(rng, dim, cls):
    """(A, B, relation) column matrices.  relation: True (commute to ~1e-15),
    False (miss by far more than any tolerance in use), or the size of the miss."""
    C = rp.rand_invertible(rng, dim, (), cond_max=8.0)
    Ci = np.linalg.inv(C)
    la = rng.uniform(0.6, 1.8, size=dim) * rng.choice([-1.0, 1.0], size=dim)
    lb = rng.uniform(0.6, 1.8, size=dim) * rng.choice([-1.0, 1.0], size=dim)
    A = C @ np.diag(la) @ Ci
    B = C @ np.diag(lb) @ Ci
    if cls == "commuting":
        return A, B
    if cls in ("miss-1e-6", "miss-1e-4", "within-1e-11"):
        eps = {"miss-1e-6": 1e-6, "miss-1e-4": 1e-4, "within-1e-11": 1e-11}[cls]
        E = rng.normal(size=(dim, dim))
        return A, B + eps * E / np.linalg.norm(E, 2)
    if cls == "generic":
        return rp.rand_invertible(rng, dim, (), cond_max=8.0), rp.rand_invertible(rng, dim, (), cond_max=8.0)
    # a big shear against a diagonal map: commutator entries >> 1
    S = np.eye(dim)
    S[0, dim - 1] = float(rng.uniform(3e2, 3e3))
    D = np.diag(np.concatenate([[2.0], np.ones(dim - 2), [0.5]])) if dim >= 2 else np.eye(dim)
    return S, D


def _commute_verdict(A, B, tol):
    """True / False when the pair commutes / fails to commute by a clear margin
    for every way of forming the commutator and for the library's closeness
    test (absolute tol plus NumPy's default relative 1e-5 of the identity's
    entries); None when the answer depends on rounding."""
    I = np.eye(A.shape[-1])
    off = ~np.eye(A.shape[-1], dtype=bool)
    Ai, Bi = np.linalg.inv(A), np.linalg.inv(B)
    yes, no = True, True
    for K in (A @ B @ Ai @ Bi, B @ A @ Bi @ Ai, Ai @ Bi @ A @ B, Bi @ Ai @ B @ A):
        d = np.abs(K - I)
        d_off = float(np.max(d[off])) if off.any() else 0.0
        d_diag = float(np.max(d[~off]))
        yes = yes and max(d_off, d_diag) < tol / 100
        no = no and (d_off > 100 * tol or d_diag > 100 * (tol + 1e-5))
    return True if yes else (False if no else None)


def commute(rng, n, shape, variant):
    """Transformation.commute(other) elementwise on composites that mix exactly
    commuting pairs, pairs that miss commuting by 1e-6 / 1e-4, generic pairs and
    pairs whose commutator has entries >> 1.  The answer at an index is a
    statement about that pair alone."""
    P = _P()
    dim = n + 1
    tol = 1e-8
    A = np.empty(shape + (dim, dim))
    B = np.empty(shape + (dim, dim))
    cls = np.empty(shape, dtype=object)
    order = rng.permutation(len(COMMUTE_CLASSES))
    for k, i in enumerate(np.ndindex(*shape)):
        c = COMMUTE_CLASSES[order[(k + variant) % len(COMMUTE_CLASSES)]]
        if dim < 2 and c == "large-shear":
            c = "generic"
        A[i], B[i] = _commute_pair(rng, dim, c)
        cls[i] = c

    def call(sel):
        TA = P.Transformation(_sl(A, sel), column_vectors=True)
        TB = P.Transformation(_sl(B, sel), column_vectors=True)
        return {"commute": np.asarray(TA.commute(TB, tol=tol))}

    def skip(i):
        if _commute_verdict(A[i], B[i], tol) is None:
            return "pair near the commuting tolerance (answer is rounding dependent)"
        return None

    def hand(i, parts):
        want = _commute_verdict(A[i], B[i], tol)
        got = bool(np.asarray(parts["commute"]))
        return [("answer", 0.0 if got == want else 1.0, 0.5)]

    return Spec({"A(column)": A, "B(column)": B, "pair_classes": np.array(cls.tolist(), dtype=str)},
                call, {"commute": ("exact", 0)}, hand=hand, skip=skip,
                sig=tuple(sorted(set(cls.reshape(-1).tolist()))))


def apply_to_array(rng, n, shape, variant):
    """Transformation.apply(ndarray): raw arrays of vectors."""
    hyp = bool(variant % 2)
    kind = "H.Isometry" if hyp else "P.Transformation"
    raw = G.draw(rng, kind, n, shape)
    M = G.row_matrix(kind, raw)
    X = rng.normal(size=shape + (n + 1,))

    def call(sel):
        T = G.build(kind, {"M": _sl(raw["M"], sel)})
        return {"data": T.apply(_sl(X, sel)).proj_data}

    def hand(i, parts):
        return [("x@M", rp.rel_dev(np.asarray(parts["data"]), X[i] @ M[i]), 1e-10)]

    return Spec({"M": raw["M"], "X": X}, call, {"data": ("num", 1e-10)}, hand=hand, sig=(kind,))


# ---------------------------------------------------------------------------
# constructors that take array-valued parameters / a composite shape

def regular_polygon(rng, n, shape, variant):
    """Polygon.regular_polygon(m, radius=array) / (m, angle=array): one m-gon
    per parameter."""
    H = _H()
    m = int(3 + variant % 5)
    by_angle = (variant // 5) % 2 == 1
    if by_angle:
        # interior angle of a regular m-gon lies in (0, (m-2) pi / m)
        par = rng.uniform(0.15, 0.85, size=shape) * (m - 2) * math.pi / m
    else:
        par = rng.uniform(0.2, 2.0, size=shape)
    dim = 2 if n < 2 else n

    def call(sel):
        p = _sl(par, sel)
        p = float(p) if p.shape == () else p
        poly = H.Polygon.regular_polygon(m, angle=p, dimension=dim) if by_angle else \
            H.Polygon.regular_polygon(m, radius=p, dimension=dim)
        return {"vertices": poly.proj_data, "edges": poly.aux_data}

    def hand(i, parts):
        V = np.asarray(parts["vertices"], dtype=float)
        if V.shape != (m, dim + 1):
            return [("m-gon", np.inf, 1e-7)]
        o = np.zeros(dim + 1)
        o[0] = 1.0
        with np.errstate(all="ignore"):
            d = np.asarray(rh.dist_proj(V, np.broadcast_to(o, V.shape)))
            side = np.asarray(rh.dist_proj(V, np.roll(V, -1, axis=0)))
        out = [("equal-circumradius", float(np.max(np.abs(d - d[0]))), 1e-7),
               ("equal-sides", float(np.max(np.abs(side - side[0]))), 1e-7)]
        if not by_angle:
            out.append(("circumradius", float(np.max(np.abs(d - par[i]))), 1e-7))
        return out

    return Spec({"parameter": par, "sides": np.array(m), "by": np.array("angle" if by_angle else "radius")},
                call, {"vertices": ("rows", 1e-8), "edges": ("rows", 1e-8)}, hand=hand,
                sig=(m, "angle" if by_angle else "radius", dim))


def shaped_factories(rng, n, shape, variant):
    """Point.get_origin(dim, shape) / TangentVector.get_base_tangent(dim, shape):
    a composite of the requested shape whose every unit is the shape-() result."""
    H = _H()
    which = variant % 2
    dim = max(n, 2) if which else n

    def call(sel):
        s = shape if sel is None else ()
        if which:
            t = H.TangentVector.get_base_tangent(dim, s)
            return {"primary": t.proj_data, "aux": t.aux_data}
        return {"primary": H.Point.get_origin(dim, s).proj_data}

    rules = {"primary": ("tangent" if which else "rows", 1e-9)}
    if which:
        rules["aux"] = ("tangent-raw", 1e-9)
    return Spec({"shape": np.array(shape, dtype=int)}, call, rules,
                sig=("base_tangent" if which else "origin",))


def ideal_from_angle(rng, n, shape, variant):
    H = _H()
    th = rng.uniform(-2 * math.pi, 2 * math.pi, size=shape)

    def call(sel):
        t = _sl(th, sel)
        return {"point": H.IdealPoint.from_angle(float(t) if t.shape == () else t).proj_data}

    def hand(i, parts):
        want = np.array([1.0, math.cos(th[i]), math.sin(th[i])])
        return [("on-circle", rp.max_row_dev(np.asarray(parts["point"]), want), 1e-9)]

    return Spec({"theta": th}, call, {"point": ("rows", 1e-9)}, hand=hand)


def scalar_formulas(rng, n, shape, variant):
    """regular_polygon_radius / polygon_interior_angle / hyp_to_affine_dist on
    arrays."""
    H = _H()
    m = 3 + variant % 5
    ang = rng.uniform(0.15, 0.85, size=shape) * (m - 2) * math.pi / m
    r = rng.uniform(0.2, 2.5, size=shape)

    def call(sel):
        a, rr = _sl(ang, sel), _sl(r, sel)
        return {"radius": np.asarray(H.regular_polygon_radius(m, a)),
                "angle": np.asarray(H.polygon_interior_angle(m, rr)),
                "affine": np.asarray(H.hyp_to_affine_dist(rr))}

    return Spec({"angle": ang, "radius": r, "sides": np.array(m)}, call,
                {"radius": ("num", 1e-10), "angle": ("num", 1e-10), "affine": ("num", 1e-10)})


# ---------------------------------------------------------------------------
# queries of composite hyperbolic / projective objects

def _object_queries(kind, queries, min_dim=1, dim2=False):
    """entry over a standard object kind: queries = [(part, f(obj) -> array,
    (rule, tol))]."""
    def entry(rng, n, shape, variant):
        nn = 2 if dim2 else max(n, min_dim, G.KINDS[kind][0])
        for _ in range(50):
            raw = G.draw(rng, kind, nn, shape)
            pts = np.concatenate([np.reshape(v, (-1, nn + 1)) for v in raw.values()])
            with np.errstate(all="ignore"):
                k = rh.proj_to_klein(pts)
            if rh.away_from_infinity(k, 0.15):
                break
        qs = [q for q in queries if len(q) < 4 or q[3](nn)]

        def call(sel):
            X = G.build(kind, {k: _sl(v, sel) for k, v in raw.items()})
            return {part: np.asarray(f(X)) for part, f, *_ in qs}

        return Spec(raw, call, {q[0]: q[2] for q in qs}, sig=(kind, nn))
    entry.__name__ = "queries:" + kind
    entry.__doc__ = "vectorised queries of %s: %s" % (kind, ", ".join(q[0] for q in queries))
    return entry


def _pair(t):
    return np.stack([np.asarray(t[0]), np.asarray(t[1])], axis=-2)


def _sphere(t):
    c, r = t
    c, r = np.asarray(c), np.asarray(r)
    if r.shape != c.shape[:-1]:
        # radii that do not have one entry per centre: hand the radii over as
        # they are, the driver's shape check reports them
        return r
    return np.concatenate([c, r[..., None]], axis=-1)


def _bsp(k):
    return lambda X: np.asarray(X.boundary_sphere_parameters()[k])


subspace_queries = _object_queries("H.Subspace", [
    ("ideal_basis_coords(klein)", lambda X: X.ideal_basis_coords("klein"), ("num", 1e-9)),
    ("ideal_basis_coords(poincare)", lambda X: X.ideal_basis_coords("poincare"), ("num", 1e-9)),
    ("sphere_parameters(poincare)", lambda X: _sphere(X.sphere_parameters("poincare")), ("num", 1e-7)),
    ("sphere_parameters(halfspace)", lambda X: _sphere(X.sphere_parameters("halfspace")), ("num", 1e-7)),
    ("reflection_across", lambda X: X.reflection_across().proj_data, ("mat", 1e-7), lambda n: n == 2),
    ("spacelike_complement", lambda X: X.spacelike_complement().proj_data, ("rows", 1e-7), lambda n: n == 2),
    ("boundary_sphere_parameters.centre", _bsp(0), ("num", 1e-7), lambda n: n == 2),
    ("boundary_sphere_parameters.radius", _bsp(1), ("num", 1e-7), lambda n: n == 2),
], min_dim=2)

hyperplane_queries = _object_queries("H.Hyperplane", [
    ("spacelike_vector", lambda X: X.spacelike_vector, ("rows", 1e-9)),
    ("reflection_across", lambda X: X.reflection_across().proj_data, ("mat", 1e-7)),
    ("spacelike_complement", lambda X: X.spacelike_complement().proj_data, ("rows", 1e-7)),
    ("sphere_parameters(poincare)", lambda X: _sphere(X.sphere_parameters("poincare")), ("num", 1e-7)),
    ("boundary_sphere_parameters.centre", _bsp(0), ("num", 1e-6)),
    ("boundary_sphere_parameters.radius", _bsp(1), ("num", 1e-6)),
], min_dim=2)

pointpair_queries = _object_queries("H.PointPair", [
    ("endpoint_coords(klein)", lambda X: X.endpoint_coords("klein"), ("num", 1e-9)),
    ("endpoint_coords(poincare)", lambda X: X.endpoint_coords("poincare"), ("num", 1e-9)),
    ("endpoint_coords(halfspace)", lambda X: X.endpoint_coords("halfspace"), ("num", 1e-8)),
    ("get_endpoints", lambda X: X.get_endpoints().proj_data, ("rows", 1e-9)),
    ("get_end_pair", lambda X: _pair(X.get_end_pair()), ("rows", 1e-9)),
    ("get_end_pair(as_points)", lambda X: _pair([p.proj_data for p in X.get_end_pair(as_points=True)]),
     ("rows", 1e-9)),
])

segment_queries = _object_queries("H.Segment", [
    ("ideal_endpoint_coords(klein)", lambda X: X.ideal_endpoint_coords("klein"), ("num", 1e-8)),
    ("ideal_endpoint_coords(poincare)", lambda X: X.ideal_endpoint_coords("poincare"), ("num", 1e-8)),
    ("endpoint_coords(poincare)", lambda X: X.endpoint_coords("poincare"), ("num", 1e-9)),
    ("geodesic", lambda X: X.geodesic().proj_data, ("rows", 1e-8)),
    ("get_endpoints", lambda X: X.get_endpoints().proj_data, ("rows", 1e-9)),
])

polygon_queries = _object_queries("H.Polygon", [
    ("get_vertices", lambda X: X.get_vertices().proj_data, ("rows", 1e-9)),
    ("get_edges", lambda X: X.get_edges().proj_data, ("rows", 1e-9)),
    ("get_edges.aux", lambda X: X.get_edges().aux_data, ("rows", 1e-8)),
], min_dim=2)

horosphere_queries = _object_queries("H.Horosphere", [
    ("center_coords(klein)", lambda X: X.center_coords("klein"), ("num", 1e-9)),
    ("center_coords(poincare)", lambda X: X.center_coords("poincare"), ("num", 1e-9)),
    ("ref_coords(klein)", lambda X: X.ref_coords("klein"), ("num", 1e-9)),
    ("ref_coords(poincare)", lambda X: X.ref_coords("poincare"), ("num", 1e-9)),
], min_dim=2)

geodesic_queries = _object_queries("H.Geodesic", [
    ("endpoint_coords(klein)", lambda X: X.endpoint_coords("klein"), ("num", 1e-9)),
    ("ideal_basis_coords(poincare)", lambda X: X.ideal_basis_coords("poincare"), ("num", 1e-9)),
    ("reflection_across", lambda X: X.reflection_across().proj_data, ("mat", 1e-7), lambda n: n == 2),
    ("sphere_parameters(poincare)", lambda X: _sphere(X.sphere_parameters("poincare")), ("num", 1e-7)),
    ("boundary_sphere_parameters.centre", _bsp(0), ("num", 1e-7), lambda n: n == 2),
    ("boundary_sphere_parameters.radius", _bsp(1), ("num", 1e-7), lambda n: n == 2),
], min_dim=2)

tangent_queries = _object_queries("H.TangentVector", [
    ("point", lambda X: X.point, ("rows", 1e-9)),
    ("normalized", lambda X: X.normalized().proj_data, ("tangent", 1e-8)),
    ("normalized.aux", lambda X: X.normalized().aux_data, ("tangent-raw", 1e-8)),
], min_dim=2)


def projective_queries(rng, n, shape, variant):
    """projective Point.affine_coords(chart) / in_affine_chart /
    PointPair.endpoint_affine_coords / Simplex.skeleton, faces, edges."""
    P = _P()
    chart = int(variant % (n + 1))
    X = rng.normal(size=shape + (n + 1,))
    X[..., chart] = np.where(np.abs(X[..., chart]) < 0.2, 0.5, X[..., chart])
    PP = rng.normal(size=shape + (2, n + 1))
    PP[..., chart] = np.where(np.abs(PP[..., chart]) < 0.2, 0.5, PP[..., chart])
    S = rng.normal(size=shape + (min(3, n + 1), n + 1))

    def call(sel):
        out = {"affine_coords": P.Point(_sl(X, sel)).affine_coords(chart_index=chart),
               "in_affine_chart": np.asarray(P.Point(_sl(X, sel)).in_affine_chart(chart)),
               "endpoint_affine_coords": P.PointPair(_sl(PP, sel)).endpoint_affine_coords(chart),
               "module.affine_coords": P.affine_coords(_sl(X, sel), chart_index=chart)}
        if n >= 2:
            sx = P.Simplex(_sl(S, sel))
            out["Simplex.edges"] = sx.edges().proj_data
            out["Simplex.faces"] = sx.faces().proj_data
            out["Simplex.skeleton(1)"] = sx.skeleton(1).proj_data
        return {k: np.asarray(v) for k, v in out.items()}

    def hand(i, parts):
        want = np.delete(X[i], chart) / X[i][chart]
        return [("affine-chart", rp.rel_dev(np.asarray(parts["affine_coords"]), want), 1e-10)]

    rules = {"affine_coords": ("num", 1e-10), "in_affine_chart": ("exact", 0),
             "endpoint_affine_coords": ("num", 1e-10), "module.affine_coords": ("num", 1e-10)}
    if n >= 2:
        rules.update({"Simplex.edges": ("rows", 1e-9), "Simplex.faces": ("rows", 1e-9),
                      "Simplex.skeleton(1)": ("rows", 1e-9)})
    return Spec({"X": X, "pairs": PP, "simplices": S, "chart": np.array(chart)}, call, rules, hand=hand,
                sig=(chart,))


def causal_classifiers(rng, n, shape, variant):
    """hyperbolic.timelike / lightlike on arrays of vectors (clear margins;
    exactly lightlike units)."""
    H = _H()
    from . import c04extra as GX
    V = np.empty(shape + (n + 1,))
    for k, i in enumerate(np.ndindex(*shape)):
        c = (k + variant) % 3
        if c == 0:
            V[i] = G.interior(rng, n, (), rmax=0.8)
        elif c == 1:
            V[i] = G.exterior(rng, n, ())
        else:
            V[i] = GX.exact_null(rng, n)

    def call(sel):
        v = _sl(V, sel)
        # hyperbolic.spacelike is not judged: on the pinned tree it reduces its
        # answer with .all() to one scalar although documented per vector
        # (findings/C04-spacelike-classifier-reduces-to-scalar.json); a helper on
        # raw arrays, outside the composite-object operations the property lists
        return {"timelike": np.asarray(H.timelike(v)), "lightlike": np.asarray(H.lightlike(v))}

    return Spec({"V": V}, call, {"timelike": ("exact", 0), "lightlike": ("exact", 0)})


def commute_pairwise(rng, n, shape, variant):
    """Transformation.commute(other, broadcast="pairwise"): entry [i][j] is the
    answer for (self_i, other_j).  PENDING: on the pinned tree this raises
    ValueError whenever the two composite shapes differ
    (findings/C04-commute-pairwise-axis-order.json)."""
    P = _P()
    dim = n + 1
    tol = 1e-8
    s1 = shape
    s2 = [(2,), (), (3,), (2, 2)][variant % 4]
    C = rp.rand_invertible(rng, dim, (), cond_max=8.0)
    Ci = np.linalg.inv(C)
    A = np.empty(s1 + (dim, dim))
    B = np.empty(s2 + (dim, dim))
    for i in np.ndindex(*s1):
        A[i] = C @ np.diag(rng.uniform(0.6, 1.8, size=dim)) @ Ci
    for k, j in enumerate(np.ndindex(*s2)):
        B[j] = C @ np.diag(rng.uniform(0.6, 1.8, size=dim)) @ Ci if k % 2 == 0 else \
            rp.rand_invertible(rng, dim, (), cond_max=8.0)

    def call(sel):
        if sel is None:
            a, b, mode = A.copy(), B.copy(), "pairwise"
        else:
            a, b, mode = A[sel[:len(s1)]].copy(), B[sel[len(s1):]].copy(), "elementwise"
        return {"commute": np.asarray(P.Transformation(a, column_vectors=True).commute(
            P.Transformation(b, column_vectors=True), broadcast=mode, tol=tol))}

    def skip(i):
        if _commute_verdict(A[i[:len(s1)]], B[i[len(s1):]], tol) is None:
            return "pair near the commuting tolerance (answer is rounding dependent)"
        return None

    def hand(i, parts):
        want = _commute_verdict(A[i[:len(s1)]], B[i[len(s1):]], tol)
        return [("answer", 0.0 if bool(np.asarray(parts["commute"])) == want else 1.0, 0.5)]

    return Spec({"A(column)": A, "B(column)": B}, call, {"commute": ("exact", 0)}, hand=hand,
                skip=skip, out_shape=s1 + s2, sig=(len(s1), len(s2)))


def boundary_arc(rng, n, shape, variant):
    """BoundaryArc built from composite ideal endpoints; endpoint_coords,
    circle_parameters, orientation.  PENDING: on the pinned tree the
    constructor raises ValueError for every composite
    (findings/C04-boundaryarc-composite-construction.json)."""
    H = _H()
    raw = G.draw(rng, "H.Geodesic", 2, shape)
    degrees = bool(variant % 2)

    def call(sel):
        X = H.BoundaryArc(H.IdealPoint(_sl(raw["P"], sel)), H.IdealPoint(_sl(raw["Q"], sel)))
        c, r, th = X.circle_parameters(degrees=degrees)
        return {"primary": X.proj_data, "endpoint_coords(klein)": X.endpoint_coords("klein"),
                "orientation": np.sign(np.asarray(X.orientation())),
                "centre": np.asarray(c), "radius": np.asarray(r), "angles": np.asarray(th)}

    return Spec(raw, call, {"primary": ("rows", 1e-9), "endpoint_coords(klein)": ("num", 1e-9),
                            "orientation": ("exact", 0), "centre": ("num", 1e-9),
                            "radius": ("num", 1e-9), "angles": ("num", 1e-9)})


# ---------------------------------------------------------------------------
# one special member among ordinary ones, for classes whose constructor or
# queries have a per-unit degenerate-case branch

# A fallback that is meant for the degenerate unit only (another orientation
# point for a half circle, a straight line instead of a circle for a diameter,
# the other nappe's representative) is a per-unit decision.  Written as
# ``if np.any(degenerate): everything = fallback`` it is invisible on single
# objects and on composites of generic members.  (seeded change C04-r6-1:
# BoundaryArc._build_orientation_point switched EVERY arc of a composite to the
# fallback orientation point as soon as one arc was an exact half circle.)

def _dyadic(rng, lo, hi):
    """a float in [lo, hi) with few mantissa bits (sums and products of such
    numbers are exact)."""
    return float(np.round(rng.uniform(lo, hi) * 64) / 64)


ARC_MEMBERS = ("generic", "antipodal-exact", "mirror-y", "generic", "mirror-x", "antipodal-axis")


def _arc_member(rng, cls):
    """two ideal points of the hyperbolic plane (homogeneous, exact where the
    class says so)."""
    from . import c04extra as GX
    if cls == "antipodal-exact":
        v = GX.exact_null(rng, 2)
        w = v * np.array([1.0, -1.0, -1.0]) * 2.0 ** int(rng.integers(-1, 2))
        return v, w
    if cls == "antipodal-axis":
        v = np.array([1.0, 0.0, float(rng.choice([-1.0, 1.0]))])
        if rng.random() < 0.3:
            v = np.array([1.0, float(rng.choice([-1.0, 1.0])), 0.0])
        return v, v * np.array([1.0, -1.0, -1.0])
    t = float(rng.uniform(0.15, 1.4)) * float(rng.choice([-1.0, 1.0]))
    v = np.array([1.0, math.cos(t), math.sin(t)])
    if cls == "mirror-y":          # angles t and pi - t: equal y
        return v, v * np.array([1.0, -1.0, 1.0])
    if cls == "mirror-x":          # angles t and -t: equal x
        return v, v * np.array([1.0, 1.0, -1.0])
    P, Q = G.separated_pair(rng, 2, (), G.ideal, min_sep=0.3)
    return P, Q


def boundary_arc_special(rng, n, shape, variant):
    """composite BoundaryArcs that mix generic arcs with exact half circles and
    arcs symmetric about a coordinate axis: data, orientation, ordered endpoint
    coordinates, circle parameters, the same after flip_orientation and after an
    orientation-reversing isometry."""
    H = _H()
    P = np.empty(shape + (3,))
    Q = np.empty(shape + (3,))
    cls = np.empty(shape, dtype=object)
    for k, i in enumerate(np.ndindex(*shape)):
        cls[i] = ARC_MEMBERS[(k + variant) % len(ARC_MEMBERS)]
        P[i], Q[i] = _arc_member(rng, cls[i])
        if rng.random() < 0.5:
            P[i], Q[i] = Q[i].copy(), P[i].copy()
    degrees = bool(variant % 2)
    model = "klein" if (variant // 2) % 2 else "poincare"
    R = np.diag([1.0, 1.0, -1.0])
    if variant % 3:
        R = rh.rand_isometry(rng, 2, shape=()) @ R

    def call(sel):
        X = H.BoundaryArc(H.IdealPoint(_sl(P, sel)), H.IdealPoint(_sl(Q, sel)))
        out = {"primary": np.array(X.proj_data, copy=True),
               "orientation": np.sign(np.asarray(X.orientation())),
               "endpoint_coords": X.endpoint_coords("klein")}
        c, r, th = X.circle_parameters(model=model, degrees=degrees)
        out.update({"centre": c, "radius": r, "angles": th})
        Y = H.Isometry(R.copy(), column_vectors=True).apply(X)
        out["reflected.orientation"] = np.sign(np.asarray(Y.orientation()))
        out["reflected.endpoint_coords"] = Y.endpoint_coords("klein")
        out["reflected.angles"] = Y.circle_parameters(model=model, degrees=degrees)[2]
        X.flip_orientation()
        out["flipped.orientation"] = np.sign(np.asarray(X.orientation()))
        out["flipped.endpoint_coords"] = X.endpoint_coords("klein")
        return {k: np.asarray(v) for k, v in out.items()}

    def hand(i, parts):
        # the ordered endpoints are the two given ideal points
        e = np.asarray(parts["endpoint_coords"], dtype=float)
        want = np.stack([P[i][1:] / P[i][0], Q[i][1:] / Q[i][0]])
        if e.shape != want.shape:
            return [("endpoints-are-the-given-ones", np.inf, 1e-9)]
        d = min(float(np.max(np.abs(e - want))), float(np.max(np.abs(e - want[::-1]))))
        return [("endpoints-are-the-given-ones", d, 1e-9)]

    rules = {"primary": ("rows", 1e-9), "orientation": ("exact", 0), "endpoint_coords": ("num", 1e-9),
             "centre": ("num", 1e-9), "radius": ("num", 1e-9), "angles": ("num", 1e-9),
             "reflected.orientation": ("exact", 0), "reflected.endpoint_coords": ("num", 1e-8),
             "reflected.angles": ("num", 1e-7), "flipped.orientation": ("exact", 0),
             "flipped.endpoint_coords": ("num", 1e-9)}
    return Spec({"P": P, "Q": Q, "member_classes": np.array(cls.tolist(), dtype=str), "R(column)": R},
                call, rules, hand=hand, sig=tuple(sorted(set(cls.reshape(-1).tolist()))) + (model,))


LINE_MEMBERS = ("generic", "diameter-exact", "generic", "opposite-nappes", "diameter-axis")


def _line_special(kind):
    """Segment / Geodesic composites (dimension 2) with members that pass
    exactly through the origin (a straight line in the Poincare model: the
    circle degenerates) or whose two points are given in opposite nappes."""
    def entry(rng, n, shape, variant):
        H = _H()
        gen = G.interior if kind == "H.Segment" else G.ideal
        P = np.empty(shape + (3,))
        Q = np.empty(shape + (3,))
        cls = np.empty(shape, dtype=object)
        for k, i in enumerate(np.ndindex(*shape)):
            c = LINE_MEMBERS[(k + variant) % len(LINE_MEMBERS)]
            P[i], Q[i] = G.separated_pair(rng, 2, (), gen, min_sep=0.3)
            if c in ("diameter-exact", "diameter-axis"):
                if kind == "H.Segment":
                    x, y = (_dyadic(rng, 0.1, 0.6), _dyadic(rng, -0.6, 0.6)) if c == "diameter-exact" \
                        else (0.0, _dyadic(rng, 0.1, 0.8))
                    P[i] = np.array([1.0, x, y])
                    Q[i] = np.array([1.0, -x, -y]) * 2.0 ** int(rng.integers(-1, 3))
                else:
                    from . import c04extra as GX
                    v = GX.exact_null(rng, 2) if c == "diameter-exact" else np.array([1.0, 0.0, 1.0])
                    P[i], Q[i] = v, v * np.array([1.0, -1.0, -1.0]) * 2.0
            elif c == "opposite-nappes":
                Q[i] = -Q[i]
            cls[i] = c
        model = "halfspace" if variant % 2 else "poincare"
        degrees = bool((variant // 2) % 2)

        def call(sel):
            if kind == "H.Segment":
                X = H.Segment(H.Point(_sl(P, sel)), H.Point(_sl(Q, sel)))
            else:
                X = H.Geodesic(H.IdealPoint(_sl(P, sel)), H.IdealPoint(_sl(Q, sel)))
            c, r, th = X.circle_parameters(model=model, degrees=degrees)
            out = {"centre": c, "radius": r, "angles": th,
                   "ideal_basis_coords": X.ideal_basis_coords("klein")}
            if kind == "H.Geodesic":
                out["reflection_across"] = X.reflection_across().proj_data
                out["spacelike_complement"] = X.spacelike_complement().proj_data
            return {k: np.asarray(v) for k, v in out.items()}

        def skip_part(i, part):
            if cls[i].startswith("diameter") and part in ("centre", "radius", "angles") \
                    and model == "poincare":
                return "diameter: its Poincare circle is a straight line (radius unbounded)"
            return None

        rules = {"centre": ("num", 1e-7), "radius": ("num", 1e-7), "angles": ("num", 1e-7),
                 "ideal_basis_coords": ("num", 1e-8)}
        if kind == "H.Geodesic":
            rules.update({"reflection_across": ("mat", 1e-7), "spacelike_complement": ("rows", 1e-7)})
        return Spec({"P": P, "Q": Q, "member_classes": np.array(cls.tolist(), dtype=str)}, call, rules,
                    skip_part=skip_part, sig=tuple(sorted(set(cls.reshape(-1).tolist()))) + (model,))
    entry.__name__ = "special-members:" + kind
    return entry


segment_special = _line_special("H.Segment")
geodesic_special = _line_special("H.Geodesic")


# ---------------------------------------------------------------------------
# round 7: Euclidean sphere helpers on stacks of point sets; composite
# predicates whose answer at an index concerns that unit alone

def sphere_helpers(rng, n, shape, variant):
    """utils.sphere_through (k+2 points of R^(k+1)) and utils.circle_through on
    stacks: one centre and one radius per point set, whatever the composite
    shape (size-1 axes included).  (seeded change C04-r7-2: the radii were
    np.squeeze'd without an axis and lost every size-1 composite axis.)"""
    from geometry_tools import utils
    k = n                       # n+1 points of R^n
    for _ in range(50):
        pts = rng.normal(size=shape + (k + 1, k))
        d = pts[..., 1:, :] - pts[..., :1, :]
        if np.all(np.linalg.cond(d) < 50):
            break
    tri = rng.normal(size=shape + (3, 2))

    def call(sel):
        p = _sl(pts, sel)
        c, r = utils.sphere_through(p)
        t = _sl(tri, sel)
        c2, r2 = utils.circle_through(t[..., 0, :], t[..., 1, :], t[..., 2, :])
        return {"sphere.centre": np.asarray(c), "sphere.radius": np.asarray(r),
                "circle.centre": np.asarray(c2), "circle.radius": np.asarray(r2)}

    def hand(i, parts):
        c, r = np.asarray(parts["sphere.centre"]), np.asarray(parts["sphere.radius"])
        if c.shape != (k,) or r.shape != ():
            return [("equidistant", np.inf, 1e-7)]
        dist = np.linalg.norm(pts[i] - c, axis=-1)
        return [("equidistant", float(np.max(np.abs(dist - r))) / (1.0 + float(r)), 1e-7)]

    return Spec({"points": pts, "triangles": tri}, call,
                {"sphere.centre": ("num", 1e-8), "sphere.radius": ("num", 1e-8),
                 "circle.centre": ("num", 1e-7), "circle.radius": ("num", 1e-7)}, hand=hand)


SIGN_MEMBERS = ("all-positive", "all-negative", "mixed", "all-negative", "all-positive",
                "vertex-at-infinity", "mixed")


def polygon_predicates(rng, n, shape, variant):
    """Polygon.in_standard_chart() on composites whose units are given with
    representatives of different sign patterns (all positive, all negative,
    mixed, a vertex at infinity): the answer at an index is a statement about
    that polygon's own vertices.  (seeded change C04-r7-3: every polygon was
    compared with the sign pattern of polygon 0.)"""
    hyp = bool(variant % 2)
    kind = "H.Polygon" if hyp else "P.Polygon"
    m = 3 + (variant // 2) % 3
    raw = G.draw(rng, "H.Polygon", max(n, 2), shape, nv=m)       # positive representatives
    V = np.array(raw["X"], copy=True)
    cls = np.empty(shape, dtype=object)
    for k, i in enumerate(np.ndindex(*shape)):
        c = SIGN_MEMBERS[(k + variant) % len(SIGN_MEMBERS)]
        if c == "vertex-at-infinity" and hyp:
            c = "mixed"
        if c == "all-negative":
            V[i] = -V[i]
        elif c == "mixed":
            flip = rng.random(m) < 0.5
            flip[0], flip[1] = bool(k % 2), not bool(k % 2)
            V[i] = V[i] * np.where(flip, -1.0, 1.0)[:, None]
        elif c == "vertex-at-infinity":
            V[i][int(rng.integers(m)), 0] = 0.0
        cls[i] = c

    def call(sel):
        X = G.class_of(kind)(_sl(V, sel))
        return {"in_standard_chart": np.asarray(X.in_standard_chart())}

    def hand(i, parts):
        sg = np.sign(V[i][:, 0])
        want = bool(np.all(sg == 1) or np.all(sg == -1))
        return [("own-vertices", 0.0 if bool(np.asarray(parts["in_standard_chart"])) == want else 1.0, 0.5)]

    return Spec({"vertices": V, "member_classes": np.array(cls.tolist(), dtype=str)}, call,
                {"in_standard_chart": ("exact", 0)}, hand=hand,
                sig=(kind,) + tuple(sorted(set(cls.reshape(-1).tolist()))))


ENTRIES = [
    ("Transformation.eigenvector(ev)", eigenvector_given, 1),
    ("Transformation.commute", commute, 1),
    ("Polygon.regular_polygon(array)", regular_polygon, 2),
    ("Transformation.eigenvector()", eigenvector_any, 1),
    ("Transformation.diagonalize", diagonalize, 1),
    ("Transformation.inv", inverse, 1),
    ("Transformation.apply(ndarray)", apply_to_array, 1),
    ("get_origin/get_base_tangent(shape)", shaped_factories, 1),
    ("IdealPoint.from_angle(array)", ideal_from_angle, 2),
    ("polygon-formulas(array)", scalar_formulas, 1),
    ("Subspace.queries", subspace_queries, 2),
    ("Hyperplane.queries", hyperplane_queries, 2),
    ("PointPair.queries", pointpair_queries, 1),
    ("Segment.queries", segment_queries, 1),
    ("Polygon.queries", polygon_queries, 2),
    ("Horosphere.queries", horosphere_queries, 2),
    ("Geodesic.queries", geodesic_queries, 2),
    ("TangentVector.queries", tangent_queries, 2),
    ("projective.queries", projective_queries, 1),
    ("causal-classifiers", causal_classifiers, 1),
]

# these two fired on the pinned tree (genuine defects F45, F46: commute[pairwise]
# raised / mixed inverses, composite BoundaryArcs could not be constructed);
# repaired in the repository (e05352a, d559408), part of the sweep since
ENTRIES += [
    ("Transformation.commute[pairwise]", commute_pairwise, 1),
    ("BoundaryArc.queries", boundary_arc, 2),
]
# round 6: one special member among ordinary ones
ENTRIES += [
    ("BoundaryArc{special-members}", boundary_arc_special, 2),
    ("Segment{special-members}", segment_special, 2),
    ("Geodesic{special-members}", geodesic_special, 2),
]
# round 7
ENTRIES += [
    ("utils.sphere_through/circle_through", sphere_helpers, 1),
    ("Polygon.in_standard_chart", polygon_predicates, 2),
]
PENDING_ENTRIES = []
