"""Deterministic automata whose edge labels are *words of unequal lengths*
with colliding concatenations, for the C06 workloads (plain data: label dict +
start vertex; no library import).

The automaton is deterministic over its label alphabet (at most one edge per
(state, label)), but two different paths with the same number of edges may
spell the same string: for labels u, uv, vw, w the paths u.vw and uv.w both
spell uvw; for u, uu the paths u.uu and uu.u both spell uuu.  Every such path
is an accepting path of its own (the property counts words once per accepting
path), whether the colliding paths end in the same state or not.
"""

FAMILIES = ("split", "power", "prefix-set", "split-inverse")


def _word(rng, letters, lo=1, hi=2):
    n = int(rng.integers(lo, hi + 1))
    return "".join(letters[int(rng.integers(0, len(letters)))] for _ in range(n))


def label_family(rng, family, letters):
    """-> (labels, planted) : the label alphabet and a list of
    (first label, second label) pairs, at least two of which spell the same
    string through different splittings."""
    if family in ("split", "split-inverse"):
        ls = list(letters)
        if family == "split-inverse":
            ls = ls + [x.upper() for x in letters]
        for _ in range(50):
            u, v, w = _word(rng, ls), _word(rng, ls), _word(rng, ls)
            labels = [u, u + v, v + w, w]
            if len(set(labels)) == 4:
                return labels, [(u, v + w), (u + v, w)]
        return ["a", "ab", "bc", "c"], [("a", "bc"), ("ab", "c")]
    if family == "power":
        u = _word(rng, list(letters), 1, 2)
        labels = [u, u + u] + ([u + u + u] if rng.random() < 0.5 else [])
        return labels, [(u, u + u), (u + u, u)]
    if family == "prefix-set":
        # a random set of words of lengths 1..3 closed under nothing in
        # particular, but containing x, xy, y-continuations: x | xy | yz | z | y
        ls = list(letters)
        for _ in range(50):
            x, y, z = _word(rng, ls, 1, 1), _word(rng, ls, 1, 2), _word(rng, ls, 1, 1)
            labels = list(dict.fromkeys([x, x + y, y + z, z, y]))
            if len(labels) >= 4 and len({x, x + y, y + z, z}) == 4:
                return labels, [(x, y + z), (x + y, z)]
        return ["a", "ab", "bc", "c", "b"], [("a", "bc"), ("ab", "c")]
    raise ValueError(family)


def random_automaton(rng, family, letters, max_states=5):
    """-> (label dict, start, labels, collision) with a planted pair of paths
    p -l1-> q1 -l2-> r1 and p -l1'-> q2 -l2'-> r2 (l1 l2 == l1' l2' as strings)
    reachable from the start vertex."""
    labels, planted = label_family(rng, family, letters)
    n = int(rng.integers(1, max_states + 1))
    style = int(rng.integers(0, 3))
    names = list(range(n)) if style == 0 else (["q%d" % i for i in range(n)] if style == 1
                                                else list(range(1, n + 1)))
    density = float(rng.choice([0.2, 0.4, 0.7]))
    d = {v: {} for v in names}
    for v in names:
        for lab in labels:
            if rng.random() < density:
                d[v][lab] = names[int(rng.integers(0, n))]
    start = names[int(rng.integers(0, n))] if rng.random() < 0.5 else names[0]
    # plant the colliding pair of two-edge paths at p (the start vertex, or a
    # vertex the start vertex is then joined to)
    p = start if rng.random() < 0.6 else names[int(rng.integers(0, n))]
    pick = lambda: names[int(rng.integers(0, n))]
    (a1, a2), (b1, b2) = planted
    q1, q2 = pick(), pick()
    d[p][a1] = q1
    d[p][b1] = q2
    d[q1][a2] = pick() if a2 not in d[q1] or rng.random() < 0.5 else d[q1][a2]
    d[q2][b2] = pick() if b2 not in d[q2] or rng.random() < 0.5 else d[q2][b2]
    # the two first edges must survive the second assignments (q1 / q2 may be p)
    d[p][a1] = q1
    d[p][b1] = q2
    if p != start:
        free = [l for l in labels if l not in d[start]] or [labels[-1]]
        d[start][free[0]] = p
    if rng.random() < 0.4:
        d = {v: d[v] for v in sorted(d, key=repr, reverse=True)}
    return d, start, labels, {"at": p, "paths": [list(planted[0]), list(planted[1])]}


def cancelling_labels(rng, letters, count=4):
    """label alphabet of words (lengths 2..4) over the letters and their
    upper-case inverse names, most of which contain an adjacent pair x X or
    X x -- words that are not freely reduced.  -> list of distinct labels."""
    full = list(letters) + [x.upper() for x in letters]
    labels = []
    for _ in range(200):
        if len(labels) >= count:
            break
        x = letters[int(rng.integers(0, len(letters)))]
        pair = x + x.upper() if rng.random() < 0.5 else x.upper() + x
        shape = int(rng.integers(0, 5))
        if shape == 0:
            w = pair                                   # 'aA'
        elif shape == 1:
            w = _word(rng, full, 1, 1) + pair          # 'baA'
        elif shape == 2:
            w = pair + _word(rng, full, 1, 2)          # 'aAb', 'AaBa'
        elif shape == 3:
            w = _word(rng, full, 1, 1) + pair + _word(rng, full, 1, 1)   # 'baAB' (nested: bB after aA)
        else:
            w = _word(rng, full, 1, 3)                 # any word, reduced or not
        if w not in labels:
            labels.append(w)
    return labels


def cancelling_automaton(rng, letters, max_states=5):
    """random deterministic automaton over a `cancelling_labels` alphabet in
    which every state reachable in one step has outgoing edges.
    -> (label dict, start, labels)."""
    labels = cancelling_labels(rng, letters, count=int(rng.integers(2, 5)))
    n = int(rng.integers(1, max_states + 1))
    names = list(range(n)) if rng.random() < 0.5 else ["q%d" % i for i in range(n)]
    density = float(rng.choice([0.4, 0.7, 1.0]))
    d = {v: {} for v in names}
    for v in names:
        for lab in labels:
            if rng.random() < density:
                d[v][lab] = names[int(rng.integers(0, n))]
        if not d[v]:
            d[v][labels[int(rng.integers(0, len(labels)))]] = names[int(rng.integers(0, n))]
    start = names[int(rng.integers(0, n))]
    return d, start, labels
