"""Generators used by C03 only (numpy only at import; geometry_tools is imported
lazily inside the build functions).

* objects carrying DUAL data (ConvexPolygon with an explicit dual vector, generic
  ProjectiveObject with dual_ndims = 1), from raw arrays;
* the 'exact dyadic' class of badly scaled matrices whose inverse, powers and
  images of small integer vectors are computed without any rounding;
* small automata over a representation's generator letters.
"""
import numpy as np

from ..ref import proj as rp
from ..ref import dyadic as dy

# ---------------------------------------------------------------------------
# objects with dual data
#   kind -> (min dimension, unit_ndims, aux: None | "edges", complex allowed)
DUAL_KINDS = {
    "P.ConvexPolygon":        (2, 2, "edges", False),
    "P.ProjectiveObject/u1":  (1, 1, None, True),
    "P.ProjectiveObject/u2":  (1, 2, None, True),
}
DUAL_OBJ_SHAPES = [(), (3,), (2, 3), (1, 3)]


def draw_dual(rng, kind, n, shape=(), cx=False):
    """raw = {"X": primary rows, "D": dual row} for one (composite) object.

    ConvexPolygon: in the plane (n = 2) a genuinely convex polygon -- points on
    an ellipse, in cyclic order, of the affine chart {D != 0}, pushed by a random
    projective frame; in higher dimension k points on which D is positive.  The
    rows are positive multiples of lifts with <D, v> = 1, so D is a legitimate
    'chart containing the polygon' as the constructor documents."""
    shape = tuple(shape)
    d = n + 1
    if kind == "P.ConvexPolygon":
        nv = int(rng.integers(3, 7))
        X = np.empty(shape + (nv, d))
        D = np.empty(shape + (d,))
        for ind in np.ndindex(*shape):
            T = rp.rand_invertible(rng, d, cond_max=20.0)
            aff = np.zeros((nv, d))
            aff[:, 0] = 1.0
            if n == 2:
                t = np.sort(rng.uniform(0, 2 * np.pi, size=nv))
                # keep consecutive angles apart (no repeated vertices)
                t = t + np.arange(nv) * 0.2
                aff[:, 1] = 0.3 + 1.5 * np.cos(t)
                aff[:, 2] = -0.2 + 0.7 * np.sin(t)
            else:
                aff[:, 1:] = rng.normal(size=(nv, n))
            lifts = aff @ T.T                               # v_k = T (1, c_k)
            dual = np.linalg.solve(T.T, np.eye(d)[0])       # T^-T e_0: <dual, v_k> = 1
            X[ind] = lifts * np.exp(rng.uniform(-0.7, 0.7, size=(nv, 1)))
            D[ind] = dual * np.exp(rng.uniform(-0.7, 0.7))
        return {"X": X, "D": D}
    u = DUAL_KINDS[kind][1]
    unit = (d,) if u == 1 else (int(rng.integers(2, 5)), d)
    X = rng.normal(size=shape + unit)
    D = rng.normal(size=shape + (d,))
    if cx:
        X = X + 1j * rng.normal(size=shape + unit)
        D = D + 1j * rng.normal(size=shape + (d,))
    return {"X": X, "D": D}


def build_dual(kind, raw):
    from geometry_tools import projective as P
    X = np.array(raw["X"], copy=True)
    D = np.array(raw["D"], copy=True)
    if kind == "P.ConvexPolygon":
        return P.ConvexPolygon(X, dual_data=D)
    return P.ProjectiveObject(X, dual_data=D, unit_ndims=DUAL_KINDS[kind][1], dual_ndims=1)


def unit_raw(raw, idx):
    return {k: np.asarray(v)[tuple(idx)] for k, v in raw.items()}


# ---------------------------------------------------------------------------
# exact dyadic matrices
#
# M = P . D . E (column convention), P a permutation matrix, D = diag(+-2^e_i),
# E = I or I + c e_ij (one dyadic transvection, c = +-2^k), or the transposed
# arrangement.  Every entry of M and of M^-1 = E^-1 D^-1 P^T is 0 or +- a power
# of two, and Gaussian elimination on M (with any pivoting) never adds two
# non-zero numbers: each of its steps is a product / quotient of powers of two.
# So inverting M, composing it with its inverse and applying it to vectors of
# small integers involve no rounding at all, although the entries of one matrix
# span more than 2^42 (cond ~ 1e25).

# (E.D instead of D.E is the same family: E D = D (I + c d_j/d_i e_ij).)
DYADIC_FORMS = ["diagonal", "diagonal+transvection", "monomial", "monomial+transvection",
                "diagonal-power", "block-power"]


def _exponents(rng, d, lo_spread, hi_spread):
    """integer exponents e_i with max - min in [lo_spread, hi_spread]."""
    sp = int(rng.integers(lo_spread, hi_spread + 1))
    e = rng.integers(0, sp + 1, size=d)
    i, j = rng.choice(d, size=2, replace=False)
    e[int(i)], e[int(j)] = 0, sp
    return e - sp // 2


def _factors(rng, d, form, spread_bits, cmax=20):
    """list of (matrix, inverse) exact factors whose product is the matrix."""
    lo, hi = spread_bits
    sign = rng.choice([-1.0, 1.0], size=d)
    e = _exponents(rng, d, lo, hi)
    D = np.diag(sign * np.ldexp(1.0, e))
    Di = np.diag(sign * np.ldexp(1.0, -e))
    fac = [(D, Di)]
    if "transvection" in form:
        i, j = (int(t) for t in rng.choice(d, size=2, replace=False))
        c = float(rng.choice([-1.0, 1.0]) * np.ldexp(1.0, int(rng.integers(-cmax, cmax + 1))))
        E = np.eye(d)
        Ei = np.eye(d)
        E[i, j] = c
        Ei[i, j] = -c
        fac = fac + [(E, Ei)]
    if form.startswith("monomial"):
        while True:
            perm = rng.permutation(d)
            if d < 2 or np.any(perm != np.arange(d)):
                break
        Pm = np.eye(d)[perm]
        fac = [(Pm, Pm.T.copy())] + fac
    return fac


def _product(fac):
    """certified product of the factors and of the inverses (reverse order)."""
    M, Mi, ok = fac[0][0], fac[0][1], True
    for F, Fi in fac[1:]:
        M, o1 = dy.matmul_certified(M, F)
        Mi, o2 = dy.matmul_certified(Fi, Mi)
        ok = ok and o1 and o2
    return M, Mi, ok


def certify_inverse(M, Mi):
    d = M.shape[-1]
    P1, o1 = dy.matmul_certified(Mi, M)
    P2, o2 = dy.matmul_certified(M, Mi)
    return bool(o1 and o2 and np.array_equal(P1, np.broadcast_to(np.eye(d), P1.shape))
                and np.array_equal(P2, np.broadcast_to(np.eye(d), P2.shape)))


def draw_dyadic(rng, d, form, shape=(), min_spread_bits=42):
    """{"M": column matrices (shape + (d,d)), "Minv": their exact inverses,
    "form", "ok"}: ok iff every step was certified exact, M Minv = Minv M = I
    exactly and the entries of every M span at least 2^min_spread_bits."""
    shape = tuple(shape)
    M = np.empty(shape + (d, d))
    Mi = np.empty(shape + (d, d))
    ok = True
    for ind in np.ndindex(*shape):
        if form in ("diagonal-power", "block-power"):
            # a moderate generator raised to a power: diag(8, 1, 1/8)^7 and the like
            k = int(rng.integers(6, 9))
            bits = -(-min_spread_bits // k)
            fac = _factors(rng, d, "diagonal" if form == "diagonal-power" else "diagonal+transvection",
                           (bits, bits + 1), cmax=4)
            g, gi, o = _product(fac)
            m, mi = g, gi
            for _ in range(k - 1):
                m, o1 = dy.matmul_certified(m, g)
                mi, o2 = dy.matmul_certified(gi, mi)
                o = o and o1 and o2
        else:
            m, mi, o = _product(_factors(rng, d, form, (min_spread_bits, min_spread_bits + 8)))
        M[ind], Mi[ind] = m, mi
        ok = ok and o
    ok = ok and certify_inverse(M, Mi) and dy.spread(M) >= 2.0 ** min_spread_bits \
        and dy.spread(Mi) >= 2.0 ** min_spread_bits
    return {"M": M, "Minv": Mi, "form": form, "ok": bool(ok)}


def draw_dyadic_moderate(rng, d, shape=(), monomial=True):
    """a second factor B for the associativity law: monomial dyadic matrices of
    small spread (so that A.B stays in the class above)."""
    shape = tuple(shape)
    M = np.empty(shape + (d, d))
    Mi = np.empty(shape + (d, d))
    ok = True
    for ind in np.ndindex(*shape):
        m, mi, o = _product(_factors(rng, d, "monomial" if (monomial and d >= 2) else "diagonal", (1, 6)))
        M[ind], Mi[ind] = m, mi
        ok = ok and o
    return {"M": M, "Minv": Mi, "form": "monomial-moderate", "ok": bool(ok and certify_inverse(M, Mi))}


def small_integer_rows(rng, shape, unit, lo=-8, hi=8):
    """rows of small integers (as floats), none of them zero, no two rows of a
    unit proportional (generic position is not needed for the laws, a zero row
    is not a point)."""
    while True:
        X = rng.integers(lo, hi + 1, size=tuple(shape) + tuple(unit)).astype(float)
        if np.all(np.any(X != 0, axis=-1)):
            return X


def small_integer_matrix(rng, shape, d):
    """invertible small integer matrices (unit lower x unit upper triangular
    with entries in -2..2: determinant 1)."""
    out = np.empty(tuple(shape) + (d, d))
    for ind in np.ndindex(*shape):
        L = np.tril(rng.integers(-2, 3, size=(d, d)), -1) + np.eye(d)
        U = np.triu(rng.integers(-2, 3, size=(d, d)), 1) + np.eye(d)
        out[ind] = L @ U
    return out


# ---------------------------------------------------------------------------
# automata over generator letters

def random_graph(rng, letters, nstates):
    """{state: {label: neighbour}} over the letters and their capitals:
    deterministic, every state keeps at least one outgoing edge, state 0 is the
    start state.  Freely reducedness is not imposed (the representation does not
    care)."""
    alphabet = list(letters) + [l.upper() for l in letters]
    graph = {}
    for s in range(nstates):
        out = {}
        for lab in alphabet:
            if rng.random() < 0.6:
                out[lab] = int(rng.integers(0, nstates))
        if not out:
            out[alphabet[int(rng.integers(0, len(alphabet)))]] = int(rng.integers(0, nstates))
        graph[s] = out
    return graph


# ---------------------------------------------------------------------------
# exact finite-order matrices

def signed_permutations(rng, d, shape=(), involution=False, fix0=False):
    """stack (shape + (d, d)) of signed permutation matrices, none of them the
    identity: entries 0, +-1, so products, powers, inverses and transposes are
    exact.  involution: products of disjoint transpositions with one sign per
    2-cycle and arbitrary signs on fixed coordinates (coordinate reflections,
    swaps: M.M = I exactly).  fix0: coordinate 0 is fixed with sign +1 (then the
    matrix preserves diag(-1, 1, ..., 1): an exact element of O(n,1))."""
    shape = tuple(shape)
    out = np.zeros(shape + (d, d))
    lo = 1 if fix0 else 0
    for ind in np.ndindex(*shape):
        while True:
            perm = np.arange(d)
            sign = rng.choice([-1.0, 1.0], size=d)
            free = list(range(lo, d))
            if involution:
                order = [free[int(i)] for i in rng.permutation(len(free))]
                npairs = int(rng.integers(0, len(order) // 2 + 1))
                for k in range(npairs):
                    i, j = order[2 * k], order[2 * k + 1]
                    perm[i], perm[j] = j, i
                    sign[j] = sign[i]
            else:
                perm[lo:] = np.array(free)[rng.permutation(len(free))]
            if fix0:
                sign[0] = 1.0
            M = np.zeros((d, d))
            M[np.arange(d), perm] = sign
            if not np.array_equal(M, np.eye(d)):
                break
        out[ind] = M
    return out


# ---------------------------------------------------------------------------
# structured matrices (the classes special-cased by 'fast paths')

STRUCTURED = ["unitary-phases", "unitary-qr", "unitary-householder", "scaled-unitary",
              "real-orthogonal", "permutation", "involution-oblique", "unipotent",
              "unitary-block-rotation", "hermitian-positive"]


def draw_structured(rng, d, sclass, shape=(), cx=True):
    """stack (shape + (d, d)) of matrices of a structured class, never the
    identity.  With cx the complex member of the class is drawn (unitary instead
    of orthogonal, complex unipotent, ...); 'unitary-*' classes are unitary to
    rounding (|U U^* - I| ~ 1e-16), which is what numerical 'is it orthogonal?'
    tests see.  Column or row convention alike (each class is closed under
    transposition)."""
    shape = tuple(shape)
    dt = complex if cx else float
    out = np.empty(shape + (d, d), dtype=dt)

    def gauss(*s):
        g = rng.normal(size=s)
        return g + 1j * rng.normal(size=s) if cx else g

    def unitary():
        q, r = np.linalg.qr(gauss(d, d))
        ph = np.diagonal(r) / np.abs(np.diagonal(r))
        return q * ph                                  # Haar, never real when cx

    def phases():
        if cx:
            return np.exp(1j * rng.uniform(0.3, 2 * np.pi - 0.3, size=d))
        s = rng.choice([-1.0, 1.0], size=d)
        s[int(rng.integers(0, d))] = -1.0
        if d > 1 and np.all(s < 0):
            s[0] = 1.0
        return s
    for ind in np.ndindex(*shape):
        if sclass == "unitary-phases":
            M = np.diag(phases())
        elif sclass == "unitary-qr":
            M = unitary()
        elif sclass == "real-orthogonal":
            # a real orthogonal matrix (held in a complex array when cx)
            q, r = np.linalg.qr(rng.normal(size=(d, d)))
            M = q * np.sign(np.diagonal(r))
        elif sclass == "unitary-householder":
            v = gauss(d)
            M = np.eye(d, dtype=dt) - 2.0 * np.outer(v, np.conj(v)) / np.real(np.vdot(v, v))
        elif sclass == "scaled-unitary":
            M = unitary() * (np.exp(rng.uniform(-2, 2)) * (np.exp(1j * rng.uniform(0, 6.28)) if cx else 1.0))
        elif sclass == "permutation":
            while True:
                perm = rng.permutation(d)
                if np.any(perm != np.arange(d)):
                    break
            M = np.eye(d, dtype=dt)[perm]
            if cx:
                M = M * phases()[:, None]              # monomial unitary
        elif sclass == "involution-oblique":
            S = rp.rand_invertible(rng, d, cx=cx, cond_max=8.0)
            s = np.ones(d)
            s[:max(1, d // 2)] = -1.0
            M = S @ np.diag(s) @ np.linalg.inv(S)
        elif sclass == "unipotent":
            M = np.eye(d, dtype=dt) + np.triu(gauss(d, d), 1) * 0.7
            if d > 1 and np.allclose(M, np.eye(d)):
                M[0, 1] = 1.0
        elif sclass == "unitary-block-rotation":
            t = rng.uniform(0.3, 2.8)
            M = np.eye(d, dtype=dt)
            i, j = (int(k) for k in rng.choice(d, size=2, replace=False))
            M[i, i] = M[j, j] = np.cos(t)
            M[i, j], M[j, i] = -np.sin(t), np.sin(t)
            if cx:
                D = np.diag(phases())
                M = D @ M @ np.conj(D) @ np.diag(phases())
        elif sclass == "hermitian-positive":
            U = unitary()
            M = (U * np.exp(rng.uniform(-1, 1, size=d))) @ np.conj(U).T
        else:
            raise ValueError(sclass)
        out[ind] = M
    return out
