"""Seeded generators for every kind of projective / hyperbolic object, from
*raw numpy inputs* (so that a unit object can be rebuilt from the slice of the
raw inputs at an index without using the library's own indexing).  Used by
C03, C04, C11.  geometry_tools is imported lazily (after core.load_repo()).

raw = dict name -> ndarray of shape  composite shape + per-unit shape.
"""
import numpy as np

from ..ref import hyp as rh
from ..ref import proj as rp

# kind -> (min dimension, hyperbolic?, unit_ndims, aux kind, comparison)
#   aux kind: None | "edges" (linear in the vertices) | "ideal" | "tangent"
#   comparison: "rows" | "matrix" | "tangent"
KINDS = {
    "P.Point":          (1, False, 1, None, "rows"),
    "P.PointPair":      (1, False, 2, None, "rows"),
    "P.Polygon":        (2, False, 2, "edges", "rows"),
    "P.Simplex":        (2, False, 2, None, "rows"),
    "P.Subspace":       (2, False, 2, None, "rows"),
    "P.Transformation": (1, False, 2, None, "matrix"),
    "H.Point":          (1, True, 1, None, "rows"),
    "H.IdealPoint":     (1, True, 1, None, "rows"),
    "H.DualPoint":      (1, True, 1, None, "rows"),
    "H.PointPair":      (1, True, 2, None, "rows"),
    "H.Segment":        (1, True, 2, "ideal", "rows"),
    "H.Geodesic":       (2, True, 2, None, "rows"),
    "H.Polygon":        (2, True, 2, "edges", "rows"),
    "H.TangentVector":  (2, True, 2, "tangent", "tangent"),
    "H.Horosphere":     (2, True, 2, None, "rows"),
    "H.HorosphereArc":  (2, True, 2, None, "rows"),
    "H.Hyperplane":     (2, True, 2, None, "rows"),
    "H.Subspace":       (2, True, 2, None, "rows"),
    "H.Isometry":       (1, True, 2, None, "matrix"),
}
PROJECTIVE_KINDS = [k for k in KINDS if k.startswith("P.")]
HYPERBOLIC_KINDS = [k for k in KINDS if k.startswith("H.")]
AUX_KINDS = [k for k, v in KINDS.items() if v[3] is not None]

OBJ_SHAPES = [(), (3,), (2, 3), (1, 3), (2, 1, 3)]
TRF_SHAPES = [(), (3,), (2, 1), (4,)]


def _scale(rng, shape, lo=0.5, hi=2.0):
    return np.exp(rng.uniform(np.log(lo), np.log(hi), size=tuple(shape) + (1,)))


def interior(rng, n, shape, rmax=0.9):
    """homogeneous coordinates of interior points, positive representatives
    of varying scale."""
    return rh.klein_to_proj(rh.rand_ball(rng, n, shape, rmax=rmax)) * _scale(rng, shape)


def ideal(rng, n, shape):
    return rh.klein_to_proj(rh.rand_sphere(rng, n, shape)) * _scale(rng, shape)


def exterior(rng, n, shape):
    """spacelike vectors with a clear margin (|space part| >= 2 |time part|)."""
    s = rh.rand_sphere(rng, n, shape)
    t = rng.uniform(-0.5, 0.5, size=tuple(shape) + (1,))
    return np.concatenate([t, s], axis=-1) * _scale(rng, shape)


def separated_pair(rng, n, shape, gen, min_sep=0.15, rmax=0.9):
    """two arrays of points whose projective separation is >= min_sep."""
    P = gen(rng, n, shape)
    Q = gen(rng, n, shape)
    for _ in range(200):
        bad = rp.klein_sep(P, Q) < min_sep
        if not np.any(bad):
            break
        Q2 = gen(rng, n, shape)
        Q = np.where(bad[..., None], Q2, Q)
    return P, Q


def on_horosphere(C, P, Q0):
    """move the interior points Q0 (homogeneous) onto the horosphere centred
    at the null vectors C that passes through P; returns hyperboloid
    representatives."""
    C = np.asarray(C, dtype=float)
    hp = rh.hyperboloid_pos(P)
    hq = rh.hyperboloid_pos(Q0)
    c = C * np.where(C[..., :1] < 0, -1.0, 1.0)
    beta = rh.mink(hp, c)
    alpha = rh.mink(hq, c)
    t = (1.0 - (alpha / beta) ** 2) / (2.0 * alpha)
    y = hq + t[..., None] * c
    return y / np.sqrt(-rh.mink_sq(y))[..., None]


def draw(rng, kind, n, shape=(), cx=False, nv=None):
    """raw inputs for one (possibly composite) object of the kind."""
    shape = tuple(shape)

    def gauss(*unit):
        x = rng.normal(size=shape + unit)
        if cx:
            x = x + 1j * rng.normal(size=shape + unit)
        return x
    if kind == "P.Point":
        return {"X": gauss(n + 1)}
    if kind == "P.PointPair":
        return {"X": gauss(2, n + 1)}
    if kind == "P.Polygon":
        return {"X": gauss(nv or int(rng.integers(3, 6)), n + 1)}
    if kind == "P.Simplex":
        return {"X": gauss(min(3, n + 1), n + 1)}
    if kind == "P.Subspace":
        return {"X": gauss(2, n + 1)}
    if kind == "P.Transformation":
        return {"M": rp.rand_invertible(rng, n + 1, shape, cx=cx)}
    if kind == "H.Point":
        return {"X": interior(rng, n, shape)}
    if kind == "H.IdealPoint":
        return {"X": ideal(rng, n, shape)}
    if kind == "H.DualPoint":
        return {"X": exterior(rng, n, shape)}
    if kind == "H.PointPair":
        P, Q = separated_pair(rng, n, shape, interior)
        return {"X": np.stack([P, Q], axis=-2)}
    if kind == "H.Segment":
        P, Q = separated_pair(rng, n, shape, interior)
        return {"P": P, "Q": Q}
    if kind == "H.Geodesic":
        P, Q = separated_pair(rng, n, shape, ideal, min_sep=0.3)
        return {"P": P, "Q": Q}
    if kind == "H.Polygon":
        m = nv or int(rng.integers(3, 6))
        # vertices in angular order around a random centre-ish point so that
        # consecutive vertices are separated
        ang = np.sort(rng.uniform(0, 2 * np.pi, size=shape + (m,)), axis=-1)
        ang = ang + 0.35 * np.arange(m)
        r = rng.uniform(0.3, 0.85, size=shape + (m,))
        k = np.zeros(shape + (m, n))
        k[..., 0] = r * np.cos(ang)
        k[..., 1] = r * np.sin(ang)
        if n > 2:
            extra = rng.uniform(-0.3, 0.3, size=shape + (m, n - 2))
            k[..., 2:] = extra
            nr = np.linalg.norm(k, axis=-1, keepdims=True)
            k = np.where(nr > 0.9, k * 0.9 / np.maximum(nr, 1e-300), k)
        return {"X": rh.klein_to_proj(k) * _scale(rng, shape + (m,))}
    if kind == "H.TangentVector":
        P = interior(rng, n, shape, rmax=0.85)
        w = rng.normal(size=shape + (n + 1,))
        V = rh.tangent_project(P, w)
        # keep the raw (unprojected) vector: the library projects it itself
        nrm = np.sqrt(np.abs(rh.mink_sq(V)))[..., None]
        return {"P": P, "V": w / np.maximum(nrm, 1e-3)}
    if kind == "H.Horosphere":
        return {"C": ideal(rng, n, shape), "R": interior(rng, n, shape)}
    if kind == "H.HorosphereArc":
        C = ideal(rng, n, shape)
        P = interior(rng, n, shape)
        for _ in range(50):
            Q = on_horosphere(C, P, interior(rng, n, shape))
            kq = rh.proj_to_klein(Q)
            if np.all(np.sum(kq * kq, axis=-1) < 0.999) and \
                    np.all(rp.klein_sep(P, Q) > 0.05):
                break
        return {"C": C, "P": rh.hyperboloid_pos(P) * _scale(rng, shape), "Q": Q}
    if kind == "H.Hyperplane":
        return {"N": exterior(rng, n, shape + (1,))}
    if kind == "H.Subspace":
        P, Q = separated_pair(rng, n, shape, ideal, min_sep=0.3)
        return {"X": np.stack([P, Q], axis=-2)}
    if kind == "H.Isometry":
        return {"M": rh.rand_isometry(rng, n, shape=shape)}
    raise ValueError(kind)


def unit_raw(raw, idx):
    return {k: v[idx] for k, v in raw.items()}


def copy_raw(raw):
    return {k: np.array(v, copy=True) for k, v in raw.items()}


def build(kind, raw):
    """library object from raw inputs (fresh copies are handed over: the
    library normalises some inputs in place)."""
    from geometry_tools import projective as P, hyperbolic as H
    r = copy_raw(raw)
    if kind == "P.Point":
        return P.Point(r["X"])
    if kind == "P.PointPair":
        return P.PointPair(r["X"])
    if kind == "P.Polygon":
        return P.Polygon(r["X"])
    if kind == "P.Simplex":
        return P.Simplex(r["X"])
    if kind == "P.Subspace":
        return P.Subspace(r["X"])
    if kind == "P.Transformation":
        return P.Transformation(r["M"])
    if kind == "H.Point":
        return H.Point(r["X"])
    if kind == "H.IdealPoint":
        return H.IdealPoint(r["X"])
    if kind == "H.DualPoint":
        return H.DualPoint(r["X"])
    if kind == "H.PointPair":
        return H.PointPair(r["X"])
    if kind == "H.Segment":
        return H.Segment(H.Point(r["P"]), H.Point(r["Q"]))
    if kind == "H.Geodesic":
        return H.Geodesic(H.IdealPoint(r["P"]), H.IdealPoint(r["Q"]))
    if kind == "H.Polygon":
        return H.Polygon(H.Point(r["X"]))
    if kind == "H.TangentVector":
        return H.TangentVector(H.Point(r["P"]), r["V"])
    if kind == "H.Horosphere":
        return H.Horosphere(H.IdealPoint(r["C"]), H.Point(r["R"]))
    if kind == "H.HorosphereArc":
        return H.HorosphereArc(H.IdealPoint(r["C"]), H.Point(r["P"]), H.Point(r["Q"]))
    if kind == "H.Hyperplane":
        return H.Hyperplane(r["N"])
    if kind == "H.Subspace":
        return H.Subspace(r["X"])
    if kind == "H.Isometry":
        return H.Isometry(r["M"], column_vectors=True)
    raise ValueError(kind)


def primary(kind, raw):
    """the primary (proj_data) array the object must carry, up to the
    comparison rule of its kind, computed from the raw inputs alone.  None when
    the library is free to choose (hyperplane ideal basis)."""
    if kind in ("P.Point", "P.PointPair", "P.Polygon", "P.Simplex", "P.Subspace",
                "H.Point", "H.IdealPoint", "H.DualPoint", "H.PointPair",
                "H.Polygon", "H.Subspace"):
        return np.asarray(raw["X"])
    if kind == "P.Transformation":
        return np.asarray(raw["M"])
    if kind == "H.Isometry":
        return np.swapaxes(np.asarray(raw["M"]), -1, -2)
    if kind in ("H.Segment", "H.Geodesic"):
        return np.stack([raw["P"], raw["Q"]], axis=-2)
    if kind == "H.TangentVector":
        return np.stack([raw["P"], raw["V"]], axis=-2)
    if kind == "H.Horosphere":
        return np.stack([raw["C"], raw["R"]], axis=-2)
    if kind == "H.HorosphereArc":
        return np.stack([raw["C"], raw["P"], raw["Q"]], axis=-2)
    return None


def row_matrix(tkind, traw):
    """the row-convention matrix (acting on row vectors on the right) of a
    transformation given by raw inputs."""
    if tkind == "P.Transformation":
        return np.asarray(traw["M"])
    return np.swapaxes(np.asarray(traw["M"]), -1, -2)


def compare_primary(kind, got, want):
    """deviation between two primary arrays under the kind's rule."""
    cmpk = KINDS[kind][4]
    if cmpk == "matrix":
        return rp.max_mat_dev(got, want)
    if cmpk == "tangent":
        return rp.tangent_dev(got, want)
    return rp.max_row_dev(got, want)


def compare_aux(kind, got, want):
    auxk = KINDS[kind][3]
    if got is None or want is None:
        return 0.0 if (got is None and want is None) else np.inf
    if auxk == "tangent":
        # derived data: both sides must already be the projected vector
        return rp.tangent_dev(got, want, project=(False, False))
    return rp.max_row_dev(got, want)


def reference_aux_dev(kind, obj_proj, obj_aux):
    """deviation of stored auxiliary data from the *reference formula* applied
    to the stored primary data (independent of the library):
    edges = consecutive vertex pairs; ideal = chord/sphere intersection
    (unordered); tangent = Minkowski projection of the vector."""
    auxk = KINDS[kind][3]
    if auxk is None:
        return 0.0 if obj_aux is None else np.inf
    if obj_aux is None:
        return np.inf
    pd = np.asarray(obj_proj)
    if auxk == "edges":
        return rp.max_row_dev(obj_aux, rp.polygon_edges(pd))
    if auxk == "ideal":
        want = rh.klein_to_proj(rp.segment_ideal_klein(pd[..., 0, :], pd[..., 1, :]))
        return rp.unordered_pair_dev(obj_aux, want)
    if auxk == "tangent":
        # stored (point, projected vector) against the reference projection of
        # the stored primary (point, raw vector)
        return rp.tangent_dev(obj_aux, pd, project=(False, True))
    raise ValueError(auxk)


def class_of(kind):
    from geometry_tools import projective as P, hyperbolic as H
    mod, name = kind.split(".")
    return getattr(P if mod == "P" else H, name)
