"""Runner: ``python -m gtmon.run C07 --tier quick|thorough [--replay P]``.

quick  : one process, the workloads' quick budgets.
thorough: N shard subprocesses (case index mod N), thorough budgets, merged.
Exit codes: 0 held, 1 violation (VIOLATION line), 2 inconclusive, 3 harness error.
"""
import os
import sys
import json
import time
import argparse
import importlib
import subprocess
import tempfile
import traceback

from . import core


class Workload:
    def __init__(self, name, fn, quick, thorough, doc=""):
        self.name = name
        self.fn = fn
        self.quick = quick
        self.thorough = thorough
        self.doc = doc

    def budget(self, tier):
        return self.quick if tier == "quick" else self.thorough


def load_prop(prop):
    return importlib.import_module("gtmon.props.%s" % prop.lower())


def run_case(run, mod, wl, idx):
    run.current = (wl.name, idx)
    run.current_case = None
    rng = run.rng(wl.name, idx)
    try:
        wl.fn(run, rng, idx)
    except Exception as e:
        tb = e.__traceback__
        text = "".join(traceback.format_exception(type(e), e, tb))
        if core.raised_in_harness(tb):
            run.harness_error("workload %s[%d]" % (wl.name, idx), e)
        else:
            where = core.lib_frame_of(tb)
            m = run.monitor("no-unexpected-exception", deciding=False)
            m.fail("exception:%s@%s" % (type(e).__name__, where),
                   "workload %s[%d]: library raised %s: %s on an in-domain input"
                   % (wl.name, idx, type(e).__name__, str(e)[:200]), tb=text)
    finally:
        run.cases_run[wl.name] = run.cases_run.get(wl.name, 0) + 1
        run.current = None


def run_shard(prop, tier, seed, shard, only=None):
    """Run this shard's share of all workloads in-process; returns the partial."""
    from . import reach, sanit
    core.load_repo()
    run = core.Run(prop, tier, seed, shard)
    mod = load_prop(prop)
    if os.environ.get("GTMON_NO_REACH") != "1":
        reach.start()
    sanit.start_warnings()
    sanit.start_fp()
    try:
        mod.setup(run)
    except Exception as e:
        run.harness_error("setup", e)
        return run.partial()
    i, n = shard
    for wl in mod.WORKLOADS:
        total = wl.budget(tier)
        if only is not None:
            indices = [ix for (w, ix) in only if w == wl.name]
        else:
            indices = [ix for ix in range(total) if ix % n == i]
        for idx in indices:
            run_case(run, mod, wl, idx)
    if hasattr(mod, "finalize"):
        run.current = ("finalize", 0)
        try:
            mod.finalize(run)
        except Exception as e:
            run.harness_error("finalize", e)
        run.current = None
    chg = sanit.changed_defaults()
    if chg:
        run.extra["shared_defaults_changed"] = {c: 1 for c in chg}
    run.extra["reach_hits"] = reach.hits_by_file()
    run.extra["fp_events"] = dict(sanit.fp_events)
    run.extra["warning_events"] = dict(sanit.warn_events)
    reach.stop()
    return run.partial()


def finish(prop, tier, seed, merged, t0, replaying=False):
    from . import reach
    mod = load_prop(prop)
    hits = merged["extra"].pop("reach_hits", {})
    anchors = getattr(mod, "ANCHORS", [])
    required = getattr(mod, "REQUIRED", [])
    if os.environ.get("GTMON_NO_REACH") != "1" and not replaying:
        rep, missing = reach.report(anchors, required, hits=hits)
        merged["extra"]["reach"] = rep
        for m in missing:
            merged["inconclusive"].append("required statement unreached: " + m)
    # every workload must have produced at least one case
    if not replaying:
        for wl in mod.WORKLOADS:
            if wl.budget(tier) > 0 and merged["cases_run"].get(wl.name, 0) == 0:
                merged["inconclusive"].append("workload %s ran no case" % wl.name)
    if replaying:
        for m in merged["monitors"].values():
            m["deciding"] = False
    return core.conclude(
        prop, tier, seed, merged, getattr(mod, "RULE", ""), time.time() - t0,
        assumptions=getattr(mod, "ASSUMPTIONS", []),
        exhaustive=getattr(mod, "EXHAUSTIVE", {}).get(tier) if hasattr(mod, "EXHAUSTIVE") else None,
        evidence_dir=os.environ.get("GTMON_EVIDENCE_DIR"),
        replay_dir=os.environ.get("GTMON_REPLAY_DIR"))


def main(argv=None):
    ap = argparse.ArgumentParser()
    ap.add_argument("prop")
    ap.add_argument("--tier", default=os.environ.get("VERIF_TIER", "quick"),
                    choices=["quick", "thorough"])
    ap.add_argument("--seed", type=int,
                    default=int(os.environ.get("VERIF_SEED", "0") or 0))
    ap.add_argument("--shards", type=int,
                    default=int(os.environ.get("GTMON_SHARDS", "16")))
    ap.add_argument("--shard", default=None, help="i/n (internal)")
    ap.add_argument("--partial", default=None, help="write partial json here")
    ap.add_argument("--replay", default=None)
    args = ap.parse_args(argv)
    prop = args.prop.upper()
    t0 = time.time()

    if args.replay:
        rp = json.load(open(args.replay))
        prop = rp["property"]
        only = [(w["workload"], w["index"]) for w in rp["witnesses"]
                if w.get("workload") not in (None, "finalize")]
        if not only:
            print("replay file has no re-runnable witness (offline checker "
                  "finding); re-run the check itself")
            return 2
        tmpd = tempfile.mkdtemp(prefix="gtmon-replay-")
        os.environ.setdefault("GTMON_EVIDENCE_DIR", tmpd)
        os.environ.setdefault("GTMON_REPLAY_DIR", tmpd)     # never overwrite replays/
        part = run_shard(prop, rp["tier"], rp["seed"], (0, 1), only=only)
        merged = core.merge_partials([part])
        return finish(prop, rp["tier"], rp["seed"], merged, t0, replaying=True)

    if args.shard:
        i, n = (int(x) for x in args.shard.split("/"))
        part = run_shard(prop, args.tier, args.seed, (i, n))
        with open(args.partial, "w") as f:
            json.dump(part, f)
        return 0

    if args.tier == "quick" or args.shards <= 1:
        part = run_shard(prop, args.tier, args.seed, (0, 1))
        merged = core.merge_partials([part])
        return finish(prop, args.tier, args.seed, merged, t0)

    # thorough: shard subprocesses
    n = args.shards
    tmpd = tempfile.mkdtemp(prefix="gtmon-%s-" % prop)
    procs = []
    env = dict(os.environ)
    env["PYTHONHASHSEED"] = env.get("PYTHONHASHSEED", "0")
    for i in range(n):
        out = os.path.join(tmpd, "part%d.json" % i)
        log = open(os.path.join(tmpd, "log%d.txt" % i), "w")
        p = subprocess.Popen(
            [sys.executable, "-B", "-m", "gtmon.run", prop, "--tier", args.tier,
             "--seed", str(args.seed), "--shard", "%d/%d" % (i, n),
             "--partial", out],
            cwd=core.VERIF, env=env, stdout=log, stderr=subprocess.STDOUT)
        procs.append((p, out, log))
    limit = float(os.environ.get("GTMON_SHARD_TIMEOUT", "3000"))
    parts = []
    dead = []
    for i, (p, out, log) in enumerate(procs):
        try:
            p.wait(timeout=max(5.0, limit - (time.time() - t0)))
        except subprocess.TimeoutExpired:
            p.kill()
            dead.append("shard %d exceeded the wall-clock watchdog" % i)
        log.close()
        if os.path.exists(out):
            parts.append(json.load(open(out)))
        elif not dead or not dead[-1].startswith("shard %d " % i):
            tail = open(os.path.join(tmpd, "log%d.txt" % i)).read()[-2000:]
            parts.append({"monitors": {}, "violations": {}, "classes": {},
                          "samples": [], "inconclusive": [], "extra": {},
                          "cases_run": {}, "wall_s": 0.0,
                          "harness_errors": [{"where": "shard %d died (rc=%s)" % (i, p.returncode),
                                              "traceback": tail, "case": None}]})
    merged = core.merge_partials(parts)
    merged["inconclusive"].extend(dead)
    merged["extra"]["shards"] = n
    code = finish(prop, args.tier, args.seed, merged, t0)
    import shutil
    shutil.rmtree(tmpd, ignore_errors=True)
    return code


if __name__ == "__main__":
    sys.exit(main())
