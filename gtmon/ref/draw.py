"""Reference for what the drawing classes must add to the axes (C19).
Imports numpy, matplotlib.path (Bezier evaluation of the drawn paths) and the
reference geometry of ref.hyp / ref.circles; never imports geometry_tools.

A drawn path is judged at the artist level: its Bezier pieces are obtained with
Path.iter_bezier and evaluated at 5 parameters each; a sampled point x belongs to
the hyperbolic edge [A,B] when the reference betweenness defect
|d(A,x)+d(x,B)-d(A,B)| (ref.hyp distances in the model) is small.
"""
import collections
import numpy as np
from matplotlib.path import Path

from . import hyp as rh
from . import circles as rc

TS = np.linspace(0.0, 1.0, 5)


# -- transforms / charts -----------------------------------------------------------

def apply_columns(A, X):
    """rows of X transformed by the column-convention matrix A: x -> A x."""
    return np.asarray(X, dtype=float) @ np.asarray(A, dtype=float).T


def affine_chart(X, i):
    X = np.asarray(X, dtype=float)
    keep = [j for j in range(X.shape[-1]) if j != i]
    with np.errstate(all="ignore"):
        return X[..., keep] / X[..., [i]]


def chart_margin(X, i):
    X = np.asarray(X, dtype=float)
    with np.errstate(all="ignore"):
        return np.abs(X[..., i]) / np.linalg.norm(X, axis=-1)


# -- Bezier pieces ---------------------------------------------------------------------

Piece = collections.namedtuple("Piece", "code ctrl pts")


def pieces_of(path):
    """(number of MOVETO, [Piece...]) -- pieces are the non-MOVETO Bezier
    segments in drawing order, pts = samples at the 5 parameters TS."""
    out = []
    moves = 0
    for bez, code in path.iter_bezier():
        if code == Path.MOVETO:
            moves += 1
            continue
        ctrl = np.asarray(bez.control_points, dtype=float)
        pts = np.asarray(bez(TS), dtype=float)
        out.append(Piece(int(code), ctrl, pts))
    return moves, out


def is_curve(piece):
    return piece.code in (Path.CURVE3, Path.CURVE4)


def winding(pts, c):
    """sum of cross products of consecutive radius vectors: > 0 counter-clockwise."""
    v = pts - c
    return float(np.sum(v[:-1, 0] * v[1:, 1] - v[:-1, 1] * v[1:, 0]))


def conf_factor(x, model):
    x = np.asarray(x, dtype=float)
    with np.errstate(all="ignore"):
        if model == "poincare":
            return 2.0 / np.clip(1.0 - np.sum(x * x, axis=-1), 1e-300, None)
        return 1.0 / np.clip(x[..., -1], 1e-300, None)


# -- hyperbolic polygon paths -----------------------------------------------------------

class PolyReport:
    def __init__(self):
        self.problems = []          # (key fragment, text)
        self.branches = collections.Counter()
        self.max_between = 0.0      # normalised by the tolerance
        self.max_node = 0.0         # normalised by the tolerance
        self.edges = 0
        self.ill_conditioned = False

    def bad(self, key, text):
        self.problems.append((key, text))


def check_polygon_path(path, K, model, threshold, view=None, between_tol=1e-4,
                       node_tol=1e-6):
    """path: matplotlib Path of one drawn polygon; K: (nv,2) Klein coordinates of
    the (transformed) vertices; model 'poincare'/'halfspace'.  view =
    (left_infinity, right_infinity) of the half-plane drawing."""
    rep = PolyReport()
    K = np.asarray(K, dtype=float)
    nv = K.shape[0]
    W = rc.model_of_klein(K, model)
    moves, pcs = pieces_of(path)
    codes = path.codes
    if moves != 1 or (codes is not None and codes[0] != Path.MOVETO):
        rep.bad("not-one-continuous-path", "the path has %d MOVETO codes" % moves)
        return rep
    if not np.all(np.isfinite(path.vertices)):
        rep.bad("non-finite-path", "the path has non-finite vertices")
        return rep
    scale = 1.0 + np.max(np.abs(W))
    # node tolerance per edge: the library's arc end points inherit the error of
    # its circle (Poincare eps/sep^2; half-plane: square-root rule at ideal
    # points, ~1.5e-8/sep), times the radius
    Kn = np.roll(K, -1, axis=0)
    with np.errstate(all="ignore"):
        sep = np.linalg.norm(Kn - K, axis=-1)
        c_all, r_all = rc.geodesic_circle(K, Kn, model)
        t_on = (1e-7 + 1e-13 / sep ** 2) if model == "poincare" else (3e-5 + 3e-7 / sep)
        r_eff = np.where(np.isfinite(r_all), np.minimum(r_all, 2.0 * threshold), 2.0 * threshold)
        ntol_edge = node_tol * scale + 2.0 * t_on * r_eff
    ntol_vertex = np.maximum(ntol_edge, np.roll(ntol_edge, 1))     # at vertex j
    elen = np.linalg.norm(np.roll(W, -1, axis=0) - W, axis=-1)
    if np.any(ntol_vertex > 0.1 * np.minimum(elen, np.roll(elen, 1))):
        rep.ill_conditioned = True      # node tolerance comparable to an edge's length
        return rep
    ntol = float(np.max(ntol_vertex))
    start = np.asarray(path.vertices[0], dtype=float)
    dist0 = np.linalg.norm(W - start, axis=-1)
    j0 = int(np.argmin(dist0))
    rep.max_node = max(rep.max_node, float(dist0[j0] / ntol))
    if dist0[j0] > ntol:
        rep.bad("does-not-start-at-a-vertex",
                "the path starts at %r, %.3g away from the nearest vertex" % (start.tolist(), dist0[j0]))
        return rep
    k = 0
    prev_end = start
    prev_hs_straight = False
    lam_v = conf_factor(W, model)
    for step in range(nv):
        j = (j0 + step) % nv
        jn = (j + 1) % nv
        A, B = W[j], W[jn]
        c_ref, r_ref = c_all[j], r_all[j]
        ntol = float(ntol_vertex[j])          # joins / start at vertex j
        etol = float(ntol_edge[j])            # this edge's own pieces
        big = (not np.isfinite(r_ref)) or r_ref >= threshold * (1.0 - 1e-6)
        # tolerance of the edge: matplotlib's Bezier arc error is second order in
        # betweenness; near the boundary the conformal factor amplifies it
        lam = float(max(lam_v[j], lam_v[jn]))
        btol = max(between_tol * max(1.0, 0.1 * lam), 2.5 * float(t_on[j] * r_eff[j]) * lam)
        # -- joins (zero length, or from the end of a half-plane substitute)
        while k < len(pcs) and not is_curve(pcs[k]):
            a, b = pcs[k].ctrl[0], pcs[k].ctrl[-1]
            if np.linalg.norm(b - A) <= ntol and (np.linalg.norm(a - b) <= ntol or prev_hs_straight):
                k += 1
                prev_end = b
                prev_hs_straight = False
                continue
            break
        if k >= len(pcs):
            rep.bad("path-ends-early", "the path ends before edge %d of %d" % (step, nv))
            return rep
        prev_hs_straight = False
        first = pcs[k]
        d_start = float(np.linalg.norm(first.ctrl[0] - A))
        rep.max_node = max(rep.max_node, d_start / ntol)
        if d_start > max(ntol, etol):
            rep.bad("edge-does-not-start-at-its-vertex",
                    "edge %d: the drawn piece starts %.3g away from vertex %d (a jump "
                    "or a wrongly oriented arc)" % (j, d_start, j))
            return rep
        if is_curve(first):
            pts = []
            while k < len(pcs) and is_curve(pcs[k]):
                pts.append(pcs[k].pts)
                endp = pcs[k].ctrl[-1]
                k += 1
                # the edge ends at the first node that is at B and from which
                # the run of curves (if it continues) moves away again
                if np.linalg.norm(endp - B) <= etol and not (
                        k < len(pcs) and is_curve(pcs[k]) and
                        np.linalg.norm(pcs[k].ctrl[-1] - B) < np.linalg.norm(endp - B)):
                    break
            pts = np.concatenate(pts, axis=0)
            d_end = float(np.linalg.norm(pts[-1] - B))
            rep.max_node = max(rep.max_node, d_end / etol)
            if d_end > etol:
                rep.bad("arc-does-not-end-at-next-vertex",
                        "edge %d: the arc ends %.3g away from vertex %d" % (j, d_end, jn))
                return rep
            defect = rc.between_defect(A, B, pts[None], model)[0]
            worst = float(np.max(defect))
            rep.max_between = max(rep.max_between, worst / btol)
            if not worst <= btol:
                rep.bad("sampled-point-off-the-edge",
                        "edge %d: a sampled point of the drawn arc is outside the model or "
                        "off the hyperbolic edge (betweenness defect %.3g > %.3g)"
                        % (j, worst, btol))
                return rep
            with np.errstate(all="ignore"):
                prog = rc.model_dist(A[None], pts, model)
            if np.any(np.diff(prog) < -btol):
                rep.bad("edge-not-traversed-monotonically",
                        "edge %d: the drawn arc moves back along the edge" % j)
                return rep
            if np.isfinite(r_ref):
                rep.branches["reversed-arc" if winding(pts, c_ref) < 0 else "arc"] += 1
            else:
                rep.branches["arc"] += 1
            prev_end = pts[-1]
        else:
            a, b = first.ctrl[0], first.ctrl[-1]
            k += 1
            S = np.array([A[0], B[1]])
            on_edge = float(np.max(rc.between_defect(A, B, first.pts[None], model)[0]))
            if model == "halfspace" and big and np.linalg.norm(b - S) <= etol:
                if view is not None and not (view[0] <= A[0] <= view[1]):
                    rep.bad("substitute-from-offscreen-endpoint",
                            "edge %d: vertical substitute starts off-screen" % j)
                    return rep
                rep.branches["straight"] += 1
                prev_hs_straight = True
            elif np.linalg.norm(b - B) <= etol:
                if on_edge <= btol:
                    rep.max_between = max(rep.max_between, on_edge / btol)
                    rep.branches["straight" if big else "straight-within-tolerance"] += 1
                elif big and model == "poincare":
                    rep.branches["straight"] += 1
                else:
                    rep.bad("straight-line-below-threshold",
                            "edge %d: a straight line is drawn although the edge's circle has "
                            "radius %.4g (threshold %g) and the chord is off the edge (defect %.3g)"
                            % (j, r_ref, threshold, on_edge))
                    return rep
            elif model == "halfspace" and np.linalg.norm(b - S) <= etol:
                if not big and on_edge > btol:
                    rep.bad("straight-line-below-threshold",
                            "edge %d: the vertical substitute is drawn although the edge's "
                            "circle has radius %.4g < %g" % (j, r_ref, threshold))
                    return rep
                if view is not None and not (view[0] <= A[0] <= view[1]):
                    rep.bad("substitute-from-offscreen-endpoint",
                            "edge %d: vertical substitute starts off-screen" % j)
                    return rep
                rep.branches["straight"] += 1
                prev_hs_straight = True
            else:
                rep.bad("line-is-neither-edge-nor-substitute",
                        "edge %d: a line piece from %r to %r is neither the chord between the "
                        "vertices nor the allowed substitute" % (j, a.tolist(), b.tolist()))
                return rep
            prev_end = b
        rep.edges += 1
    # trailing pieces: only joins back to the first vertex
    while k < len(pcs):
        a, b = pcs[k].ctrl[0], pcs[k].ctrl[-1]
        if (not is_curve(pcs[k])) and np.linalg.norm(b - W[j0]) <= ntol and \
                (np.linalg.norm(a - b) <= ntol or prev_hs_straight):
            k += 1
            prev_hs_straight = False
            continue
        rep.bad("extra-path-pieces", "the path continues after the last edge (%d pieces left)"
                % (len(pcs) - k))
        return rep
    return rep


def edge_radii(K, model):
    K = np.asarray(K, dtype=float)
    with np.errstate(all="ignore"):
        c, r = rc.geodesic_circle(K, np.roll(K, -1, axis=0), model)
    return r


# -- arcs (Arc patches) ---------------------------------------------------------------------

def check_arc(center, width, height, angle, theta1, theta2, c_ref, r_ref, pm, qm,
              interior, model, fracs=(0.03, 0.2, 0.4, 0.6, 0.8, 0.97)):
    """residuals of an Arc patch against the reference circle (c_ref, r_ref) and
    the endpoints pm, qm (model coordinates): dict of name -> residual, all
    relative to the radius except 'between' (hyperbolic) and 'inside'."""
    c = np.asarray(center, dtype=float)
    r = 0.5 * float(width)
    th = np.radians([theta1, theta2])
    res = {}
    res["centre"] = float(np.linalg.norm(c - c_ref) / r_ref)
    res["radius"] = float(max(abs(r - r_ref), abs(0.5 * float(height) - r_ref)) / r_ref)
    res["angle"] = float(abs(angle))
    ends = rc.arc_points(c, np.asarray(r), th, [0.0, 1.0])
    res["ends"] = float(rc.unordered_pair_error(ends, np.stack([pm, qm])) / r_ref)
    X = rc.arc_points(c, np.asarray(r), th, list(fracs))
    res["inside"] = 0.0 if bool(np.all(rc.inside_model(X, model))) else 1.0
    if interior:
        res["between"] = float(np.max(rc.between_defect(pm, qm, X, model)))
    return res


# -- projective polygons clipped at a chart's line at infinity ---------------------------------
#
# A projective polygon with homogeneous vertices X_0..X_{nv-1} has the edges
# {s X_i + t X_{i+1} : s, t >= 0} (the segment singled out by the given
# representatives; a common sign change of all of them changes nothing).  In the
# affine chart x_i != 0 a maximal cyclic run of vertices on which x_i keeps its
# sign is one piece of the polygon: its boundary comes in from infinity along
# the line through the run's first vertex v_1 and its predecessor w_0 (which lies
# on the other side of the line at infinity) -- on the ray from v_1 *away* from
# w_0, because s a + t b with a_i > 0 > b_i has chart coordinates
# aff(a) + mu (aff(b) - aff(a)), mu <= 0 -- walks v_1 .. v_m, and leaves along the
# ray from v_m away from the successor w_{m+1}.  (Seeded change C19-r4-1: the
# pieces of every polygon of a composite cut at the first polygon's switch index.)

def sign_runs(X, i):
    """X (nv, 3): maximal cyclic runs of vertex indices on which x_i keeps its
    sign, each in cyclic order.  One run = the polygon lies in the chart; 2k runs
    = it crosses the chart's line at infinity 2k times."""
    X = np.asarray(X, dtype=float)
    s = np.sign(X[:, i])
    nv = len(s)
    starts = [j for j in range(nv) if s[j] != s[j - 1]]
    if not starts:
        return [list(range(nv))]
    runs = []
    for a, j in enumerate(starts):
        nxt = starts[(a + 1) % len(starts)]
        m = (nxt - j) % nv or nv
        runs.append([(j + t) % nv for t in range(m)])
    return runs


def clipped_piece(X, run, i):
    """(V, w_prev, w_next): chart coordinates of the run's vertices in order, of
    the vertex before the run and of the vertex after it."""
    W = affine_chart(X, i)
    nv = len(W)
    return W[run], W[(run[0] - 1) % nv], W[(run[-1] + 1) % nv]


def open_vertices(xy):
    """patch vertices without the closing repetition of the first one."""
    xy = np.asarray(xy, dtype=float)
    if len(xy) > 1 and np.array_equal(xy[0], xy[-1]):
        xy = xy[:-1]
    return xy


def piece_alignment(xy, V, tol=1e-9):
    """rotation / orientation of the open vertex list xy that starts with the
    vertices V in order: returns the re-ordered list or None.  The remaining
    entries (from the one after V[-1] round to the one before V[0]) are the
    artificial vertices that close the piece off screen."""
    n, m = len(xy), len(V)
    if n < m:
        return None
    scale = 1.0 + np.abs(V)
    for seq in (xy, xy[::-1]):
        for r in range(n):
            cand = np.roll(seq, -r, axis=0)
            if np.all(np.abs(cand[:m] - V) <= tol * scale):
                return cand
    return None


def ray_defect(d, v, w):
    """(distance of d from the line through v and w relative to |d - v|,
    position of d along the direction v - w): d is on the ray from v away from
    w when the first is ~0 and the second > 0."""
    u = (v - w) / np.linalg.norm(v - w)
    x = d - v
    along = float(x @ u)
    off = float(abs(x[0] * u[1] - x[1] * u[0]))
    return off / max(float(np.linalg.norm(x)), 1e-300), along


# -- coverage of a convex projective polygon inside the view ------------------------------------
#
# For representatives X_0..X_{nv-1} that span a *convex* cone in cyclic order
# (det(X_i, X_{i+1}, X_k) has one sign for all i and all k not in {i, i+1}) the
# projective polygon is the projectivisation of that cone: the chart point g
# belongs to it iff y = (g inserted at the chart index, with 1) lies in the cone
# or in its negative, i.e. iff det(X_i, X_{i+1}, y) has one sign for all i.
# Independent of how the drawing code cuts the polygon into pieces.  (Seeded
# change C19-r5-2: artificial vertices moved by the view diameter only, so that
# they land inside the window when the polygon's vertex is far outside it.)

def _unit(v):
    return v / np.linalg.norm(v, axis=-1, keepdims=True)


def convex_cone_orientation(X, margin=1e-9):
    """+1 / -1 when the representatives span a convex cone in cyclic order
    (all facet determinants of one sign, clearly non-zero), else 0."""
    X = _unit(np.asarray(X, dtype=float))
    nv = len(X)
    if nv < 3:
        return 0
    signs = []
    for i in range(nv):
        nrm = np.cross(X[i], X[(i + 1) % nv])
        ln = np.linalg.norm(nrm)
        if ln < margin:
            return 0
        for k in range(nv):
            if k in (i, (i + 1) % nv):
                continue
            d = float(nrm @ X[k]) / ln
            if abs(d) < margin:
                return 0
            signs.append(d > 0)
    if all(signs):
        return 1
    if not any(signs):
        return -1
    return 0


def cone_membership(X, G, i):
    """X (nv,3) convex cone in cyclic order, G (m,2) chart points of chart i.
    Returns (inside, clearance): inside[k] True when G[k] is in the projective
    polygon; clearance[k] = smallest |sine| of the angle between the point's
    vector and a facet plane (small = too close to an edge to call)."""
    X = _unit(np.asarray(X, dtype=float))
    G = np.asarray(G, dtype=float)
    Y = _unit(np.insert(G, i, 1.0, axis=-1))
    N = _unit(np.cross(X, np.roll(X, -1, axis=0)))        # facet normals
    S = Y @ N.T                                           # (m, nv)
    inside = np.all(S > 0, axis=-1) | np.all(S < 0, axis=-1)
    return inside, np.min(np.abs(S), axis=-1)


def view_grid(xlim, ylim, n=15):
    """n x n points strictly inside the view rectangle."""
    xs = np.linspace(xlim[0], xlim[1], n + 2)[1:-1]
    ys = np.linspace(ylim[0], ylim[1], n + 2)[1:-1]
    gx, gy = np.meshgrid(xs, ys, indexing="ij")
    return np.stack([gx.ravel(), gy.ravel()], axis=-1)
