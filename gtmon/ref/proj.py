"""Independent reference for projective data and for unit-aware batched
products (numpy only; never imports geometry_tools).  Used by C03, C04, C11.

Conventions (those of the property texts):
* a composite array is ``outer shape + unit shape``; the last ``unit`` axes
  are one unit object;
* projective data is compared *up to a non-zero scalar* -- per unit row for
  point-like data, per matrix for transformations (sign included);
* a tangent vector (p, v) is the same as (s p, t v) iff s t > 0;
* pairwise application: object axes first, transformation axes second, entry
  [i][j] = transformation j applied to unit i; pairwise_reversed: the reverse.
"""
import numpy as np

from . import hyp as rh

MODES = ("elementwise", "pairwise", "pairwise_reversed")


# ---------------------------------------------------------------------------
# projective comparison

def row_dev(A, B):
    """per-row deviation of A from the line spanned by the matching row of B:
    |a - lam b| / |a| with the least-squares lam (complex allowed).  inf for
    shape mismatch, non-finite or zero rows."""
    A = np.asarray(A)
    B = np.asarray(B)
    if A.shape != B.shape:
        return np.array(np.inf)
    A = A.astype(complex)
    B = B.astype(complex)
    with np.errstate(all="ignore"):
        bb = np.sum(np.abs(B) ** 2, axis=-1)
        aa = np.sum(np.abs(A) ** 2, axis=-1)
        ab = np.sum(A * np.conj(B), axis=-1)
        # |a - lam b|^2 / |a|^2 = 1 - |<a,b>|^2/(|a|^2 |b|^2): computed from the
        # residual itself (no cancellation)
        lam = ab / bb
        res = np.linalg.norm(A - lam[..., None] * B, axis=-1) / np.sqrt(aa)
        bad = ~np.isfinite(res) | (aa == 0) | (bb == 0)
    return np.where(bad, np.inf, res)


def max_row_dev(A, B):
    d = row_dev(A, B)
    return float(np.max(d)) if np.size(d) else 0.0


def mat_dev(A, B):
    """per-matrix deviation up to one scalar per matrix."""
    A = np.asarray(A)
    B = np.asarray(B)
    if A.shape != B.shape or A.ndim < 2:
        return np.array(np.inf)
    return row_dev(A.reshape(A.shape[:-2] + (-1,)), B.reshape(B.shape[:-2] + (-1,)))


def max_mat_dev(A, B):
    d = mat_dev(A, B)
    return float(np.max(d)) if np.size(d) else 0.0


def scalars(A, B):
    """least-squares lam with a ~ lam b, per row."""
    A = np.asarray(A).astype(complex)
    B = np.asarray(B).astype(complex)
    with np.errstate(all="ignore"):
        return np.sum(A * np.conj(B), axis=-1) / np.sum(np.abs(B) ** 2, axis=-1)


def tangent_dev(TA, TB, project=(True, True)):
    """arrays (..., 2, d): row 0 a point, row 1 a vector at it.  Deviation of
    the two as tangent vectors: rows projectively equal and the two scalars of
    equal sign (s t > 0).  project[k] says whether side k's vector is first
    projected to the tangent space at its point by the reference formula (so
    that (p, v) and (p, v + c p) compare equal): True for primary data, whose
    vector is only given modulo the point; False for *derived* data, which must
    already be the projected vector."""
    TA = np.asarray(TA, dtype=float)
    TB = np.asarray(TB, dtype=float)
    if TA.shape != TB.shape or TA.ndim < 2 or TA.shape[-2] != 2:
        return np.inf
    pa, pb = TA[..., 0, :], TB[..., 0, :]
    with np.errstate(all="ignore"):
        va = rh.tangent_project(pa, TA[..., 1, :]) if project[0] else TA[..., 1, :]
        vb = rh.tangent_project(pb, TB[..., 1, :]) if project[1] else TB[..., 1, :]
    dp = row_dev(pa, pb)
    dv = row_dev(va, vb)
    s = np.real(scalars(pa, pb))
    t = np.real(scalars(va, vb))
    dev = np.maximum(dp, dv)
    dev = np.where(s * t > 0, dev, np.inf)
    return float(np.max(dev)) if np.size(dev) else 0.0


def unordered_pair_dev(A, B):
    """(..., 2, d) pairs of projective points compared as unordered pairs."""
    A = np.asarray(A)
    B = np.asarray(B)
    if A.shape != B.shape:
        return np.inf
    d1 = np.max(row_dev(A, B), axis=-1)
    d2 = np.max(row_dev(A, B[..., ::-1, :]), axis=-1)
    d = np.minimum(d1, d2)
    return float(np.max(d)) if np.size(d) else 0.0


def rel_dev(a, b):
    """plain numeric deviation |a-b|/(1+|b|) (max); inf on shape mismatch/NaN."""
    a = np.asarray(a)
    b = np.asarray(b)
    if a.shape != b.shape:
        return np.inf
    if a.size == 0:
        return 0.0
    with np.errstate(all="ignore"):
        d = np.abs(a.astype(complex) - b.astype(complex)) / (1.0 + np.abs(b.astype(complex)))
    if not np.all(np.isfinite(d)):
        # identical infinities / NaN at identical places are "equal"
        same = (np.isnan(a.astype(complex)) & np.isnan(b.astype(complex))) | (a == b)
        d = np.where(same, 0.0, d)
        if not np.all(np.isfinite(d)):
            return np.inf
    return float(np.max(d))


# ---------------------------------------------------------------------------
# composite shapes and index maps

def result_shape(oshape, tshape, mode):
    """composite shape of `transformations(tshape) applied to objects(oshape)`.
    Raises ValueError when elementwise shapes do not broadcast."""
    oshape = tuple(oshape)
    tshape = tuple(tshape)
    if mode == "elementwise":
        return tuple(np.broadcast_shapes(oshape, tshape))
    if mode == "pairwise":
        return oshape + tshape
    if mode == "pairwise_reversed":
        return tshape + oshape
    raise ValueError(mode)


def _bidx(ridx, shape, rlen):
    """index into an operand of outer shape `shape` for the broadcast result
    index ridx (right-aligned, size-1 axes pinned to 0)."""
    off = rlen - len(shape)
    return tuple(0 if shape[k] == 1 else ridx[off + k] for k in range(len(shape)))


def operand_indices(oshape, tshape, mode):
    """yield (result index, object index, transformation index)."""
    oshape = tuple(oshape)
    tshape = tuple(tshape)
    rshape = result_shape(oshape, tshape, mode)
    for ridx in np.ndindex(*rshape):
        if mode == "elementwise":
            yield ridx, _bidx(ridx, oshape, len(rshape)), _bidx(ridx, tshape, len(rshape))
        elif mode == "pairwise":
            yield ridx, ridx[:len(oshape)], ridx[len(oshape):]
        else:
            yield ridx, ridx[len(tshape):], ridx[:len(tshape)]


# ---------------------------------------------------------------------------
# explicit-loop reference for the unit-aware batched product

def loop_matrix_product(a1, a2, u1=2, u2=2, mode="elementwise", max_units=None,
                        rng=None):
    """result of `matrix_product(a1, a2, u1, u2, broadcast=mode)` by the
    property's definition: for every outer index, plain ``@`` of the two unit
    slices.  Returns (expected array, mask of computed outer indices).  With
    max_units set and more outer indices than that, only a random subset is
    computed (mask tells which)."""
    a1 = np.asarray(a1)
    a2 = np.asarray(a2)
    if a1.ndim < u1 or a2.ndim < u2:
        raise ValueError("array has fewer axes than its unit rank")
    o1 = a1.shape[:a1.ndim - u1]
    o2 = a2.shape[:a2.ndim - u2]
    rshape = result_shape(o1, o2, mode)
    total = int(np.prod(rshape, dtype=np.int64)) if rshape else 1
    chosen = None
    if max_units is not None and total > max_units:
        r = rng if rng is not None else np.random.default_rng(0)
        chosen = set(r.choice(total, size=max_units, replace=False).tolist())
    out = None
    mask = np.zeros(rshape, dtype=bool)
    for k, (ridx, i1, i2) in enumerate(operand_indices(o1, o2, mode)):
        if chosen is not None and k not in chosen:
            continue
        z = a1[i1] @ a2[i2]
        z = np.asarray(z)
        if out is None:
            out = np.zeros(rshape + z.shape, dtype=z.dtype)
        out[ridx] = z
        mask[ridx] = True
    return out, mask


def loop_broadcast_match(a1, a2, unit):
    """(u1, u2) of `broadcast_match(a1, a2, unit)` by its documented
    contract: outer shapes (N..)+(M..), u1[i][j] = a1[i], u2[i][j] = a2[j]."""
    a1 = np.asarray(a1)
    a2 = np.asarray(a2)
    o1 = a1.shape[:a1.ndim - unit]
    o2 = a2.shape[:a2.ndim - unit]
    e1 = np.zeros(o1 + o2 + a1.shape[a1.ndim - unit:], dtype=a1.dtype)
    e2 = np.zeros(o1 + o2 + a2.shape[a2.ndim - unit:], dtype=a2.dtype)
    for i in np.ndindex(*o1):
        for j in np.ndindex(*o2):
            e1[i + j] = a1[i]
            e2[i + j] = a2[j]
    return e1, e2


# ---------------------------------------------------------------------------
# random matrices, words

def rand_invertible(rng, n, shape=(), cx=False, cond_max=50.0):
    """general (non-symmetric, non-commuting) invertible n x n matrices with
    condition number <= cond_max."""
    shape = tuple(shape)
    out = np.empty(shape + (n, n), dtype=complex if cx else float)
    for ind in np.ndindex(*shape):
        while True:
            M = rng.normal(size=(n, n))
            if cx:
                M = M + 1j * rng.normal(size=(n, n))
            if np.linalg.cond(M) <= cond_max:
                break
        out[ind] = M
    return out


def random_word(rng, letters, length):
    """freely arbitrary (not necessarily reduced) word over letters and
    their capitals."""
    alphabet = list(letters) + [l.upper() for l in letters]
    return "".join(alphabet[int(i)] for i in rng.integers(0, len(alphabet), size=length))


def word_matrix(gens, word):
    """product, left to right, of the column-convention generator matrices as
    assigned (capital letter = inverse of the assigned matrix).  Also returns
    the product of the factors' spectral norms (conditioning scale)."""
    n = next(iter(gens.values())).shape[-1]
    M = np.eye(n, dtype=next(iter(gens.values())).dtype)
    scale = 1.0
    for ch in word:
        if ch in gens:
            G = gens[ch]
        else:
            G = np.linalg.inv(gens[ch.lower()])
        M = M @ G
        scale *= float(np.linalg.norm(G, 2))
    return M, scale


# ---------------------------------------------------------------------------
# Minkowski-form classification of matrices (row or column convention alike)

def conformal_residual(M):
    """relative residual of M J M^T = c J for the best c (c>0 required):
    0 for scalar multiples of elements of O(n,1).  inf when c <= 0."""
    M = np.asarray(M)
    if np.iscomplexobj(M):
        if np.max(np.abs(M.imag)) > 1e-12 * max(1.0, np.max(np.abs(M.real))):
            return np.full(M.shape[:-2], np.inf)
        M = M.real
    M = M.astype(float)
    j = rh.J(M.shape[-1])
    G = M @ j @ np.swapaxes(M, -1, -2)
    n = M.shape[-1]
    c = np.sum(G * j, axis=(-1, -2)) / n
    with np.errstate(all="ignore"):
        res = np.max(np.abs(G - c[..., None, None] * j), axis=(-1, -2)) / np.abs(c)
    return np.where(c > 0, res, np.inf)


# ---------------------------------------------------------------------------
# derived data, reference formulas

def polygon_edges(V):
    """(..., m, d) vertices -> (..., m, 2, d): edge k = (v_k, v_{k+1 mod m})."""
    V = np.asarray(V)
    return np.stack([V, np.roll(V, -1, axis=-2)], axis=-2)


def segment_ideal_klein(P, Q):
    """the two ideal points of the line through the interior points P, Q
    (homogeneous coordinates), as Klein coordinates (..., 2, n): intersection
    of the Klein chord with the unit sphere (a formula different from the
    library's quadratic in Minkowski products)."""
    kp = rh.proj_to_klein(np.asarray(P, dtype=float))
    kq = rh.proj_to_klein(np.asarray(Q, dtype=float))
    d = kq - kp
    a = np.sum(d * d, axis=-1)
    b = np.sum(kp * d, axis=-1)
    c = np.sum(kp * kp, axis=-1) - 1.0
    with np.errstate(all="ignore"):
        disc = np.sqrt(b * b - a * c)
        # cancellation-free roots of a t^2 + 2 b t + c = 0 (c < 0 < a)
        q = -(b + np.where(b >= 0, 1.0, -1.0) * disc)
        t1 = q / a
        t2 = c / q
    x1 = kp + t1[..., None] * d
    x2 = kp + t2[..., None] * d
    return np.stack([x1, x2], axis=-2)


def klein_sep(P, Q):
    """projective separation of two homogeneous vectors (sine of the
    Euclidean angle between the lines): conditioning of a segment's ideal
    endpoints is ~ 1/sep."""
    return row_dev(np.asarray(P, dtype=float), np.asarray(Q, dtype=float))
