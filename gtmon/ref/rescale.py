"""Independent reference geometry for the C12 rescaling workloads (numpy only;
never imports geometry_tools).  Conventions as in ref/hyp.py: form
J = diag(-1, 1, ..., 1), Klein coordinates k = x[1:] / x[0].

Every function here takes *Klein* coordinates or one fixed representative and
never sees the rescaled representatives handed to the library, so its value is
by construction the same for every choice of representatives.
"""
import numpy as np

from . import hyp as rh


def chord_ends(ka, kb):
    """the two boundary points of the Klein chord through ka, kb (..., n):
    returned as (..., 2, n); first the one beyond kb, then the one beyond ka."""
    ka = np.asarray(ka, dtype=float)
    kb = np.asarray(kb, dtype=float)
    dirv = kb - ka
    a_ = np.sum(dirv * dirv, axis=-1)
    b_ = 2 * np.sum(ka * dirv, axis=-1)
    c_ = np.sum(ka * ka, axis=-1) - 1
    disc = np.sqrt(np.clip(b_ * b_ - 4 * a_ * c_, 0, None))
    t1, t2 = (-b_ + disc) / (2 * a_), (-b_ - disc) / (2 * a_)
    return np.stack([ka + t1[..., None] * dirv, ka + t2[..., None] * dirv], axis=-2)


def horosphere_geodesic(kc, kref, kp, kq):
    """intersection of the horosphere centred at the ideal point kc through
    kref with the geodesic through kp, kq, on the hyperboloid: with null
    future vectors E1, E2 spanning the geodesic, x(y) = (y E1 + E2 / y) / N,
    N = sqrt(-2 <E1, E2>), and the horosphere is <x, C> = <R, C>: a quadratic
    in y.  Returns (klein points (..., 2, n), relative discriminant (...));
    the discriminant is <= 0 where the geodesic misses the horosphere."""
    ends = chord_ends(kp, kq)
    E1 = rh.klein_to_proj(ends[..., 0, :])
    E2 = rh.klein_to_proj(ends[..., 1, :])
    C = rh.klein_to_proj(kc)
    R = rh.hyperboloid_pos(rh.klein_to_proj(kref))
    N = np.sqrt(-2 * rh.mink(E1, E2))
    a, b, k = rh.mink(E1, C) / N, rh.mink(E2, C) / N, rh.mink(R, C)
    disc = k * k - 4 * a * b
    rel = disc / (k * k)
    root = np.sqrt(np.clip(disc, 0, None))
    out = []
    for s in (1.0, -1.0):
        y = (k + s * root) / (2 * a)
        out.append(rh.proj_to_klein(y[..., None] * E1 + E2 / y[..., None]))
    return np.stack(out, axis=-2), rel


def horosphere_poincare(kc, kref):
    """Euclidean centre and radius, in the Poincare ball, of the horosphere
    centred at the unit vector kc through the interior Klein point kref: the
    sphere tangent to the unit sphere at kc through x = poincare(kref):
    r = |x - u|^2 / (2 (1 - x.u))."""
    x = rh.klein_to_poincare(kref)
    r = np.sum((x - kc) ** 2, axis=-1) / (2 * (1 - np.sum(x * kc, axis=-1)))
    return kc * (1 - r)[..., None], r


def on_same_horosphere(kc, kp1, kq):
    """Klein coordinates of the point where the geodesic from kq towards the
    ideal point kc meets the horosphere centred at kc through kp1:
    h = a hq + b C with <h, C> = <h1, C>, <h, h> = -1."""
    C = rh.klein_to_proj(kc)
    h1 = rh.hyperboloid_pos(rh.klein_to_proj(kp1))
    hq = rh.hyperboloid_pos(rh.klein_to_proj(kq))
    a = rh.mink(h1, C) / rh.mink(hq, C)
    b = (a * a - 1) / (2 * a * rh.mink(hq, C))
    return rh.proj_to_klein(a[..., None] * hq + b[..., None] * C)


def minkowski_normal(E):
    """a vector Minkowski-orthogonal to the rows of E (..., k, n+1), k = n:
    n = J x for x spanning the Euclidean null space of E (from the SVD)."""
    E = np.asarray(E, dtype=float)
    _, _, vt = np.linalg.svd(E)
    x = vt[..., -1, :].copy()
    x[..., 0] *= -1
    return x


def reflect(nrm, V):
    """image of the vectors V (..., m, n+1) under the reflection across the
    hyperplane Minkowski-orthogonal to the spacelike vector nrm (..., n+1):
    v - 2 <v, n> / <n, n> n."""
    nrm = np.asarray(nrm, dtype=float)[..., None, :]
    V = np.asarray(V, dtype=float)
    return V - 2 * (rh.mink(V, nrm) / rh.mink(nrm, nrm))[..., None] * nrm


def hyperplane_poincare(nrm):
    """Poincare-ball sphere of the hyperplane n-perp (n spacelike, n0 != 0):
    orthogonal to the unit sphere with centre c = n[1:] / n0, r^2 = |c|^2 - 1."""
    nrm = np.asarray(nrm, dtype=float)
    c = nrm[..., 1:] / nrm[..., :1]
    return c, np.sqrt(np.clip(np.sum(c * c, axis=-1) - 1, 0, None))


def span_poincare(kE):
    """Poincare-ball sphere of the subspace spanned by the ideal points kE
    (..., k, n) (unit vectors): orthogonal to the unit sphere; with m the
    point of the affine span of kE closest to the origin (least squares),
    centre m / |m|^2 and radius sqrt(1 / |m|^2 - 1)."""
    kE = np.asarray(kE, dtype=float)
    base = kE[..., 0, :]
    D = kE[..., 1:, :] - kE[..., :1, :]
    # minimise |base + D^T t|: normal equations through lstsq per unit
    out_c = np.empty(base.shape)
    out_r = np.empty(base.shape[:-1])
    for ind in np.ndindex(*base.shape[:-1]):
        t = np.linalg.lstsq(D[ind].T, -base[ind], rcond=None)[0]
        m = base[ind] + D[ind].T @ t
        m2 = float(m @ m)
        out_c[ind] = m / m2 if m2 > 0 else np.inf
        out_r[ind] = np.sqrt(max(1 / m2 - 1, 0)) if m2 > 0 else np.inf
    return out_c, out_r


def span_m2(kE):
    """squared distance from the origin to the affine span of kE (how far the
    subspace is from passing through the origin, where its sphere degenerates)."""
    c, r = span_poincare(kE)
    with np.errstate(all="ignore"):
        return 1.0 / (1.0 + r * r)


def row_projector(A):
    """orthogonal projector onto the row space of A (..., k, n) (via QR of the
    transpose): the same matrix for every spanning set of the same subspace."""
    A = np.asarray(A, dtype=float)
    q, _ = np.linalg.qr(np.swapaxes(A, -1, -2))
    return q @ np.swapaxes(q, -1, -2)


def proj_defect(a, b):
    """max over units of |a - lam b| / |a| for the best scalar lam per unit
    (vectors along the last axis): 0 iff the same projective points."""
    a = np.asarray(a, dtype=float)
    b = np.asarray(b, dtype=float)
    lam = np.sum(a * b, axis=-1, keepdims=True) / np.sum(b * b, axis=-1, keepdims=True)
    with np.errstate(all="ignore"):
        return float(np.max(np.linalg.norm(a - lam * b, axis=-1) / np.linalg.norm(a, axis=-1)))


def angle_gap(t0, t1):
    """max |t0 - t1| modulo 2 pi."""
    return float(np.max(np.abs(np.angle(np.exp(1j * (np.asarray(t0, dtype=float) -
                                                     np.asarray(t1, dtype=float)))))))

