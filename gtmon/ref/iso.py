"""Independent reference code for isometries of H^n (numpy only; never imports
geometry_tools).  Used by C02 and C15.

Conventions as in ref/hyp.py: form J = diag(-1, 1, ..., 1) on R^(n+1).
Matrices named ``Mrow`` act on row vectors from the right (x -> x @ Mrow, the
library's storage convention for ``Transformation.proj_data``); matrices named
``A`` / built by the generators below act on column vectors.

Everything here uses formulas different from the library's eigen-decomposition
(`_fixpoint_data`, `from_reflection`): reflections are recognised by the rank
of I - R, fixed subspaces by SVD null spaces and the signature of the
restricted form, attracting points by power iteration.
"""
import numpy as np

from . import hyp as rh

EPS = np.finfo(float).eps


# -- small linear algebra ------------------------------------------------------

def minv(M):
    """inverse of a form-preserving matrix: J M^T J (no linear solve)."""
    M = np.asarray(M, dtype=float)
    j = np.ones(M.shape[-1])
    j[0] = -1.0
    return j[:, None] * np.swapaxes(M, -1, -2) * j[None, :]


def form_residual_both(M):
    """max of |M^T J M - J| and |M J M^T - J|, each relative to max|M|^2.  In exact
    arithmetic one vanishes iff the other does; for a rounded matrix they can differ by a
    factor |M|^2 (error on the left or on the right of the exact isometry), and the action
    on row vectors x -> x M sees the second one."""
    M = np.asarray(M, dtype=float)
    return np.maximum(rh.form_residual(M), rh.form_residual(np.swapaxes(M, -1, -2)))


def maxabs(M):
    return float(np.max(np.abs(np.asarray(M, dtype=float)))) if np.size(M) else 0.0


def qrel(P):
    """<x,x> / |x|^2 (projectively invariant, in [-1, 1])."""
    P = np.asarray(P, dtype=float)
    e = np.sum(P * P, axis=-1)
    with np.errstate(all="ignore"):
        return rh.mink_sq(P) / np.where(e == 0, 1.0, e)


def proj_dev(a, b):
    """per-vector projective deviation: min over sign of |a/|a| -+ b/|b||_inf.
    NaN-safe: a zero or non-finite vector gives inf."""
    a = np.asarray(a, dtype=float)
    b = np.asarray(b, dtype=float)
    with np.errstate(all="ignore"):
        na = np.linalg.norm(a, axis=-1, keepdims=True)
        nb = np.linalg.norm(b, axis=-1, keepdims=True)
        ua = a / na
        ub = b / nb
        d = np.minimum(np.max(np.abs(ua - ub), axis=-1),
                       np.max(np.abs(ua + ub), axis=-1))
    bad = ~(np.isfinite(d)) | (na[..., 0] == 0) | (nb[..., 0] == 0)
    return np.where(bad, np.inf, d)


def matrix_proj_dev(A, B):
    """deviation of A from the best scalar multiple of B, relative to |A|
    (one scalar per matrix)."""
    A = np.asarray(A, dtype=float)
    B = np.asarray(B, dtype=float)
    a = A.reshape(A.shape[:-2] + (-1,))
    b = B.reshape(B.shape[:-2] + (-1,))
    with np.errstate(all="ignore"):
        lam = np.sum(a * b, axis=-1, keepdims=True) / np.sum(b * b, axis=-1, keepdims=True)
        d = np.max(np.abs(a - lam * b), axis=-1) / np.max(np.abs(a), axis=-1)
    return np.where(np.isfinite(d), d, np.inf)


def null_space(M, rtol):
    """rows spanning {x : x @ M = 0} (left null space), by SVD with a
    relative threshold; also returns all singular values."""
    M = np.asarray(M, dtype=float)
    u, s, vt = np.linalg.svd(M)
    smax = s[0] if s.size and s[0] > 0 else 1.0
    k = int(np.sum(s > rtol * smax))
    return u[:, k:].T, s


def form_gram(K):
    """K J K^T for rows K."""
    K = np.asarray(K, dtype=float)
    j = np.ones(K.shape[-1])
    j[0] = -1.0
    return (K * j) @ K.T


# -- standard isometries (column convention; symmetric ones are the same in
#    both conventions) -----------------------------------------------------------

def rotation(n, theta, i=1, j=2):
    A = np.eye(n + 1)
    c, s = np.cos(theta), np.sin(theta)
    A[i, i] = c
    A[j, j] = c
    A[i, j] = -s
    A[j, i] = s
    return A


def loxodromic(n, lam, axis=1):
    """boost along `axis` whose eigenvalue on (1, e_axis) is lam."""
    t = np.log(abs(lam))
    A = rh.boost(n, axis, t)
    return A if lam > 0 else -A


def parabolic(n, t, axis=2):
    """exp(t N), N = (l u^T - u l^T) J with l = e0 + e1 (lightlike, fixed) and
    u = e_axis (axis >= 2).  Unipotent with one Jordan block of size 3."""
    l = np.zeros(n + 1)
    l[0] = l[1] = 1.0
    u = np.zeros(n + 1)
    u[axis] = 1.0
    j = np.ones(n + 1)
    j[0] = -1.0
    N = (np.outer(l, u) - np.outer(u, l)) * j[None, :]
    return np.eye(n + 1) + t * N + 0.5 * t * t * (N @ N)


def reflection_matrix_row(nu):
    """row-convention matrix of x -> x - 2 <x,nu>/<nu,nu> nu."""
    nu = np.asarray(nu, dtype=float)
    j = np.ones(nu.shape[-1])
    j[0] = -1.0
    q = rh.mink_sq(nu)
    return np.eye(nu.shape[-1]) - 2.0 * np.outer(j * nu, nu) / q


def embed(A3, n):
    """block-diagonal embedding of a 3x3 matrix into (n+1)x(n+1)."""
    A = np.eye(n + 1)
    A[:3, :3] = A3
    return A


def rand_orth_det(rng, n, det):
    Q = rh.rand_orth(rng, n)
    if np.sign(np.linalg.det(Q)) != det:
        Q[:, 0] *= -1.0
    return Q


# -- walls -------------------------------------------------------------------------

def wall_normal(ideal_basis, rtol=1e-8):
    """Minkowski normal of the span of the given rows (must have n rows in
    R^(n+1) and full rank).  Returns (nu, sigma_min/sigma_max) -- nu None when
    the rows do not span a hyperplane."""
    B = np.asarray(ideal_basis, dtype=float)
    n1 = B.shape[-1]
    if B.ndim != 2 or B.shape[0] != n1 - 1:
        return None, 0.0
    j = np.ones(n1)
    j[0] = -1.0
    Bn = B / np.linalg.norm(B, axis=-1, keepdims=True)
    u, s, vt = np.linalg.svd(Bn * j)
    ratio = float(s[-1] / s[0]) if s[0] > 0 else 0.0
    if not np.isfinite(ratio) or ratio < rtol:
        return None, ratio
    return vt[-1], ratio


# -- recognising reflections ---------------------------------------------------------

def reflection_test(Rrow):
    """Is the row-convention matrix a reflection across a hyperplane of H^n?

    Returns (verdict, nu, info): verdict True (clearly), False (clearly not),
    None (neither, do not judge); nu = unit-Euclidean normal when True.
    Method: I - R must have rank one with spacelike row space nu, and R must
    equal the reflection rebuilt from nu."""
    R = np.asarray(Rrow, dtype=float)
    n1 = R.shape[-1]
    if not np.all(np.isfinite(R)):
        return None, None, "non-finite"
    scale = max(1.0, maxabs(R))
    D = np.eye(n1) - R
    u, s, vt = np.linalg.svd(D)
    if s[0] < 1e-3:
        return False, None, "identity-like"
    nu = vt[0]
    q = float(qrel(nu))
    if q <= 1e-9:
        # the candidate (-1)-direction is not spacelike: no wall
        dev_rank = float(s[1] / s[0]) if n1 > 1 else 0.0
        if q < -1e-3 or dev_rank > 1e-3:
            return False, None, "no spacelike (-1)-direction"
        return None, None, "nearly lightlike normal"
    R2 = reflection_matrix_row(nu)
    dev = maxabs(R - R2) / scale
    cond = 1.0 / q                      # reflections in nearly lightlike normals are large
    if dev <= 1e-9 * cond:
        return True, nu, "reflection"
    if dev >= 1e-3:
        return False, None, "differs from the reflection in its own (-1)-direction by %.2e" % dev
    return None, None, "borderline (dev %.2e)" % dev


# -- classifying isometries ------------------------------------------------------------

def future_normalised(Mrow):
    M = np.asarray(Mrow, dtype=float)
    return -M if M[0, 0] < 0 else M


def classify(Mrow, form_tol=1e-8):
    """Type of an element of O(n,1) acting on H^n, decided without the
    library's eigenvector sort.

    Returns dict(type=..., mult1=dim ker(M - I), rho=spectral radius, note=...)
    with type in {'elliptic', 'parabolic', 'loxodromic', None}; None means
    'not decidable with margin' (not judged)."""
    M = np.asarray(Mrow, dtype=float)
    out = {"type": None, "mult1": None, "rho": None, "note": ""}
    if M.ndim != 2 or M.shape[0] != M.shape[1] or not np.all(np.isfinite(M)):
        out["note"] = "not a finite square matrix"
        return out
    if float(rh.form_residual(M)) > form_tol:
        out["note"] = "does not preserve the form"
        return out
    M = future_normalised(M)
    n1 = M.shape[0]
    scale = max(1.0, maxabs(M))
    ev = np.linalg.eigvals(M)
    rho = float(np.max(np.abs(ev)))
    out["rho"] = rho
    K, s = null_space(M - np.eye(n1), 1e-7 * scale)
    out["mult1"] = int(K.shape[0])
    if rho > 1.0 + 1e-3:
        out["type"] = "loxodromic"
        return out
    if rho > 1.0 + 2e-4 * scale:
        out["note"] = "spectral radius between the elliptic/parabolic and loxodromic margins"
        return out
    if K.shape[0] == 0:
        out["note"] = "no fixed vector"
        return out
    g = np.linalg.eigvalsh(form_gram(K))
    if g[0] < -1e-6:
        out["type"] = "elliptic"
    elif abs(g[0]) <= 1e-6 and (len(g) == 1 or g[1] > 1e-6):
        # positive semi-definite with a one-dimensional radical: a single
        # lightlike fixed direction and no timelike one
        # (an elliptic element would have a timelike fixed vector)
        sq = (M - np.eye(n1)) @ (M - np.eye(n1))
        if maxabs(sq) > 1e-6:
            out["type"] = "parabolic"
        else:
            out["note"] = "degenerate fixed space"
    else:
        out["note"] = "fixed space has no timelike or lightlike vector"
    return out


def parabolic_fixed_direction(Mrow):
    """the lightlike fixed direction of a unipotent-type parabolic: the row
    space of (M - I)^2, which has rank one (N^2 x = -<l,x> l)."""
    M = future_normalised(Mrow)
    n1 = M.shape[0]
    D = M - np.eye(n1)
    u, s, vt = np.linalg.svd(D @ D)
    ratio = float(s[1] / s[0]) if s[0] > 0 and n1 > 1 else 1.0
    return vt[0], ratio


def elliptic_fixed_space(Mrow):
    """rows spanning the fixed subspace of an elliptic element (future
    normalised), and the timelike direction inside it."""
    M = future_normalised(Mrow)
    n1 = M.shape[0]
    K, s = null_space(M - np.eye(n1), 1e-7 * max(1.0, maxabs(M)))
    w, v = np.linalg.eigh(form_gram(K))
    t = v[:, 0] @ K
    return K, t


# -- attraction by power iteration --------------------------------------------------------

REFERENCE_KLEIN = np.array([0.1370, -0.2110, 0.0893, 0.1731, -0.0577, 0.1219, 0.0311])


def reference_point(n, which=0):
    k = REFERENCE_KLEIN[:n].copy()
    if which:
        k = -0.7 * k[::-1] + 0.05
    return rh.klein_to_proj(k)


def iterate_to_attractor(Mrow, x0, rho, target=1e-13, cap=6000):
    """x <- x @ M (normalised) from the interior point x0; the neutral
    directions decay like rho^-k relative to the attracting one.  Returns
    (limit, steps, last_change)."""
    M = np.asarray(Mrow, dtype=float)
    x = np.asarray(x0, dtype=float)
    x = x / np.linalg.norm(x)
    steps = int(min(cap, np.ceil(np.log(1.0 / target) / np.log(rho)) + 5))
    change = np.inf
    for k in range(steps):
        y = x @ M
        y = y / np.linalg.norm(y)
        if y[0] < 0:
            y = -y
        change = float(np.max(np.abs(y - x)))
        x = y
    return x, steps, change


# -- hyperbolic Coxeter data ------------------------------------------------------------------

def cosine_form(cox):
    """-cos(pi/m_ij); m <= 0 means infinity (entry -1)."""
    m = np.asarray(cox, dtype=float)
    with np.errstate(all="ignore"):
        B = -np.cos(np.pi / np.where(m <= 0, 1.0, m))
    B = np.where(m <= 0, -1.0, B)
    return B


def signature(B, margin=1e-6):
    w = np.linalg.eigvalsh(np.asarray(B, dtype=float))
    return (int(np.sum(w > margin)), int(np.sum(w < -margin)),
            int(np.sum(np.abs(w) <= margin)), w)


def linear_diagram(labels):
    """Coxeter matrix of a linear diagram with the given edge labels."""
    r = len(labels) + 1
    m = np.full((r, r), 2, dtype=int)
    np.fill_diagonal(m, 1)
    for i, l in enumerate(labels):
        m[i, i + 1] = m[i + 1, i] = l
    return m


def triangle(p, q, r):
    return np.array([[1, p, r], [p, 1, q], [r, q, 1]], dtype=int)


def cyclic_diagram(labels):
    r = len(labels)
    m = np.full((r, r), 2, dtype=int)
    np.fill_diagonal(m, 1)
    for i, l in enumerate(labels):
        j = (i + 1) % r
        m[i, j] = m[j, i] = l
    return m


def hyperbolic_coxeter_matrices():
    """(name, matrix) for Coxeter matrices whose cosine form has signature
    (d, 1) with a margin (checked by `signature`, not assumed)."""
    out = []
    tri = [(2, 3, 7), (2, 3, 8), (2, 4, 5), (2, 4, 6), (2, 5, 5), (3, 3, 4),
           (3, 3, 5), (3, 4, 4), (2, 3, 12), (4, 4, 4), (5, 5, 5), (2, 5, 6),
           (3, 3, 7), (2, 7, 7), (2, 3, 0), (2, 4, 0), (3, 3, 0), (2, 0, 0),
           (3, 0, 0), (0, 0, 0), (3, 4, 0), (2, 6, 0), (4, 0, 0), (3, 5, 7)]
    for t in tri:
        out.append(("triangle%r" % (t,), triangle(*t)))
    # rank 4, compact (Lanner) and cusped simplex groups, linear and cyclic
    for lab in [(3, 5, 3), (5, 3, 4), (5, 3, 5), (3, 3, 6), (3, 4, 4), (4, 4, 4),
                (4, 3, 6), (5, 3, 6), (6, 3, 6), (3, 6, 3), (4, 4, 3)]:
        out.append(("linear%r" % (lab,), linear_diagram(lab)))
    for lab in [(3, 3, 3, 4), (3, 3, 3, 5), (3, 4, 3, 4), (3, 4, 3, 5), (3, 5, 3, 5),
                (3, 3, 3, 6), (3, 4, 3, 6)]:
        out.append(("cyclic%r" % (lab,), cyclic_diagram(lab)))
    # rank 4 with an infinite label, rank 5
    out.append(("linear(3, 3, 0)", linear_diagram((3, 3, 0))))
    out.append(("linear(0, 3, 0)", linear_diagram((0, 3, 0))))
    for lab in [(5, 3, 3, 3), (5, 3, 3, 4), (5, 3, 3, 5), (3, 4, 3, 4), (3, 3, 4, 3, )]:
        out.append(("linear%r" % (lab,), linear_diagram(lab)))
    good = []
    for name, m in out:
        p, q, z, w = signature(cosine_form(m))
        if q == 1 and z == 0 and p == len(m) - 1:
            good.append((name, m))
    return good
