"""Independent reference for words in a free group and their matrix images
(numpy only; never imports geometry_tools).  Used by C05 (and usable by C06).

Conventions
* a *word* is a tuple of generator names (tokens).  The inverse of a name is
  the same name with the case of every letter swapped to the other case
  ("a" <-> "A", "s1" <-> "S1"); names are all-lower or all-upper.  A
  representation may be created with another inverse-naming map (an involution
  on names, e.g. "x" <-> "xinv"): the functions below take it as `inv=`.
* surface syntax: "simple" words are strings of one-character names or
  lists/tuples of names; non-simple words are strings of names separated by
  '*', where '(' and ')' may be used for grouping (they carry no meaning for
  an associative product) -- the empty string is the empty word.
* evaluation is the plain left-to-right product of the letters' matrices,
  starting from the identity.
* Fox derivative (left convention), for w = x_1 ... x_m:
      D_g(w) = sum_{i : x_i = g} x_1..x_{i-1}  -  sum_{i : x_i = g^-1} x_1..x_i
  so that  w - 1 = sum_g D_g(w) (g - 1)   in the group ring.
"""
import itertools

import numpy as np


# ---------------------------------------------------------------------------
# names and surface syntax


def inv_name(name):
    if name == name.lower():
        return name.upper()
    return name.lower()


def is_lower(name):
    return name == name.lower()


def tokenize(word, simple=True):
    """surface word -> tuple of names.  Hand-written scanner (the library
    uses re.split)."""
    if isinstance(word, (list, tuple)):
        return tuple(word)
    if simple:
        return tuple(word)
    out = []
    cur = []
    for ch in word:
        if ch == "*" or ch == "(" or ch == ")":
            if cur:
                out.append("".join(cur))
                cur = []
        else:
            cur.append(ch)
    if cur:
        out.append("".join(cur))
    return tuple(out)


def to_surface(tokens, simple=True, parens=False, rng=None):
    """tuple of names -> surface string.  With parens=True (non-simple only)
    random, properly nested grouping parentheses are inserted."""
    tokens = tuple(tokens)
    if simple:
        return "".join(tokens)
    if not parens or rng is None or len(tokens) < 2:
        return "*".join(tokens)
    # choose a random bracketing interval [i, j) and recurse once
    i = int(rng.integers(0, len(tokens) - 1))
    j = int(rng.integers(i + 1, len(tokens) + 1))
    left = "*".join(tokens[:i])
    mid = "(" + "*".join(tokens[i:j]) + ")"
    right = "*".join(tokens[j:])
    return "*".join(p for p in (left, mid, right) if p)


def free_reduce(tokens, inv=None):
    """Freely reduced form.  Repeated elimination of the first adjacent
    inverse pair (quadratic, but a different algorithm from the library's
    single stack pass).  `inv`: the inverse-naming map of the representation
    (default: case swap)."""
    inv = inv or inv_name
    w = list(tokens)
    changed = True
    while changed:
        changed = False
        for i in range(len(w) - 1):
            if w[i + 1] == inv(w[i]):
                del w[i:i + 2]
                changed = True
                break
    return tuple(w)


def formal_inverse(tokens, inv=None):
    inv = inv or inv_name
    return tuple(inv(t) for t in reversed(tuple(tokens)))


def alphabet(names, inv=None):
    """lower-case names -> all letters (names and inverses)."""
    inv = inv or inv_name
    out = []
    for g in names:
        out.append(g)
        out.append(inv(g))
    return out


def all_words(letters, maxlen):
    """every word (reduced or not) of length <= maxlen, shortest first."""
    for L in range(maxlen + 1):
        for t in itertools.product(letters, repeat=L):
            yield tuple(t)


def random_word(rng, letters, length, cancel=0.0, inv=None):
    """random word; with probability `cancel` per position an inverse pair
    x x^-1 is planted (so that free reduction is exercised)."""
    inv_name = inv or globals()["inv_name"]
    out = []
    while len(out) < length:
        x = letters[int(rng.integers(0, len(letters)))]
        if rng.random() < cancel and len(out) + 2 <= length:
            out.extend([x, inv_name(x)])
        else:
            out.append(x)
    return tuple(out[:length])


# ---------------------------------------------------------------------------
# generator matrices


def rand_cond(rng, n, cond=50.0, complex_=False, det_one=False):
    """n x n matrix with 2-norm condition number <= cond (singular values
    log-uniform in [cond^-1/2, cond^1/2]), Haar-ish singular vectors."""
    def ortho():
        if complex_:
            z = rng.normal(size=(n, n)) + 1j * rng.normal(size=(n, n))
        else:
            z = rng.normal(size=(n, n))
        q, r = np.linalg.qr(z)
        d = np.diagonal(r)
        return q * (d / np.abs(d))
    h = 0.5 * np.log(cond)
    s = np.exp(rng.uniform(-h, h, size=n))
    M = (ortho() * s) @ ortho().conj().T
    if det_one:
        d = np.linalg.det(M)
        if complex_:
            M = M / d ** (1.0 / n)
        else:
            if d < 0:
                M[0] = -M[0]
                d = -d
            M = M / d ** (1.0 / n)
    return M


def rand_unimodular(rng, n, steps=None, max_entry=3):
    """exact integer matrix of determinant +-1 with |entries| <= max_entry and
    its exact integer inverse, as a product of elementary matrices."""
    while True:
        M = [[int(i == j) for j in range(n)] for i in range(n)]
        Mi = [[int(i == j) for j in range(n)] for i in range(n)]
        k = steps if steps is not None else int(rng.integers(1, 2 * n + 3))
        for _ in range(k):
            kind = rng.random()
            if n >= 2 and kind < 0.75:
                i, j = (int(x) for x in rng.permutation(n)[:2])
                c = int(rng.integers(-2, 3))
                # M <- M E_ij(c)  (add c * column i to column j)
                for r in range(n):
                    M[r][j] += c * M[r][i]
                # Mi <- E_ij(-c) Mi (subtract c * row j from row i)
                for r in range(n):
                    Mi[i][r] -= c * Mi[j][r]
            elif n >= 2 and kind < 0.9:
                i, j = (int(x) for x in rng.permutation(n)[:2])
                for r in range(n):
                    M[r][i], M[r][j] = M[r][j], M[r][i]
                Mi[i], Mi[j] = Mi[j], Mi[i]
            else:
                i = int(rng.integers(0, n))
                for r in range(n):
                    M[r][i] = -M[r][i]
                Mi[i] = [-x for x in Mi[i]]
        if max(abs(x) for row in M for x in row) <= max_entry:
            break
    A = np.array(M, dtype=np.int64)
    Ai = np.array(Mi, dtype=np.int64)
    assert np.array_equal(A @ Ai, np.eye(n, dtype=np.int64))
    return A, Ai


def inverse(M):
    """independent inverse (solve against the identity)."""
    M = np.asarray(M)
    n = M.shape[-1]
    dt = complex if np.iscomplexobj(M) else float
    return np.linalg.solve(M.astype(dt), np.eye(n, dtype=dt))


def table(gens, inverses=None, inv=None):
    """{lower name: matrix} -> {letter: matrix} with inverse letters.
    `inverses` may give exact inverses (same keys).  `inv`: inverse-naming
    map (default: case swap)."""
    inv_name = inv or globals()["inv_name"]
    out = {}
    for g, M in gens.items():
        M = np.asarray(M)
        out[g] = M
        if inverses is not None and g in inverses:
            out[inv_name(g)] = np.asarray(inverses[g])
        else:
            out[inv_name(g)] = inverse(M)
    return out


def as_exact(tab):
    """letter table of integer matrices -> tables of Python-int object arrays."""
    return {k: np.array(np.asarray(v).tolist(), dtype=object) for k, v in tab.items()}


def evaluate(tokens, tab, n=None):
    """plain left-to-right product.  Works for float / complex / object
    (exact Python int) tables."""
    if n is None:
        n = next(iter(tab.values())).shape[-1]
    first = next(iter(tab.values()))
    if first.dtype == object:
        M = np.array([[int(i == j) for j in range(n)] for i in range(n)], dtype=object)
        for t in tokens:
            M = M.dot(tab[t])
        return M
    dt = complex if any(np.iscomplexobj(v) for v in tab.values()) else float
    M = np.eye(n, dtype=dt)
    for t in tokens:
        M = M @ tab[t]
    return M


def letter_norms(tab):
    out = {}
    for k, v in tab.items():
        a = np.asarray(v)
        if a.dtype == object:
            a = a.astype(float)
        out[k] = float(np.linalg.norm(a, 2)) if a.size else 1.0
    return out


def scale(tokens, norms):
    """prod of the letters' 2-norms (>= the norm of the product; the natural
    scale of the rounding error of a left-to-right product)."""
    s = 1.0
    for t in tokens:
        s *= max(norms[t], 1.0)
    return s


# ---------------------------------------------------------------------------
# Fox calculus


def fox_terms(tokens, gen):
    """D_gen(tokens) as a list of (coefficient, prefix tokens); not collected,
    not reduced."""
    out = []
    G = inv_name(gen)
    for i, x in enumerate(tokens):
        if x == gen:
            out.append((1, tuple(tokens[:i])))
        elif x == G:
            out.append((-1, tuple(tokens[:i + 1])))
    return out


def fox_matrix(tokens, gen, tab, n=None):
    """image of D_gen(tokens) under the representation given by `tab`."""
    if n is None:
        n = next(iter(tab.values())).shape[-1]
    dt = complex if any(np.iscomplexobj(v) for v in tab.values()) else float
    D = np.zeros((n, n), dtype=dt)
    # running prefix product
    P = np.eye(n, dtype=dt)
    G = inv_name(gen)
    for x in tokens:
        if x == gen:
            D = D + P
        P = P @ tab[x]
        if x == G:
            D = D - P
    return D
