"""Independent set-based reference model of a deterministic finite-state
automaton (no geometry_tools import).  Used by C06, C07, C09, C10.

A model is (vertices: set, delta: dict (v, label) -> w, starts: list).
Labels are arbitrary hashables; a *word* is a tuple of labels.
"""
import collections


class Model:
    def __init__(self, vertices=(), delta=None, starts=()):
        self.vertices = set(vertices)
        self.delta = dict(delta or {})
        self.starts = list(starts)

    def copy(self):
        return Model(self.vertices, self.delta, self.starts)

    # -- construction routes ------------------------------------------------
    @classmethod
    def from_label_dict(cls, d, starts=()):
        """{v: {label: w}} incl. targets that are not keys ('hidden')."""
        m = cls(starts=starts)
        for v, nb in d.items():
            m.vertices.add(v)
            for lab, w in nb.items():
                m.vertices.add(w)
                m.delta[(v, lab)] = w
        return m

    @classmethod
    def from_target_dict(cls, d, starts=()):
        """{v: {w: [labels]}}; vertex set = keys only (as the library does)."""
        m = cls(starts=starts)
        for v, nb in d.items():
            m.vertices.add(v)
            for w, labs in nb.items():
                for lab in labs:
                    m.delta[(v, lab)] = w
        return m

    # -- views ----------------------------------------------------------------
    def edges(self):
        return sorted(((v, w, lab) for (v, lab), w in self.delta.items()),
                      key=repr)

    def out(self, v):
        return [(lab, w) for (u, lab), w in self.delta.items() if u == v]

    # -- edits ----------------------------------------------------------------
    def add_vertices(self, vs):
        self.vertices.update(vs)

    def add_edge(self, tail, head, label):
        self.vertices.update([tail, head])
        self.delta[(tail, label)] = head

    def delete_vertex(self, v):
        self.vertices.discard(v)
        self.delta = {(u, lab): w for (u, lab), w in self.delta.items()
                      if u != v and w != v}

    def rename(self, mapping):
        self.delta = {(u, mapping[lab]): w for (u, lab), w in self.delta.items()}

    def recurrent(self):
        """greatest sub-automaton in which every vertex has an incoming and an
        outgoing edge (computed as a fixed point, independent of order)."""
        m = self.copy()
        while True:
            has_out = {u for (u, _l) in m.delta}
            has_in = set(m.delta.values())
            dead = [v for v in m.vertices if v not in has_out or v not in has_in]
            if not dead:
                return m
            for v in dead:
                m.delete_vertex(v)

    # -- language ---------------------------------------------------------------
    def follow(self, word, start):
        """end state or None; `word` an iterable of labels."""
        v = start
        for lab in word:
            v = self.delta.get((v, lab))
            if v is None:
                return None
        return v

    def paths(self, length, start, exact=True):
        """list of (word tuple, end state) for all paths from `start` with
        len == length (exact) or <= length; each path once."""
        out = []
        succ = collections.defaultdict(list)
        for (u, lab), w in self.delta.items():
            succ[u].append((lab, w))

        def rec(v, word):
            if not exact or len(word) == length:
                out.append((word, v))
            if len(word) == length:
                return
            for lab, w in succ.get(v, ()):
                rec(w, word + (lab,))
        rec(start, ())
        return out

    def bfs_dist(self, root):
        dist = {root: 0}
        q = collections.deque([root])
        succ = collections.defaultdict(set)
        for (u, _lab), w in self.delta.items():
            succ[u].add(w)
        while q:
            v = q.popleft()
            for w in succ.get(v, ()):
                if w not in dist:
                    dist[w] = dist[v] + 1
                    q.append(w)
        return dist


def lib_views(fsa):
    """Flatten the three views of a library FSA into sorted labelled edge
    lists (with multiplicity) and vertex sets.  Pure attribute reading of
    dict-like data; works on any object with graph_dict/out_dict/in_dict."""
    g, o, i = fsa.graph_dict, fsa.out_dict, fsa.in_dict
    ge = [(v, w, lab) for v, nb in g.items() for lab, w in nb.items()]
    oe = [(v, w, lab) for v, nb in o.items() for w, labs in nb.items()
          for lab in labs]
    ie = [(v, w, lab) for w, nb in i.items() for v, labs in nb.items()
          for lab in labs]
    key = repr
    return (sorted(ge, key=key), sorted(oe, key=key), sorted(ie, key=key),
            set(g.keys()), set(o.keys()), set(i.keys()))
