"""Independent reference facts about the Lie-group maps of C17 / C05 (numpy
only; never imports geometry_tools).

Everything here is either basis-free (characters, determinants, invariant
forms, homomorphism residuals) or tied to a basis that the property text
itself fixes (elementary-matrix basis of gl_n for the GL(n) adjoint).
"""
import numpy as np


# ---------------------------------------------------------------------------
# random inputs


def rand_sl2(rng, shape=(), cond=50.0):
    """real 2x2 matrices of determinant one, 2-norm condition number <= cond:
    R(alpha) diag(s, 1/s) R(beta), 1 <= s^2 <= cond."""
    shape = tuple(shape)
    al = rng.uniform(0, 2 * np.pi, size=shape)
    be = rng.uniform(0, 2 * np.pi, size=shape)
    s = np.exp(rng.uniform(-0.25 * np.log(cond), 0.25 * np.log(cond), size=shape))

    def rot(t):
        c, s_ = np.cos(t), np.sin(t)
        return np.stack([np.stack([c, -s_], -1), np.stack([s_, c], -1)], -2)
    D = np.zeros(shape + (2, 2))
    D[..., 0, 0] = s
    D[..., 1, 1] = 1.0 / s
    return rot(al) @ D @ rot(be)


def rand_sl2c(rng, shape=(), cond=50.0):
    """complex 2x2 matrices of determinant one with bounded conditioning."""
    shape = tuple(shape)

    def su2():
        z = rng.normal(size=shape + (2,)) + 1j * rng.normal(size=shape + (2,))
        z = z / np.linalg.norm(z, axis=-1, keepdims=True)
        a, b = z[..., 0], z[..., 1]
        return np.stack([np.stack([a, -b.conj()], -1), np.stack([b, a.conj()], -1)], -2)
    s = np.exp(rng.uniform(-0.25 * np.log(cond), 0.25 * np.log(cond), size=shape))
    ph = np.exp(1j * rng.uniform(0, 2 * np.pi, size=shape))
    D = np.zeros(shape + (2, 2), dtype=complex)
    D[..., 0, 0] = s * ph
    D[..., 1, 1] = 1.0 / (s * ph)
    return su2() @ D @ su2()


def rand_gl(rng, n, shape=(), cond=50.0, complex_=False, det_one=False):
    """stack of n x n matrices with condition number <= cond."""
    shape = tuple(shape)

    def ortho():
        z = rng.normal(size=shape + (n, n))
        if complex_:
            z = z + 1j * rng.normal(size=shape + (n, n))
        q, r = np.linalg.qr(z)
        d = np.diagonal(r, axis1=-2, axis2=-1)
        return q * (d / np.abs(d))[..., None, :]
    h = 0.5 * np.log(cond)
    s = np.exp(rng.uniform(-h, h, size=shape + (n,)))
    M = (ortho() * s[..., None, :]) @ np.swapaxes(ortho().conj(), -1, -2)
    if det_one:
        d = np.linalg.det(M)
        if complex_:
            M = M / (d ** (1.0 / n))[..., None, None]
        else:
            sg = np.where(d < 0, -1.0, 1.0)
            M[..., 0, :] = M[..., 0, :] * sg[..., None]
            M = M / (np.abs(d) ** (1.0 / n))[..., None, None]
    return M


def rand_sl2z(rng, shape=(), steps=4, step_max=2, max_entry=6):
    """exact integer 2x2 matrices of determinant one (products of elementary
    matrices), |entries| <= max_entry, dtype int64."""
    shape = tuple(shape)
    out = np.zeros(shape + (2, 2), dtype=np.int64)
    for idx in np.ndindex(*shape):
        while True:
            M = np.eye(2, dtype=np.int64)
            for _ in range(int(rng.integers(1, steps + 1))):
                e = int(rng.integers(-step_max, step_max + 1))
                E = np.array([[1, e], [0, 1]]) if rng.random() < 0.5 else np.array([[1, 0], [e, 1]])
                M = M @ E
            if rng.random() < 0.3:
                M = -M
            if np.max(np.abs(M)) <= max_entry:
                break
        out[idx] = M
    return out


def rand_int(rng, n, shape=(), max_entry=6):
    return rng.integers(-max_entry, max_entry + 1, size=tuple(shape) + (n, n)).astype(np.int64)


def rand_gauss_int(rng, n, shape=(), max_entry=6):
    re = rng.integers(-max_entry, max_entry + 1, size=tuple(shape) + (n, n))
    im = rng.integers(-max_entry, max_entry + 1, size=tuple(shape) + (n, n))
    return re.astype(float) + 1j * im.astype(float)


# ---------------------------------------------------------------------------
# residuals


def mnorm(M):
    """max |entry| over the last two axes."""
    M = np.asarray(M)
    if M.shape[-1] == 0 or M.shape[-2] == 0:
        return np.zeros(M.shape[:-2])
    return np.max(np.abs(M), axis=(-1, -2))


def as_numeric(M):
    """library results may be object-dtype arrays of Python floats (a
    diagnostic, not judged here): cast to float / complex for comparison."""
    M = np.asarray(M)
    if M.dtype == object:
        try:
            return M.astype(float)
        except (TypeError, ValueError):
            return M.astype(complex)
    return M


def rel_diff(X, Y, scale=None):
    """max over the stack of max|X-Y| / scale, scale >= 1."""
    X = as_numeric(X)
    Y = as_numeric(Y)
    if X.shape != Y.shape:
        return float("inf")
    if X.size == 0:
        return 0.0
    d = mnorm(X - Y)
    if scale is None:
        scale = np.maximum(1.0, np.maximum(mnorm(X), mnorm(Y)))
    return float(np.max(d / np.maximum(scale, 1.0)))


def form_residual(S, J):
    """max |S^T J S - J| / max(1, |S|^2) over the stack."""
    S = as_numeric(S)
    if S.size == 0:
        return 0.0
    R = np.swapaxes(S, -1, -2) @ J @ S - J
    return float(np.max(mnorm(R) / np.maximum(1.0, mnorm(S) ** 2)))


def eq_up_to_sign(X, Y):
    """per-unit min(|X-Y|, |X+Y|) / max(1,|Y|), max over the stack."""
    X = as_numeric(X)
    Y = as_numeric(Y)
    if X.shape != Y.shape:
        return float("inf")
    if X.size == 0:
        return 0.0
    d = np.minimum(mnorm(X - Y), mnorm(X + Y))
    return float(np.max(d / np.maximum(1.0, mnorm(Y))))


# ---------------------------------------------------------------------------
# forms


def minkowski(n1):
    J = np.eye(n1)
    J[0, 0] = -1.0
    return J


def gl_trace_form(n):
    """matrix of (X, Y) -> tr(XY) in the row-major elementary basis E_ij
    (index i*n+j): tr(E_ij E_kl) = [j==k][i==l]."""
    T = np.zeros((n * n, n * n))
    for i in range(n):
        for j in range(n):
            T[i * n + j, j * n + i] = 1.0
    return T


def killing_signature(n):
    """(#positive, #negative) of the Killing form of sl_n(R): positive on the
    traceless symmetric matrices, negative on the antisymmetric ones."""
    return (n * (n + 1) // 2 - 1, n * (n - 1) // 2)


def signature(K, tol=1e-9):
    K = as_numeric(K)
    if K.size == 0:
        return (0, 0, 0)
    ev = np.linalg.eigvalsh(0.5 * (K + K.T))
    s = max(1.0, float(np.max(np.abs(ev))))
    return (int(np.sum(ev > tol * s)), int(np.sum(ev < -tol * s)),
            int(np.sum(np.abs(ev) <= tol * s)))


# ---------------------------------------------------------------------------
# reference values / characters


def sl2_irrep_ref(A, n):
    """action of [[a,b],[c,d]] on homogeneous polynomials of degree n-1 in
    (e1, e2), substitution e1 -> a e1 + c e2, e2 -> b e1 + d e2, in the
    ordered monomial basis e1^k e2^(n-1-k), k = 0..n-1 -- computed by
    polynomial multiplication (np.convolve), not by the binomial formula.
    Single matrix only."""
    A = np.asarray(A)
    a, b, c, d = A[0, 0], A[0, 1], A[1, 0], A[1, 1]
    r = n - 1
    dt = A.dtype if A.dtype.kind in "fc" else float
    out = np.zeros((n, n), dtype=dt)
    # polynomials in e1 with e2 implicit: coefficient index = power of e1
    p1 = np.array([c, a], dtype=dt)    # a e1 + c e2
    p2 = np.array([d, b], dtype=dt)    # b e1 + d e2
    for k in range(n):
        poly = np.array([1], dtype=dt)
        for _ in range(k):
            poly = np.convolve(poly, p1)
        for _ in range(r - k):
            poly = np.convolve(poly, p2)
        out[:, k] = poly
    return out


def sl2_character(A, n):
    """trace of the n-dimensional irreducible representation at a matrix of
    determinant one: sum_k lambda^(n-1-2k) = U_{n-1}(tr/2) by the Chebyshev
    recursion  chi_1 = 1, chi_2 = t, chi_{m+1} = t chi_m - chi_{m-1}."""
    t = np.trace(np.asarray(A), axis1=-2, axis2=-1)
    prev, cur = np.ones_like(t), t
    if n == 1:
        return prev
    for _ in range(n - 2):
        prev, cur = cur, t * cur - prev
    return cur


def gln_adjoint_ref(M):
    """matrix of X -> M X M^-1 on row-major coordinates of X: kron(M, M^-T)."""
    M = np.asarray(M)
    dt = complex if np.iscomplexobj(M) else float
    Mi = np.linalg.solve(M.astype(dt), np.eye(M.shape[-1], dtype=dt))
    return np.kron(M.astype(dt), Mi.T)


def adjoint_character(M, sl=False):
    """tr Ad(M) = tr M tr M^-1 (gl_n), minus one for sl_n."""
    M = np.asarray(M)
    dt = complex if np.iscomplexobj(M) else float
    Mi = np.linalg.solve(M.astype(dt), np.eye(M.shape[-1], dtype=dt))
    t = np.trace(M) * np.trace(Mi)
    return t - 1 if sl else t


def sym2_character(M):
    """tr Sym^2(M) = (tr(M)^2 + tr(M^2)) / 2."""
    M = np.asarray(M)
    return 0.5 * (np.trace(M) ** 2 + np.trace(M @ M))


def trace(M):
    M = as_numeric(M)
    return np.trace(M, axis1=-2, axis2=-1)


def det(M):
    M = as_numeric(M)
    if M.shape[-1] == 0:
        return np.ones(M.shape[:-2])
    return np.linalg.det(M)
