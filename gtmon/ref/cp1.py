"""Independent reference model of the Riemann sphere CP^1 for C20 (numpy only;
never imports geometry_tools).

Conventions (those of the code under test, re-derived here):
* a point is a non-zero complex pair v = (v0, v1); its affine coordinate in
  the standard chart is z = v1 / v0 and (0, 1) is the point at infinity;
* the unit sphere point of z is the stereographic image from the north pole
  N = (0, 0, 1):  s(z) = N + t ((Re z, Im z, 0) - N),  t = 2 / (|z|^2 + 1),
  so s(0) = (0, 0, -1) and s(infinity) = N;
* a *disk* is (circle, side): a Hermitian 2x2 form H of signature (1, 1) with
  the disk = { [v] : v^* H v < 0 } and the circle = { v^* H v = 0 }.  Everything
  (affine centre/radius, boundedness, spherical cap, Fubini-Study centre and
  radius, membership) is read off H; H itself is fitted to three boundary
  points by a null-space computation and oriented by one interior point;
* Moebius maps act on extended complex numbers (np.inf for infinity) by
  z -> (c + d z) / (a + b z) for the *column* matrix [[a, b], [c, d]] acting
  on (v0, v1)^T;
* the Fubini-Study distance is half the angle on the unit sphere.
"""
import numpy as np

INF = np.inf


# -- points ------------------------------------------------------------------------

def ext_of(v):
    """extended complex number of one homogeneous pair."""
    v0, v1 = complex(v[0]), complex(v[1])
    if v0 == 0:
        return INF
    return v1 / v0


def hom_of(z):
    if np.isinf(z):
        return np.array([0.0, 1.0], dtype=complex)
    return np.array([1.0, complex(z)], dtype=complex)


def unit(v):
    v = np.asarray(v, dtype=complex)
    return v / np.linalg.norm(v)


def stereographic(z):
    """extended complex number -> unit 3-vector (line through the north pole)."""
    if np.isinf(z):
        return np.array([0.0, 0.0, 1.0])
    z = complex(z)
    r2 = z.real * z.real + z.imag * z.imag
    if not np.isfinite(r2):
        return np.array([0.0, 0.0, 1.0])
    t = 2.0 / (r2 + 1.0)
    return np.array([t * z.real, t * z.imag, 1.0 - t])


def sphere_of_hom(v):
    """sphere point of a homogeneous pair, computed in whichever chart is
    better conditioned (the chart at infinity uses w = v0 / v1 and the
    reflected formula)."""
    v0, v1 = complex(v[0]), complex(v[1])
    if abs(v0) >= abs(v1):
        return stereographic(v1 / v0)
    w = v0 / v1                      # z = 1/w ; s(1/w) = (X(w), -Y(w), -Z(w))
    s = stereographic(w)
    return np.array([s[0], -s[1], -s[2]])


def inverse_stereographic(s):
    """unit 3-vector -> extended complex number."""
    X, Y, Z = (float(x) for x in s)
    if 1.0 - Z == 0.0:
        return INF
    return complex(X, Y) / (1.0 - Z)


def fs_distance_sphere(s1, s2):
    """Fubini-Study distance = half the angle between the sphere points
    (atan2 form, accurate for small and near-antipodal angles)."""
    s1 = np.asarray(s1, dtype=float)
    s2 = np.asarray(s2, dtype=float)
    cr = np.linalg.norm(np.cross(s1, s2))
    return 0.5 * float(np.arctan2(cr, float(np.dot(s1, s2))))


def fs_distance(z, w):
    return fs_distance_sphere(stereographic(z), stereographic(w))


# -- Moebius maps ----------------------------------------------------------------------

def mobius(M, z):
    """column matrix M = [[a, b], [c, d]] on (v0, v1)^T, acting on an extended
    complex number."""
    a, b, c, d = (complex(M[0][0]), complex(M[0][1]), complex(M[1][0]), complex(M[1][1]))
    if np.isinf(z):
        num, den = d, b
    else:
        z = complex(z)
        num, den = c + d * z, a + b * z
    if den == 0:
        return INF
    return num / den


# -- disks ---------------------------------------------------------------------------------

class Disk:
    """(circle, side) model; see module docstring.  `margin` is the smallest
    relative quantity that had to be non-zero to build it (0 = degenerate)."""

    def __init__(self, H, margin, aff=None):
        self.H = H
        self.margin = margin
        self.aff = aff          # (centre, radius, bounded) when known exactly

    # membership ------------------------------------------------------------------
    def form(self, v):
        """v^* H v / |v|^2 for a homogeneous pair (H has spectral norm 1):
        negative inside, in [-1, 1]."""
        v = np.asarray(v, dtype=complex)
        return float(np.real(np.conj(v) @ self.H @ v) / np.real(np.vdot(v, v)))

    def form_ext(self, z):
        return self.form(hom_of(z))

    def contains_ext(self, z, margin=1e-9):
        """True / False, or None when the point is within `margin` of the
        circle (relative to the radius when the affine circle is known,
        otherwise in the normalised form)."""
        if self.aff is not None:
            c, r, bounded = self.aff
            if np.isinf(z):
                return not bounded
            rel = (abs(complex(z) - c) - r) / r
            if not np.isfinite(rel):
                return not bounded
            if abs(rel) < margin:
                return None
            return (rel < 0) == bounded
        f = self.form_ext(z)
        if abs(f) < margin:
            return None
        return f < 0

    def contains_hom(self, v, margin=1e-9):
        v0, v1 = complex(v[0]), complex(v[1])
        if abs(v0) * 1e12 < abs(v1) or v0 == 0:
            z = INF if v0 == 0 else v1 / v0
        else:
            z = v1 / v0
        return self.contains_ext(z, margin)

    # affine data --------------------------------------------------------------------
    @property
    def bounded(self):
        """does the disk miss the point at infinity?"""
        if self.aff is not None:
            return bool(self.aff[2])
        return float(np.real(self.H[1, 1])) > 0

    def affine(self):
        """(centre, radius) of the boundary circle in the chart z = v1/v0, or
        None when the circle passes (numerically) through infinity."""
        if self.aff is not None:
            return self.aff[0], self.aff[1]
        a = float(np.real(self.H[0, 0]))
        d = float(np.real(self.H[1, 1]))
        if abs(d) < 1e-12:
            return None
        c = -self.H[1, 0] / d
        r2 = abs(c) ** 2 - a / d
        if r2 <= 0:
            return None
        return complex(c), float(np.sqrt(r2))

    # spherical data --------------------------------------------------------------------
    def cap(self):
        """(unit centre n, angular radius theta): the disk is the spherical cap
        { s : angle(s, n) < theta }."""
        if self.aff is not None:
            # exact circle known: same formulas on the unnormalised form
            # [[|c|^2 - r^2, -conj c], [-c, 1]], but with -det H = r^2 inserted
            # instead of recomputed (|c|^2 - (|c|^2 - r^2) cancels completely
            # for a circle that is small compared with its distance from 0:
            # the cap radius of |z - 1.2| < 1.5e-8 came out 16 % wrong)
            c, r, bounded = self.aff
            sg = 1.0 if bounded else -1.0
            t = 0.5 * (abs(c) ** 2 - r * r + 1.0)
            m = np.array([-c.real, -c.imag, 0.5 * (1.0 - abs(c) ** 2 + r * r)])
            n = -sg * m / np.linalg.norm(m)
            return n, float(np.arctan2(r, sg * t))
        a = float(np.real(self.H[0, 0]))
        d = float(np.real(self.H[1, 1]))
        h01 = complex(self.H[0, 1])
        # form = t + m . s  with
        t = 0.5 * (a + d)
        m = np.array([h01.real, -h01.imag, 0.5 * (d - a)])
        nm = np.linalg.norm(m)
        n = -m / nm
        # |m|^2 - t^2 = |H01|^2 - a d = -det H  (no cancellation for small caps)
        sin_part = np.sqrt(max(abs(h01) ** 2 - a * d, 0.0))
        return n, float(np.arctan2(sin_part, t))

    def fs_center_ext(self):
        n, th = self.cap()
        return inverse_stereographic(n)

    def fs_radius(self):
        return 0.5 * self.cap()[1]

    def complement(self):
        aff = None if self.aff is None else (self.aff[0], self.aff[1], not self.aff[2])
        return Disk(-self.H, self.margin, aff)


def _herm(a, d, x, y):
    return np.array([[a, x + 1j * y], [x - 1j * y, d]], dtype=complex)


def disk_from_points(boundary, interior):
    """Fit the Hermitian form vanishing on three boundary points (3 homogeneous
    pairs) and orient it by the interior point.  Returns a Disk whose `margin`
    is min(relative gap of the null-space fit, |form(interior)|)."""
    rows = []
    for v in boundary:
        v = unit(v)
        w = np.conj(v[0]) * v[1]
        rows.append([abs(v[0]) ** 2, abs(v[1]) ** 2, 2.0 * w.real, -2.0 * w.imag])
    A = np.array(rows, dtype=float)
    if not np.all(np.isfinite(A)):
        return Disk(np.zeros((2, 2), dtype=complex), 0.0)
    u, s, vt = np.linalg.svd(A)
    gap = s[2] / s[0] if s[0] > 0 else 0.0
    a, d, x, y = vt[3]
    H = _herm(a, d, x, y)
    ev = np.linalg.eigvalsh(H)
    sn = np.max(np.abs(ev))
    if sn == 0 or ev[0] * ev[1] >= 0:
        return Disk(H, 0.0)
    H = H / sn
    dk = Disk(H, gap)
    f = dk.form(interior)
    if f > 0:
        dk = Disk(-H, gap)
    dk.margin = float(min(gap, abs(f)))
    return dk


def disk_affine(c, r, bounded=True, margin=1.0):
    """the disk |z - c| < r (or its complement)."""
    c = complex(c)
    H = np.array([[abs(c) ** 2 - r * r, -np.conj(c)], [-c, 1.0]], dtype=complex)
    H = H / np.max(np.abs(np.linalg.eigvalsh(H)))
    return Disk(H if bounded else -H, margin, (c, float(r), bool(bounded)))


def circumcircle(z1, z2, z3):
    """(centre, radius, margin) of the circle through three finite complex
    numbers; margin = |sin| of the angle at z1 (0 = collinear / coincident)."""
    b = complex(z2) - complex(z1)
    c = complex(z3) - complex(z1)
    nb, nc = abs(b), abs(c)
    if nb == 0 or nc == 0 or not (np.isfinite(nb) and np.isfinite(nc)):
        return None, None, 0.0
    A = np.array([[b.real, b.imag], [c.real, c.imag]])
    det = A[0, 0] * A[1, 1] - A[0, 1] * A[1, 0]
    margin = abs(det) / (nb * nc)
    # also the third side must not be degenerate
    margin = min(margin, abs(c - b) / max(nb, nc))
    if margin == 0:
        return None, None, 0.0
    w = np.linalg.solve(A, np.array([nb * nb / 2.0, nc * nc / 2.0]))
    return complex(z1) + complex(w[0], w[1]), float(np.hypot(w[0], w[1])), float(margin)


def disk_from_data(data, far=1e6):
    """reference disk of one unit of library data: rows 0..2 boundary points,
    row 3 an interior point (homogeneous pairs).  Uses the affine circumcircle
    when the three boundary points are finite (|z| <= far), otherwise the
    Hermitian fit.  `margin` = 0 marks a degenerate / undecidable unit."""
    data = np.asarray(data, dtype=complex)
    if data.shape != (4, 2) or not np.all(np.isfinite(data)):
        return Disk(np.zeros((2, 2), dtype=complex), 0.0)
    if np.any(np.sum(np.abs(data) ** 2, axis=-1) == 0):
        return Disk(np.zeros((2, 2), dtype=complex), 0.0)
    B = data[:3]
    P = data[3]
    if np.all(np.abs(B[:, 1]) <= far * np.abs(B[:, 0])):
        z = B[:, 1] / B[:, 0]
        c, r, mg = circumcircle(z[0], z[1], z[2])
        if mg > 0 and r > 0 and np.isfinite(r):
            if abs(P[0]) * far < abs(P[1]) or P[0] == 0:
                return disk_affine(c, r, False, mg)
            zp = P[1] / P[0]
            rel = (abs(zp - c) - r) / r
            return disk_affine(c, r, rel < 0, float(min(mg, abs(rel))))
        return Disk(np.zeros((2, 2), dtype=complex), 0.0)
    return disk_from_points(B, P)


def disk_fs(center_ext, rho):
    """the Fubini-Study ball of radius rho (< pi/2) around a point."""
    n = stereographic(center_ext)
    # inside: n . s > cos(2 rho)  <=>  cos(2 rho) - n . s < 0 :  t = cos 2rho, m = -n
    t = np.cos(2.0 * rho)
    m = -n
    # invert  t = (a + d)/2,  m = (x, -y, (d - a)/2)
    d = t + m[2]
    a = t - m[2]
    H = _herm(a, d, m[0], -m[1])
    H = H / np.max(np.abs(np.linalg.eigvalsh(H)))
    return Disk(H, 1.0)


# -- relations between two disks from centres / radii / boundedness -----------------------------

def relation_margin(c1, r1, c2, r2):
    """general-position margin of a pair of circles: distance of |c1 - c2| from
    r1 + r2 and from |r1 - r2|, relative to max(1, radii, distance)."""
    d = abs(complex(c1) - complex(c2))
    sc = max(1.0, r1, r2, d)
    return min(abs(d - (r1 + r2)), abs(d - abs(r1 - r2))) / sc


def relation_gap(c1, r1, c2, r2):
    """scale-free form of the general-position margin: (gap, scale, noise) with
    gap = absolute distance of |c1 - c2| from r1 + r2 and from |r1 - r2|,
    scale = max(r1, r2, |c1 - c2|) (the size of the configuration itself, no
    absolute unit), noise = eps * (|c1| + r1 + |c2| + r2), the size of one
    rounding error in the affine coordinates of the circles' points (what a
    backward-stable computation of centres / radii from stored points can lose
    for circles that are small compared with their distance from the origin)."""
    d = abs(complex(c1) - complex(c2))
    gap = min(abs(d - (r1 + r2)), abs(d - abs(r1 - r2)))
    noise = 2.220446049250313e-16 * (abs(complex(c1)) + r1 + abs(complex(c2)) + r2)
    return gap, max(r1, r2, d), noise


def contains_truth(c1, r1, b1, c2, r2, b2):
    """does disk 1 contain disk 2?  (b = bounded flag; an unbounded disk is the
    exterior of its circle together with infinity)."""
    d = abs(complex(c1) - complex(c2))
    if b1 and b2:
        return d < r1 - r2
    if b1 and not b2:
        return False
    if (not b1) and b2:
        return d > r1 + r2
    return d < r2 - r1


def intersects_truth(c1, r1, b1, c2, r2, b2):
    d = abs(complex(c1) - complex(c2))
    if b1 and b2:
        return d < r1 + r2
    if b1 and not b2:
        return not (d < r2 - r1)
    if (not b1) and b2:
        return not (d < r1 - r2)
    return True


def contains_caps(D1, D2):
    """the same relation decided on the sphere: cap 1 contains cap 2 iff
    angle(n1, n2) + theta2 < theta1.  Returns (answer, margin in radians)."""
    n1, t1 = D1.cap()
    n2, t2 = D2.cap()
    ang = 2.0 * fs_distance_sphere(n1, n2)
    return (ang + t2 < t1), abs(t1 - ang - t2)


def intersects_caps(D1, D2):
    n1, t1 = D1.cap()
    n2, t2 = D2.cap()
    ang = 2.0 * fs_distance_sphere(n1, n2)
    return (ang < t1 + t2), abs(t1 + t2 - ang)


# -- vectorised relations for large collections ---------------------------------------------------

def relation_tables(c1, r1, b1, c2, r2, b2, pairwise, rel_margin=1e-3):
    """(contains, intersects, in_general_position) for arrays of disks given by
    (centre, radius, bounded-flag).  pairwise: all pairs (flattened (N, M)
    tables); otherwise elementwise on equal shapes.  Same case analysis as
    contains_truth / intersects_truth / relation_margin, on whole arrays."""
    c1, c2 = np.asarray(c1, dtype=complex), np.asarray(c2, dtype=complex)
    r1, r2 = np.asarray(r1, dtype=float), np.asarray(r2, dtype=float)
    b1, b2 = np.asarray(b1, dtype=bool), np.asarray(b2, dtype=bool)
    if pairwise:
        c1, r1, b1 = (x.reshape(-1)[:, None] for x in (c1, r1, b1))
        c2, r2, b2 = (x.reshape(-1)[None, :] for x in (c2, r2, b2))
    d = np.hypot((c1 - c2).real, (c1 - c2).imag)
    d, r1, r2, b1, b2 = np.broadcast_arrays(d, r1, r2, b1, b2)
    contains = np.where(b1 & b2, d < r1 - r2,
                        np.where(b1 & ~b2, False,
                                 np.where(~b1 & b2, d > r1 + r2, d < r2 - r1)))
    intersects = np.where(b1 & b2, d < r1 + r2,
                          np.where(b1 & ~b2, ~(d < r2 - r1),
                                   np.where(~b1 & b2, ~(d < r1 - r2), True)))
    gap = np.minimum(np.abs(d - (r1 + r2)), np.abs(d - np.abs(r1 - r2)))
    sc = np.maximum(np.maximum(1.0, d), np.maximum(r1, r2))
    return contains, intersects, gap >= rel_margin * sc


# -- Fubini-Study ball <-> affine circle, closed forms --------------------------------------------

def fs_ball_affine_centre(w0, rho):
    """affine centre of the boundary circle of the Fubini-Study ball of radius
    rho about w0, and its conditioning margin.

    On the unit sphere the ball is the cap {s : s . n > cos 2 rho}, n the
    sphere point of w0; intersecting with the stereographic parametrisation
    gives the circle  |w|^2 (cos 2rho - n_z) - 2 Re(conj(w) (n_x + i n_y)) +
    (cos 2rho + n_z) = 0, i.e. centre (n_x + i n_y) / (cos 2rho - n_z)
    = w0 / (1 - sin(rho)^2 (1 + |w0|^2)).  The denominator vanishes exactly
    when the circle passes through infinity (arctan|w0| + rho = pi/2) and is
    negative for balls that contain infinity (the centre then lies on the
    opposite side of the origin).  margin = |arctan|w0| + rho - pi/2|."""
    w0 = np.asarray(w0, dtype=complex)
    rho = np.asarray(rho, dtype=float)
    t2 = w0.real ** 2 + w0.imag ** 2
    den = 1.0 - np.sin(rho) ** 2 * (1.0 + t2)
    with np.errstate(divide="ignore", invalid="ignore"):
        ctr = w0 / den
    margin = np.abs(np.arctan(np.sqrt(t2)) + rho - np.pi / 2)
    return ctr, margin


def affine_disk_fs_centre_angle(c, r):
    """Fubini-Study distance from 0 of the Fubini-Study centre of the bounded
    disk |w - c| < r (an angle in [0, pi/2)): the centre is the sphere point n
    of the cap, found from the Hermitian form [[|c|^2 - r^2, -conj c], [-c, 1]]
    (see Disk.cap); its distance from the south pole s(0) is half the angle."""
    c = np.asarray(c, dtype=complex)
    r = np.asarray(r, dtype=float)
    t2 = c.real ** 2 + c.imag ** 2
    horiz = np.sqrt(t2)                           # |(n_x, n_y)| up to the common factor
    nz = -0.5 * (1.0 - t2 + r * r)                # n_z up to the same factor
    # angle between n and the south pole (0, 0, -1): atan2(|horizontal|, -n_z)
    return 0.5 * np.arctan2(horiz, -nz)
