"""Independent Coxeter-group reference (numpy + stdlib only; never imports
geometry_tools).  Used by C07 and C08.

Conventions
  * A Coxeter matrix is normalised by ``normalize`` to a tuple of tuples of
    ints with 1 on the diagonal, labels >= 2 off the diagonal and **0 for an
    infinite label** (the library accepts 0 or any negative number).
  * A word is a tuple of generator indices 0..n-1.

Three independent ingredients
  1. Tits' solution of the word problem (purely combinatorial): the braid-move
     closure of a word is finite; a word is reduced iff no member of its
     closure contains ``ss``; the closure of a reduced word is the set of all
     reduced expressions of its element (``WordOracle``).
  2. The geometric (root) representation built from the cosine matrix:
     sigma_i(v) = v - 2 B(alpha_i, v) alpha_i ; contragredient = Tits'
     canonical representation.  Gives a numeric second solution of the word
     problem (``reduced_by_roots``: w s is longer than w iff w(alpha_s) > 0).
  3. Closed-form growth series: product of [d_i]_t over the degrees for the
     finite irreducible types, Steinberg's alternating-sum recursion
     sum_{T subset S} (-1)^|T| / W_T(t) = 0 for infinite irreducible groups,
     product over components.
"""
import math
from fractions import Fraction

import numpy as np


# ---------------------------------------------------------------------------
# Coxeter matrices

def normalize(M):
    """-> normalised Coxeter matrix (tuple of tuples, 0 = infinity) or None when
    `M` is not a Coxeter matrix (not square/symmetric/integral, diagonal != 1,
    an off-diagonal 1)."""
    try:
        A = np.asarray(M)
        if A.dtype == object:
            A = A.astype(float)
    except Exception:
        return None
    if A.ndim != 2 or A.shape[0] != A.shape[1] or A.shape[0] == 0:
        return None
    if A.dtype.kind not in "iuf":
        return None
    Af = A.astype(float)
    if not np.all(np.isfinite(Af)) or np.any(Af != np.round(Af)):
        return None
    I = np.round(Af).astype(int)
    if (I != I.T).any():
        return None
    n = len(I)
    for i in range(n):
        if I[i, i] != 1:
            return None
        for j in range(n):
            if i != j and I[i, j] == 1:
                return None
    return tuple(tuple(int(x) if (x > 0) else 0 for x in row) for row in I)


def components(M, idx=None):
    """connected components (lists of indices, each sorted) of the Coxeter
    graph (edge = label other than 2) restricted to `idx`."""
    idx = list(range(len(M))) if idx is None else list(idx)
    left = set(idx)
    comps = []
    while left:
        root = min(left)
        comp = {root}
        stack = [root]
        while stack:
            i = stack.pop()
            for j in left:
                if j not in comp and M[i][j] != 2:
                    comp.add(j)
                    stack.append(j)
        left -= comp
        comps.append(sorted(comp))
    return comps


def cosine_matrix(M):
    """B[i][j] = -cos(pi/m_ij); -1 for an infinite label; 1 on the diagonal."""
    n = len(M)
    B = np.empty((n, n))
    for i in range(n):
        for j in range(n):
            if i == j:
                B[i, j] = 1.0
            elif M[i][j] == 0:
                B[i, j] = -1.0
            elif M[i][j] == 2:
                B[i, j] = 0.0
            else:
                B[i, j] = -math.cos(math.pi / M[i][j])
    return B


def signature(B, margin=1e-7):
    """(n_pos, n_neg, n_zero, min |non-zero eigenvalue|) of a symmetric matrix,
    or None when some eigenvalue lies in the ambiguous band
    (1e-11, margin) in absolute value."""
    ev = np.linalg.eigvalsh(np.asarray(B, dtype=float))
    pos = neg = zero = 0
    mn = float("inf")
    for e in ev:
        a = abs(e)
        if a <= 1e-11:
            zero += 1
        elif a < margin:
            return None
        else:
            mn = min(mn, a)
            if e > 0:
                pos += 1
            else:
                neg += 1
    return pos, neg, zero, mn


def coxeter_type(M):
    """'spherical' | 'affine' | 'lorentzian' | 'degenerate-indefinite' |
    'indefinite' | 'ambiguous' from the signature of the cosine form
    (affine = positive semidefinite with a kernel)."""
    sg = signature(cosine_matrix(M))
    if sg is None:
        return "ambiguous"
    pos, neg, zero, _ = sg
    if neg == 0 and zero == 0:
        return "spherical"
    if neg == 0:
        return "affine"
    if neg == 1 and zero == 0:
        return "lorentzian"
    if zero:
        return "degenerate-indefinite"
    return "indefinite"


def is_finite(M, idx):
    sub = [[M[i][j] for j in idx] for i in idx]
    sg = signature(cosine_matrix(sub))
    if sg is None:
        raise ValueError("cosine form too close to degenerate to classify")
    return sg[1] == 0 and sg[2] == 0


# ---------------------------------------------------------------------------
# 1. Tits' word problem

def has_square(w):
    for i in range(len(w) - 1):
        if w[i] == w[i + 1]:
            return True
    return False


def braid_closure(word, M):
    """all words reachable from `word` by braid moves
    (s t s ... [m_st letters] <-> t s t ...)."""
    seen = {word}
    stack = [word]
    while stack:
        w = stack.pop()
        L = len(w)
        for i in range(L - 1):
            s = w[i]
            t = w[i + 1]
            if s == t:
                continue
            m = M[s][t]
            if m == 0 or i + m > L:
                continue
            ok = True
            for k in range(2, m):
                if w[i + k] != (s if k % 2 == 0 else t):
                    ok = False
                    break
            if ok:
                new = (w[:i] + tuple((t if k % 2 == 0 else s) for k in range(m))
                       + w[i + m:])
                if new not in seen:
                    seen.add(new)
                    stack.append(new)
    return seen


class WordOracle:
    """levels[l] = {shortlex-least word: frozenset(all reduced words)} for every
    group element of length l.  Built incrementally: for an element x with
    least word w and a generator s, x s is longer than x iff w+s is reduced iff
    the braid closure of w+s contains no square; that closure is then the set
    of all reduced expressions of x s."""

    def __init__(self, M):
        self.M = M
        self.n = len(M)
        self.levels = [{(): frozenset({()})}]
        self._reduced = [frozenset({()})]

    def extend_to(self, L):
        M, n = self.M, self.n
        while len(self.levels) <= L:
            prev = self.levels[-1]
            new = {}
            covered = set()
            for w0 in prev:
                for s in range(n):
                    cand = w0 + (s,)
                    if cand in covered:
                        continue
                    if w0 and w0[-1] == s:
                        continue
                    clo = braid_closure(cand, M)
                    if any(has_square(w) for w in clo):
                        continue
                    new[min(clo)] = frozenset(clo)
                    covered |= clo
            self.levels.append(new)
            self._reduced.append(frozenset(covered))
        return self

    def reduced(self, l):
        """frozenset of all reduced words of length l."""
        self.extend_to(l)
        return self._reduced[l]

    def shortlex(self, l):
        """set of the lexicographically least reduced word of each element of
        length l."""
        self.extend_to(l)
        return set(self.levels[l].keys())

    def counts(self, L):
        self.extend_to(L)
        return [len(self.levels[l]) for l in range(L + 1)]

    def element_of(self, word):
        """shortlex-least word of the element of a *reduced* word, or None if
        the word is not reduced."""
        l = len(word)
        self.extend_to(l)
        if word not in self._reduced[l]:
            return None
        for key, clo in self.levels[l].items():
            if word in clo:
                return key
        return None

    def is_reduced(self, word):
        return word in self.reduced(len(word))

    def is_shortlex(self, word):
        self.extend_to(len(word))
        return word in self.levels[len(word)]


def reduce_word(word, M):
    """a reduced word of the same element (Tits: braid moves + deletions of ss
    reach a reduced word); returns the shortlex-least one."""
    w = tuple(word)
    while True:
        clo = braid_closure(w, M)
        nxt = None
        for v in clo:
            for i in range(len(v) - 1):
                if v[i] == v[i + 1]:
                    nxt = v[:i] + v[i + 2:]
                    break
            if nxt is not None:
                break
        if nxt is None:
            return min(clo)
        w = nxt


# ---------------------------------------------------------------------------
# 2. geometric / canonical representation, roots

def reflections(M, B=None):
    """(n, n, n) array: sigma_i = I - 2 e_i (B e_i)^T acting on column vectors
    of simple-root coordinates."""
    n = len(M)
    B = cosine_matrix(M) if B is None else np.asarray(B, dtype=float)
    out = np.empty((n, n, n))
    for i in range(n):
        S = np.eye(n)
        S[i, :] -= 2.0 * B[i, :]
        out[i] = S
    return out


def dual_reflections(M):
    """contragredient (Tits' canonical representation): (sigma_i^-1)^T =
    sigma_i^T."""
    return np.swapaxes(reflections(M), -1, -2).copy()


def word_matrix(gens, word):
    """gens[w0] @ gens[w1] @ ... (identity for the empty word)."""
    n = gens.shape[-1]
    A = np.eye(n)
    for s in word:
        A = A @ gens[s]
    return A


def reduced_by_roots(M, word, gens=None):
    """numeric word problem: s1...sk is reduced iff for every i the root
    s1...s_{i-1}(alpha_{s_i}) is positive.  (Coefficients of a root in the
    simple-root basis are all >= 0 or all <= 0, and are 0 or >= 1 in modulus.)"""
    gens = reflections(M) if gens is None else gens
    n = len(M)
    for i, s in enumerate(word):
        v = np.zeros(n)
        v[s] = 1.0
        for t in reversed(word[:i]):
            v = gens[t] @ v
        hi, lo = float(np.max(v)), float(np.min(v))
        noise = 1e-7 * max(1.0, hi, -lo)
        if hi >= 0.5 and lo > -noise:
            continue                      # positive root
        if lo <= -0.5 and hi < noise:
            return False                  # negative root
        raise ArithmeticError("root coordinates lost their sign pattern: %r" % (v,))
    return True


def min_pairwise_separation(mats):
    """min over pairs i<j of max|A_i - A_j|, and the arg pair."""
    mats = np.asarray(mats, dtype=float)
    k = len(mats)
    if k < 2:
        return float("inf"), None
    flat = mats.reshape(k, -1)
    best = float("inf")
    arg = None
    block = 256
    for a in range(0, k, block):
        A = flat[a:a + block]
        d = np.max(np.abs(A[:, None, :] - flat[None, :, :]), axis=-1)
        for r in range(len(A)):
            d[r, :a + r + 1] = np.inf
        j = int(np.argmin(d))
        r, c = divmod(j, k)
        if d[r, c] < best:
            best = float(d[r, c])
            arg = (a + r, c)
    return best, arg


# ---------------------------------------------------------------------------
# 3. closed-form growth series

def _ps_mul(a, b, L):
    out = [0] * (L + 1)
    for i, x in enumerate(a[:L + 1]):
        if x:
            for j, y in enumerate(b[:L + 1 - i]):
                out[i + j] += x * y
    return out


def _ps_inv(a, L):
    """inverse of an integer power series with constant term +-1."""
    if a[0] not in (1, -1):
        raise ArithmeticError("constant term %r" % (a[0],))
    a = list(a) + [0] * (L + 1 - len(a))
    inv = [0] * (L + 1)
    inv[0] = a[0]
    for k in range(1, L + 1):
        s = 0
        for i in range(1, k + 1):
            s += a[i] * inv[k - i]
        inv[k] = -s * a[0]
    return inv


def _arm_lengths(M, comp, branch):
    nb = [j for j in comp if j != branch and M[branch][j] != 2]
    arms = []
    for start in nb:
        length = 1
        prev, cur = branch, start
        while True:
            nxt = [j for j in comp if j not in (prev, cur) and M[cur][j] != 2]
            if not nxt:
                break
            prev, cur = cur, nxt[0]
            length += 1
        arms.append(length)
    return sorted(arms)


def finite_degrees(M, comp):
    """degrees of the basic invariants of the finite irreducible Coxeter group
    on the index list `comp` (which must be connected and positive definite)."""
    r = len(comp)
    if r == 1:
        return [2]
    if r == 2:
        return [2, M[comp[0]][comp[1]]]
    edges = [(i, j, M[i][j]) for a, i in enumerate(comp) for j in comp[a + 1:]
             if M[i][j] != 2]
    if len(edges) != r - 1 or any(m == 0 for (_i, _j, m) in edges):
        raise ValueError("not a finite type")
    deg = {i: 0 for i in comp}
    for i, j, _m in edges:
        deg[i] += 1
        deg[j] += 1
    big = sorted(m for (_i, _j, m) in edges if m > 3)
    branches = [i for i in comp if deg[i] >= 3]
    if branches:
        if len(branches) != 1 or deg[branches[0]] != 3 or big:
            raise ValueError("not a finite type")
        arms = _arm_lengths(M, comp, branches[0])
        if arms[:2] == [1, 1]:
            return [2 * k for k in range(1, r)] + [r]            # D_r
        table = {(1, 2, 2): [2, 5, 6, 8, 9, 12],
                 (1, 2, 3): [2, 6, 8, 10, 12, 14, 18],
                 (1, 2, 4): [2, 8, 12, 14, 18, 20, 24, 30]}
        if tuple(arms) in table:
            return table[tuple(arms)]
        raise ValueError("not a finite type")
    if not big:
        return list(range(2, r + 2))                             # A_r
    if len(big) != 1:
        raise ValueError("not a finite type")
    (i, j, m), = [e for e in edges if e[2] > 3]
    at_end = deg[i] == 1 or deg[j] == 1
    if m == 4 and at_end:
        return [2 * k for k in range(1, r + 1)]                  # B_r
    if m == 4 and r == 4:
        return [2, 6, 8, 12]                                     # F_4
    if m == 5 and at_end and r == 3:
        return [2, 6, 10]                                        # H_3
    if m == 5 and at_end and r == 4:
        return [2, 12, 20, 30]                                   # H_4
    raise ValueError("not a finite type")


def growth_series(M, L, _idx=None, _memo=None):
    """[a_0..a_L], a_l = number of elements of length l of the Coxeter group
    (restricted to the generators `_idx`)."""
    memo = {} if _memo is None else _memo
    idx = tuple(range(len(M))) if _idx is None else tuple(sorted(_idx))
    if idx in memo:
        return memo[idx]
    if not idx:
        res = [1] + [0] * L
        memo[idx] = res
        return res
    comps = components(M, idx)
    if len(comps) > 1:
        res = [1] + [0] * L
        for c in comps:
            res = _ps_mul(res, growth_series(M, L, c, memo), L)
        memo[idx] = res
        return res
    comp = comps[0]
    if is_finite(M, comp):
        res = [1] + [0] * L
        for d in finite_degrees(M, comp):
            res = _ps_mul(res, [1] * d, L)
        memo[idx] = res
        return res
    # infinite irreducible: sum over all subsets T of (-1)^|T| / W_T(t) = 0
    r = len(comp)
    acc = [0] * (L + 1)
    for mask in range(2 ** r - 1):
        T = [comp[k] for k in range(r) if mask >> k & 1]
        inv = _ps_inv(growth_series(M, L, T, memo), L)
        sgn = -1 if len(T) % 2 else 1
        for k in range(L + 1):
            acc[k] += sgn * inv[k]
    sgn = -1 if r % 2 else 1                  # 1/W = -(-1)^r * acc
    acc = [-sgn * x for x in acc]
    res = _ps_inv(acc, L)
    memo[idx] = res
    return res


def group_order(M):
    """order of a finite Coxeter group from the degrees (None if infinite)."""
    n = 1
    for c in components(M):
        if not is_finite(M, c):
            return None
        for d in finite_degrees(M, c):
            n *= d
    return n


# ---------------------------------------------------------------------------
# Cartan matrices

def cartan_valid(C, M, tol=1e-9):
    """is C a Cartan matrix *for this Coxeter matrix* in Vinberg's sense, as far
    as the pairwise relations need it: c_ii = 2; for finite m_ij:
    c_ij c_ji = 4 cos^2(pi/m_ij), both <= 0, both zero when m_ij = 2."""
    C = np.asarray(C, dtype=float)
    n = len(M)
    if C.shape != (n, n) or not np.all(np.isfinite(C)):
        return False
    for i in range(n):
        if abs(C[i, i] - 2.0) > tol:
            return False
        for j in range(n):
            if i == j or M[i][j] == 0:
                continue
            if M[i][j] == 2:
                if abs(C[i, j]) > tol or abs(C[j, i]) > tol:
                    return False
                continue
            if C[i, j] > tol:
                return False
            want = 4.0 * math.cos(math.pi / M[i][j]) ** 2
            if abs(C[i, j] * C[j, i] - want) > tol * max(1.0, want):
                return False
    return True


# ---------------------------------------------------------------------------
# hyperbolic plane helpers for the triangle check (form diag(-1, 1, 1), time
# coordinate first)

def mink(x, y):
    x = np.asarray(x, dtype=float)
    y = np.asarray(y, dtype=float)
    return -x[..., 0] * y[..., 0] + np.sum(x[..., 1:] * y[..., 1:], axis=-1)


def fixed_vector(N):
    """unit vector spanning the (numerical) kernel of N - I for a matrix acting
    on column vectors, and the gap (second smallest singular value)."""
    N = np.asarray(N, dtype=float)
    u, s, vt = np.linalg.svd(N - np.eye(N.shape[-1]))
    return vt[-1], float(s[-2]), float(s[-1])


def vertex_kind(v, margin=1e-7):
    """'interior' / 'ideal' / 'exterior' with a relative margin."""
    v = np.asarray(v, dtype=float)
    q = float(mink(v, v) / np.dot(v, v))
    if q < -margin:
        return "interior"
    if q > margin:
        return "exterior"
    return "ideal"


def angle_at_vertex(P, Q1, Q2):
    """interior angle at the interior point P of the geodesic triangle with the
    other two vertices Q1, Q2 interior or ideal (homogeneous coordinates, any
    non-zero representatives).  Tangent direction towards Q at the unit
    representative h of P: Q + <Q,h> h with Q oriented so that <Q,h> < 0."""
    P = np.asarray(P, dtype=float)
    h = P / math.sqrt(-float(mink(P, P)))
    dirs = []
    for Q in (Q1, Q2):
        Q = np.asarray(Q, dtype=float)
        Q = Q / np.max(np.abs(Q))
        if mink(Q, h) > 0:
            Q = -Q
        t = Q + mink(Q, h) * h
        dirs.append(t)
    a, b = dirs
    c = float(mink(a, b)) / math.sqrt(float(mink(a, a)) * float(mink(b, b)))
    return math.acos(max(-1.0, min(1.0, c)))


def triangle_is_hyperbolic(p, q, r):
    """1/p + 1/q + 1/r < 1 exactly (0 = infinity)."""
    s = sum(Fraction(1, m) for m in (p, q, r) if m > 0)
    return s < 1


# ---------------------------------------------------------------------------
# any-length numeric oracles and a reference automaton (witness finder)

def _reflect(B, s, v):
    """sigma_s(v) = v - 2 B(alpha_s, v) alpha_s, in place on a copy."""
    v = v.copy()
    v[s] -= 2.0 * float(B[s] @ v)
    return v


def _root_sign(v):
    """+1 / -1 for a root vector (all coefficients of one sign, the non-zero
    ones >= 1 in modulus); raises when rounding noise has destroyed that."""
    hi, lo = float(np.max(v)), float(np.min(v))
    noise = 1e-7 * max(1.0, hi, -lo)
    if hi >= 0.5 and lo > -noise:
        return 1
    if lo <= -0.5 and hi < noise:
        return -1
    raise ArithmeticError("root coordinates lost their sign pattern: %r" % (v,))


def is_reduced_numeric(M, word, B=None):
    """same criterion as reduced_by_roots, O(k^2 n) with vector reflections."""
    B = cosine_matrix(M) if B is None else B
    n = len(M)
    for i, s in enumerate(word):
        v = np.zeros(n)
        v[s] = 1.0
        for t in reversed(word[:i]):
            v = _reflect(B, t, v)
        if _root_sign(v) < 0:
            return False
    return True


def is_shortlex_numeric(M, word, B=None):
    """a reduced word s1..sk is the lexicographically least reduced word of its
    element iff for every i no generator t < s_i is a left descent of the
    suffix u_i = s_i..s_k, i.e. u_i^-1(alpha_t) = s_k..s_i(alpha_t) > 0.
    (If w' < w were another reduced word of the element, first differing at
    position i with letter t < s_i, then t would be a left descent of u_i.)"""
    B = cosine_matrix(M) if B is None else B
    if not is_reduced_numeric(M, word, B):
        return False
    n = len(M)
    k = len(word)
    for i in range(k):
        for t in range(word[i]):
            v = np.zeros(n)
            v[t] = 1.0
            for s in word[i:]:
                v = _reflect(B, s, v)
            if _root_sign(v) < 0:
                return False
    return True


class ReferenceAutomaton:
    """Brink-Howlett style automaton written independently of the library
    (states = frozensets of elementary-root indices, computed lazily).  It is a
    *witness finder* only: a word on which it disagrees with the library's
    automaton is then judged by the exact numeric oracles above, never by this
    class."""

    def __init__(self, M, shortlex):
        self.M = M
        self.n = n = len(M)
        self.shortlex = shortlex
        self.B = B = cosine_matrix(M)
        roots = [np.eye(n)[i] for i in range(n)]
        index = {self._key(r): i for i, r in enumerate(roots)}
        i = 0
        while i < len(roots):
            beta = roots[i]
            for s in range(n):
                f = float(B[s] @ beta)
                if -1.0 + 1e-9 < f < -1e-9:
                    g = beta.copy()
                    g[s] -= 2.0 * f
                    k = self._key(g)
                    if k not in index:
                        index[k] = len(roots)
                        roots.append(g)
            i += 1
            if len(roots) > 5000:
                raise OverflowError("too many elementary roots")
        self.roots = roots
        R = len(roots)
        # act[r][s] = index of s(root r) when that is an elementary root, else -1
        self.act = [[-1] * n for _ in range(R)]
        for r, beta in enumerate(roots):
            for s in range(n):
                if r == s:
                    continue
                g = _reflect(B, s, beta)
                self.act[r][s] = index.get(self._key(g), -1)
        # preimages: for letter s, pairs (r, act[r][s])
        self.pre = [[(r, self.act[r][s]) for r in range(R) if self.act[r][s] >= 0]
                    for s in range(n)]
        self.lex_add = [[self.act[j][s] for j in range(s) if self.act[j][s] >= 0]
                        for s in range(n)]
        self.start = frozenset()
        self._cache = {}

    @staticmethod
    def _key(v):
        return tuple(int(round(x * 1e7)) for x in v)

    def step(self, state, s):
        """next state or None when the letter is not allowed."""
        if s in state:
            return None
        k = (state, s)
        nxt = self._cache.get(k)
        if nxt is None:
            new = {s}
            for r, img in self.pre[s]:
                if img in state:
                    new.add(r)
            if self.shortlex:
                new.update(self.lex_add[s])
            nxt = self._cache[k] = frozenset(new)
        return nxt

    def accepts(self, word):
        st = self.start
        for s in word:
            st = self.step(st, s)
            if st is None:
                return False
        return True
