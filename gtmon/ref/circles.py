"""Independent reference for circle / sphere descriptions of hyperbolic objects
in the conformal models (C14, C19).  numpy only; never imports geometry_tools.

Conventions (those of gtmon.ref.hyp): homogeneous row vectors X = (x0, x1..xn)
with form -x0^2 + x1^2 + ... ; Klein k = X[1:]/X[0]; the half-space model's
point at infinity is the Klein point (1, 0, ..., 0) and the height is the last
half-space coordinate.

Formulas are chosen to differ from the library's:
  * charts are evaluated directly on homogeneous coordinates
    (Poincare p = X[1:]/(x0 + s), half-space h = (-X[2:], s)/(x0 - x1),
    s = sqrt(-<X,X>)), not by composing Klein -> Poincare -> half-space;
  * ideal endpoints come from the chord parameter equation
    |a + t u|^2 = 1, not from the quadratic in the Minkowski products;
  * the Poincare sphere of a subspace is the *pole* c = m/|m|^2 of the affine
    span of its ideal points (m = foot of the origin, by SVD pseudo-inverse),
    not midpoint + sphere inversion; the half-space sphere is the circumsphere
    of the boundary points inside their affine span;
  * the Poincare horosphere radius comes from the Busemann value
    beta = -<P_hyperboloid, (1,e)>, rho = beta/(1+beta).
"""
import numpy as np

from . import hyp as rh

TWO_PI = 2.0 * np.pi


# -- representatives and charts -------------------------------------------------

def pos_rep(X):
    """representative with positive time coordinate."""
    X = np.asarray(X, dtype=float)
    return X * np.where(X[..., :1] < 0, -1.0, 1.0)


def klein_of_proj(X):
    X = np.asarray(X, dtype=float)
    with np.errstate(all="ignore"):
        return X[..., 1:] / X[..., :1]


def _s(X, ideal=False):
    if ideal:
        return np.zeros(X.shape[:-1])
    return np.sqrt(np.clip(-rh.mink_sq(X), 0.0, None))


def poincare_of_proj(X, ideal=False):
    """Poincare coordinates straight from homogeneous coordinates.  With
    ideal=True the vector is treated as exactly lightlike (no sqrt(eps) loss)."""
    X = pos_rep(X)
    s = _s(X, ideal)
    with np.errstate(all="ignore"):
        return X[..., 1:] / (X[..., :1] + s[..., None])


def halfspace_of_proj(X, ideal=False):
    X = pos_rep(X)
    s = _s(X, ideal)
    with np.errstate(all="ignore"):
        den = X[..., 0] - X[..., 1]
        return np.concatenate([-X[..., 2:], s[..., None]], axis=-1) / den[..., None]


def model_of_proj(X, model, ideal=False):
    if model == "klein":
        return klein_of_proj(X)
    if model == "poincare":
        return poincare_of_proj(X, ideal)
    if model == "halfspace":
        return halfspace_of_proj(X, ideal)
    raise ValueError(model)


def model_of_klein(k, model, ideal=False):
    k = np.asarray(k, dtype=float)
    if ideal:
        nk = np.linalg.norm(k, axis=-1, keepdims=True)
        k = k / nk
    return model_of_proj(rh.klein_to_proj(k), model, ideal)


def halfspace_to_klein(h):
    """inverse chart: with D = x0 - x1 = 1: X2.. = -v, S = x0 + x1 = z^2+|v|^2."""
    h = np.asarray(h, dtype=float)
    v = h[..., :-1]
    z = h[..., -1]
    S = z * z + np.sum(v * v, axis=-1)
    return np.concatenate([(S - 1.0)[..., None], -2.0 * v], axis=-1) / (S + 1.0)[..., None]


def model_to_klein(x, model):
    if model == "klein":
        return np.asarray(x, dtype=float)
    if model == "poincare":
        return rh.poincare_to_klein(x)
    if model == "halfspace":
        return halfspace_to_klein(x)
    raise ValueError(model)


def model_dist(x, y, model):
    if model == "poincare":
        return rh.dist_poincare(x, y)
    if model == "halfspace":
        return rh.dist_halfspace(x, y)
    if model == "klein":
        return rh.dist_klein(x, y)
    raise ValueError(model)


def inside_model(x, model):
    x = np.asarray(x, dtype=float)
    if model in ("poincare", "klein"):
        return np.sum(x * x, axis=-1) < 1.0
    return x[..., -1] > 0.0


def inf_distance(k):
    """Euclidean distance of Klein points from the half-space point at infinity."""
    k = np.asarray(k, dtype=float)
    e = np.zeros(k.shape[-1])
    e[0] = 1.0
    return np.linalg.norm(k - e, axis=-1)


# -- chords, ideal endpoints -----------------------------------------------------

def chord(ka, kb):
    """unit direction u (a -> b), signed foot parameter t_m (foot m = a + t_m u),
    foot m, separation |b - a|."""
    ka = np.asarray(ka, dtype=float)
    kb = np.asarray(kb, dtype=float)
    w = kb - ka
    sep = np.linalg.norm(w, axis=-1)
    with np.errstate(all="ignore"):
        u = w / sep[..., None]
    tm = -np.sum(ka * u, axis=-1)
    m = ka + tm[..., None] * u
    return u, tm, m, sep


def ideal_endpoints(ka, kb):
    """Klein coordinates (..., 2, n) of the two ideal points of the line through
    ka, kb: index 0 lies beyond a, index 1 beyond b.  |a + t u|^2 = 1."""
    ka = np.asarray(ka, dtype=float)
    u, tm, m, sep = chord(ka, kb)
    au = np.sum(ka * u, axis=-1)
    disc = au * au + (1.0 - np.sum(ka * ka, axis=-1))
    root = np.sqrt(np.clip(disc, 0.0, None))
    e0 = ka + (-au - root)[..., None] * u
    e1 = ka + (-au + root)[..., None] * u
    E = np.stack([e0, e1], axis=-2)
    return E / np.linalg.norm(E, axis=-1, keepdims=True)


def poincare_circle(ka, kb):
    """(centre, radius, |m|) of the Poincare circle carrying the geodesic through
    the Klein points ka, kb: the centre is the pole m/|m|^2 of the chord."""
    u, tm, m, sep = chord(ka, kb)
    mm = np.sum(m * m, axis=-1)
    with np.errstate(all="ignore"):
        c = m / mm[..., None]
        r = np.sqrt(np.clip(1.0 - mm, 0.0, None) / mm)
    return c, r, np.sqrt(mm)


def halfspace_circle(E):
    """(centre, radius) of the half-space circle through the ideal points
    E (..., 2, n) (Klein unit vectors)."""
    H = model_of_klein(E, "halfspace", ideal=True)
    c = 0.5 * (H[..., 0, :] + H[..., 1, :])
    r = 0.5 * np.linalg.norm(H[..., 0, :] - H[..., 1, :], axis=-1)
    return c, r


def geodesic_circle(ka, kb, model):
    if model == "poincare":
        c, r, _ = poincare_circle(ka, kb)
        return c, r
    return halfspace_circle(ideal_endpoints(ka, kb))


# -- subspaces ---------------------------------------------------------------------

def affine_foot(E):
    """foot of the origin on the affine span of the points E (..., k, n):
    m = e0 - proj_{rowspace(D)} e0,  D = rows e_i - e_0 (SVD pseudo-inverse)."""
    E = np.asarray(E, dtype=float)
    e0 = E[..., 0, :]
    D = E[..., 1:, :] - E[..., :1, :]
    if D.shape[-2] == 0:
        return e0
    Dp = np.linalg.pinv(D)                      # (..., n, k-1)
    coef = np.einsum("...n,...nk->...k", e0, Dp)
    return e0 - np.einsum("...k,...kn->...n", coef, D)


def circumsphere(P):
    """(centre, radius) of the sphere through the points P (..., k, n) with
    centre in their affine span:  2 D x = |d_i|^2, x in rowspace(D)."""
    P = np.asarray(P, dtype=float)
    p0 = P[..., 0, :]
    D = P[..., 1:, :] - P[..., :1, :]
    rhs = 0.5 * np.sum(D * D, axis=-1)
    Dp = np.linalg.pinv(D)                      # (..., n, k-1)
    x = np.einsum("...nk,...k->...n", Dp, rhs)
    return p0 + x, np.linalg.norm(x, axis=-1)


def subspace_sphere(E, model):
    """reference sphere of the totally geodesic subspace whose ideal boundary
    contains the Klein unit vectors E (..., k, n) (k >= 2, affinely independent)."""
    E = np.asarray(E, dtype=float)
    if model == "poincare":
        m = affine_foot(E)
        mm = np.sum(m * m, axis=-1)
        with np.errstate(all="ignore"):
            return m / mm[..., None], np.sqrt(np.clip(1.0 - mm, 0.0, None) / mm)
    H = model_of_klein(E, "halfspace", ideal=True)
    return circumsphere(H)


def affine_independence(E):
    """smallest singular value of the difference matrix (general-position margin)."""
    E = np.asarray(E, dtype=float)
    D = E[..., 1:, :] - E[..., :1, :]
    return np.linalg.svd(D, compute_uv=False)[..., -1]


def more_ideal_points(E, rng, count=4):
    """further ideal points (Klein unit vectors, shape (count, n)) of the
    subspace spanned by one unit basis E (k, n): chords through the foot."""
    E = np.asarray(E, dtype=float)
    m = affine_foot(E)
    D = E[1:] - E[:1]
    out = []
    for _ in range(count):
        lam = rng.normal(size=D.shape[0])
        w = lam @ D
        nw = np.linalg.norm(w)
        if nw == 0:
            continue
        u = w / nw
        # m is orthogonal to the direction space: |m + t u|^2 = |m|^2 + t^2
        t = np.sqrt(max(0.0, 1.0 - float(m @ m)))
        e = m + t * u
        out.append(e / np.linalg.norm(e))
    return np.array(out)


# -- horospheres -------------------------------------------------------------------

def horosphere_sphere(e, P, model):
    """(centre, radius) of the horosphere centred at the ideal Klein unit
    vector e through the interior point with homogeneous coordinates P."""
    e = np.asarray(e, dtype=float)
    e = e / np.linalg.norm(e, axis=-1, keepdims=True)
    Ph = rh.hyperboloid_pos(P)
    Evec = rh.klein_to_proj(e)
    if model == "poincare":
        beta = -rh.mink(Ph, Evec)
        rho = beta / (1.0 + beta)
        return e * (1.0 - rho)[..., None], rho
    # half-space: Euclidean sphere tangent to the boundary at a = chart(e)
    a = halfspace_of_proj(Evec, ideal=True)
    x = halfspace_of_proj(Ph)
    with np.errstate(all="ignore"):
        R = np.sum((x - a) ** 2, axis=-1) / (2.0 * x[..., -1])
    c = a.copy()
    c[..., -1] = R
    return c, R


# -- arcs -----------------------------------------------------------------------------

def arc_span(th):
    th = np.asarray(th, dtype=float)
    return np.mod(th[..., 1] - th[..., 0], TWO_PI)


def arc_points(c, r, th, fracs):
    """points of the counter-clockwise arc from th[...,0] to th[...,1] at the
    given fractions; shape (..., len(fracs), 2)."""
    c = np.asarray(c, dtype=float)
    r = np.asarray(r, dtype=float)
    th = np.asarray(th, dtype=float)
    fr = np.asarray(fracs, dtype=float)
    ang = th[..., :1] + arc_span(th)[..., None] * fr
    return c[..., None, :] + r[..., None, None] * np.stack(
        [np.cos(ang), np.sin(ang)], axis=-1)


def angle_in_ccw_arc(th, phi):
    """position of the angle phi inside the ccw arc th0 -> th1 as a fraction of
    the span (values in (0,1) are inside)."""
    th = np.asarray(th, dtype=float)
    span = arc_span(th)
    rel = np.mod(phi - th[..., 0], TWO_PI)
    with np.errstate(all="ignore"):
        return rel / span


def unordered_pair_error(A, B):
    """max deviation between two (..., 2, n) pairs of points, the better of the
    two orders, per unit."""
    A = np.asarray(A, dtype=float)
    B = np.asarray(B, dtype=float)
    d = np.max(np.linalg.norm(A - B, axis=-1), axis=-1)
    s = np.max(np.linalg.norm(A - B[..., ::-1, :], axis=-1), axis=-1)
    return np.minimum(d, s)


# -- "on the hyperbolic segment" ---------------------------------------------------

def between_defect(p, q, x, model):
    """|d(p,x) + d(x,q) - d(p,q)| with the reference distances of ref.hyp, all
    points given in `model` coordinates; x of shape (..., m, n), p, q (..., n).
    Points outside the model give +inf."""
    p = np.asarray(p, dtype=float)[..., None, :]
    q = np.asarray(q, dtype=float)[..., None, :]
    x = np.asarray(x, dtype=float)
    with np.errstate(all="ignore"):
        d = np.abs(model_dist(p, x, model) + model_dist(x, q, model)
                   - model_dist(p, q, model))
    ok = inside_model(x, model) & np.isfinite(d)
    return np.where(ok, d, np.inf)


def chord_position(ka, kb, x, model):
    """for endpoints that may be ideal: Klein chord parameter tau of x (0 at a,
    1 at b) and the Euclidean Klein distance of x from the chord line."""
    kx = model_to_klein(x, model)
    ka = np.asarray(ka, dtype=float)[..., None, :]
    kb = np.asarray(kb, dtype=float)[..., None, :]
    w = kb - ka
    ww = np.sum(w * w, axis=-1)
    tau = np.sum((kx - ka) * w, axis=-1) / ww
    off = np.linalg.norm(kx - ka - tau[..., None] * w, axis=-1)
    return tau, off
