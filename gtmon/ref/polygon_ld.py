"""Regular hyperbolic n-gon formulas in extended precision (numpy only; never
imports geometry_tools).  Used by C13 at the near-Euclidean end of the
admissible range, where the interior angle a is within delta of (n-2)pi/n and

    sinh^2 R = cos(a/2 + pi/n) cos(a/2 - pi/n) / (sin(a/2) sin(pi/n))^2,
    cos(a/2 + pi/n) = sin(delta/2),     R^2 ~ 2 delta / sin(2 pi/n):

the circumradius is determined by the *deficit* delta, which float64 arithmetic
on a and pi only knows to ~eps (relative eps/delta).  Here the argument a is
taken as exact data, pi and the subtraction are carried in np.longdouble (64-bit
mantissa where available), so that the reference itself is good to ~1e-19/delta
and a tolerance K eps/delta is entirely the library's allowance.
"""
import numpy as np

LD = np.longdouble
HAVE_LD = bool(np.finfo(LD).eps < 1e-18)
PI = 4 * np.arctan(LD(1))


def max_angle_ld(n):
    n = np.asarray(n, dtype=float).astype(LD)
    return (n - 2) * PI / n


def deficit(n, a):
    """(n-2)pi/n - a for float64 data a, in extended precision, as float64."""
    a = np.asarray(a, dtype=float).astype(LD)
    return np.asarray(max_angle_ld(n) - a, dtype=float)


def radius(n, a):
    """circumradius of the regular n-gon with interior angle a."""
    n = np.asarray(n, dtype=float).astype(LD)
    al = np.asarray(a, dtype=float).astype(LD) / 2
    ga = PI / n
    num = np.sin(PI / 2 - al - ga) * np.cos(al - ga)
    with np.errstate(all="ignore"):
        r = np.arcsinh(np.sqrt(np.clip(num, 0, None)) / (np.sin(al) * np.sin(ga)))
    return np.asarray(r, dtype=float)


def angle(n, R):
    """interior angle of the regular n-gon of circumradius R:
    tan(a/2) = cot(pi/n) / cosh R (atan2 form), as float64."""
    return np.asarray(angle_ld(n, R), dtype=float)


def angle_ld(n, R):
    n = np.asarray(n, dtype=float).astype(LD)
    R = np.asarray(R, dtype=float).astype(LD)
    return 2 * np.arctan2(1 / np.tan(PI / n), np.cosh(R))


def angle_deficit(n, R):
    """(n-2)pi/n - angle(n, R), without the cancellation of that subtraction
    in float64 (carried out in extended precision)."""
    return np.asarray(max_angle_ld(n) - angle_ld(n, R), dtype=float)


def side(n, R):
    """side length: sinh(s/2) = sinh R sin(pi/n)."""
    n = np.asarray(n, dtype=float).astype(LD)
    R = np.asarray(R, dtype=float).astype(LD)
    return np.asarray(2 * np.arcsinh(np.sinh(R) * np.sin(PI / n)), dtype=float)
