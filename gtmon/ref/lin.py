"""Independent reference linear algebra for C16 / C18 (numpy only; never imports
geometry_tools).

Everything here works on real or complex data, on one matrix at a time unless
said otherwise (monitors loop over batch indices with np.ndindex: the arrays
are tiny).  Subspace comparisons are done with orthonormal bases obtained from
an SVD and *relative* residuals; ranks are SVD ranks with an explicit gap
requirement, so that a caller can tell "rank r with margin" from "undecided".
"""
import numpy as np


# -- ranks and spans ----------------------------------------------------------

def sing(M):
    M = np.atleast_2d(np.asarray(M))
    if M.size == 0:
        return np.zeros(0)
    return np.linalg.svd(M, compute_uv=False)


def rank_gap(M, small=1e-10, large=1e-6):
    """(rank, decided): singular values relative to the largest one are
    'zero' below `small` and 'non-zero' above `large`; anything in between
    makes the rank undecided."""
    s = sing(M)
    if s.size == 0 or s[0] == 0:
        return 0, True
    rel = s / s[0]
    decided = not np.any((rel > small) & (rel < large))
    return int(np.count_nonzero(rel >= large)), bool(decided)


def rank(M, tol=1e-8):
    s = sing(M)
    if s.size == 0 or s[0] == 0:
        return 0
    return int(np.count_nonzero(s / s[0] > tol))


def orth_rows(A, tol=1e-10):
    """orthonormal (Hermitian) basis of the row space of A, as rows."""
    A = np.atleast_2d(np.asarray(A))
    if A.size == 0:
        return np.zeros((0, A.shape[-1]), dtype=A.dtype)
    u, s, vh = np.linalg.svd(A, full_matrices=False)
    if s.size == 0 or s[0] == 0:
        return np.zeros((0, A.shape[-1]), dtype=A.dtype)
    r = int(np.count_nonzero(s / s[0] > tol))
    return vh[:r]


def out_of_span(rows, basis_rows):
    """max over the given rows of |component outside span(basis_rows)| /
    |row| (0 for an empty set of rows; 1 if the basis is empty)."""
    rows = np.atleast_2d(np.asarray(rows))
    if rows.shape[0] == 0:
        return 0.0
    Q = orth_rows(basis_rows)
    nr = np.linalg.norm(rows, axis=-1)
    nr = np.where(nr == 0, 1.0, nr)
    if Q.shape[0] == 0:
        return float(np.max(np.linalg.norm(rows, axis=-1) / nr))
    comp = rows - (rows @ Q.conj().T) @ Q
    return float(np.max(np.linalg.norm(comp, axis=-1) / nr))


def span_distance(A, B):
    """symmetric 'distance' between the row spaces of A and B: the larger of
    the two out-of-span components; dimension mismatch gives >= 1."""
    QA, QB = orth_rows(A), orth_rows(B)
    if QA.shape[0] != QB.shape[0]:
        return 1.0 + abs(QA.shape[0] - QB.shape[0])
    if QA.shape[0] == 0:
        return 0.0
    return max(out_of_span(QA, QB), out_of_span(QB, QA))


def transversality(A, B):
    """For row spaces U, V of dimensions a, b in K^n with a + b >= n:
    the smallest of the n largest singular values of the stacked orthonormal
    bases, i.e. how robustly U + V = K^n (0 = not transverse, <= sqrt 2)."""
    QA, QB = orth_rows(A), orth_rows(B)
    n = QA.shape[-1]
    s = sing(np.concatenate([QA, QB], axis=0))
    if s.size < n:
        return 0.0
    return float(s[n - 1])


# -- symmetric forms -----------------------------------------------------------

def sym_defect(F):
    F = np.asarray(F)
    sc = np.max(np.abs(F)) if F.size else 1.0
    if sc == 0:
        return 0.0
    return float(np.max(np.abs(F - np.swapaxes(F, -1, -2))) / sc)


def signature(F, rel=1e-3):
    """(n_pos, n_neg, gap_ok) of a real symmetric matrix from its eigenvalues
    (symmetrised first); gap_ok when every |eigenvalue| >= rel * max."""
    F = np.asarray(F, dtype=float)
    ev = np.linalg.eigvalsh((F + F.T) / 2)
    m = np.max(np.abs(ev)) if ev.size else 0.0
    if m == 0:
        return 0, 0, False
    ok = bool(np.all(np.abs(ev) >= rel * m))
    return int(np.sum(ev > 0)), int(np.sum(ev < 0)), ok


def spectral_norm(F):
    s = sing(F)
    return float(s[0]) if s.size else 0.0


def gram(rows, F=None):
    rows = np.atleast_2d(np.asarray(rows))
    if F is None:
        return rows @ rows.T
    return rows @ np.asarray(F) @ rows.T


def pivots(rows, F=None):
    """Leading principal minors m_j of the Gram matrix of the *normalised*
    rows (Euclidean unit rows, form scaled to spectral norm 1) and the pivots
    m_j / m_(j-1) = square-norms of the Gram-Schmidt vectors.  By Jacobi's rule
    sign(pivot_j) is the sign of the j-th orthogonalised vector's norm.
    Returns (minors, pivots) as arrays of length k (determinant formula, not a
    Gram-Schmidt sweep)."""
    rows = np.atleast_2d(np.asarray(rows, dtype=float))
    k = rows.shape[0]
    nr = np.linalg.norm(rows, axis=-1, keepdims=True)
    nr = np.where(nr == 0, 1.0, nr)
    R = rows / nr
    if F is None:
        G = R @ R.T
    else:
        F = np.asarray(F, dtype=float)
        sn = spectral_norm(F)
        G = R @ (F / (sn if sn > 0 else 1.0)) @ R.T
    minors = np.array([np.linalg.det(G[:j, :j]) for j in range(1, k + 1)])
    prev = np.concatenate([[1.0], minors[:-1]])
    with np.errstate(all="ignore"):
        piv = np.where(prev != 0, minors / np.where(prev == 0, 1.0, prev), 0.0)
    return minors, piv


def pm1_diag_defect(G):
    """(max |off-diagonal|, max | |diag| - 1 |) of a square matrix."""
    G = np.asarray(G)
    n = G.shape[-1]
    if n == 0:
        return 0.0, 0.0
    off = G - np.diag(np.diag(G))
    return (float(np.max(np.abs(off))) if n > 1 else 0.0,
            float(np.max(np.abs(np.abs(np.diag(G)) - 1.0))))


def sign_order_ok(signs, order, n_pos, n_neg):
    """Is the sign sequence of a diagonal form in the requested order?
    'signed'   : all negatives, then all positives.
    'minkowski': the rarer sign first; on a tie either sign may come first.
    Returns (ok, tie)."""
    signs = [int(np.sign(s)) for s in signs]
    negfirst = [-1] * n_neg + [1] * n_pos
    posfirst = [1] * n_pos + [-1] * n_neg
    if order == "signed":
        return signs == negfirst, False
    if order == "minkowski":
        if n_neg < n_pos:
            return signs == negfirst, False
        if n_pos < n_neg:
            return signs == posfirst, False
        return signs in (negfirst, posfirst), True
    raise ValueError(order)


# -- random inputs ---------------------------------------------------------------

def rand_cond_matrix(rng, n, cond_max=50.0, complex_=False):
    """random invertible n x n with condition number <= cond_max:
    U diag(s) V with log-uniform singular values."""
    def orth():
        A = rng.normal(size=(n, n))
        if complex_:
            A = A + 1j * rng.normal(size=(n, n))
        Q, R = np.linalg.qr(A)
        return Q
    c = np.exp(rng.uniform(0, np.log(cond_max)))
    s = np.exp(rng.uniform(0, np.log(c), size=n))
    if n > 1:
        s[0], s[-1] = c, 1.0
    return orth() @ np.diag(s) @ orth()


def rand_form(rng, p, q, cond_max=50.0):
    """symmetric form of signature (p positive, q negative) as Q^T D Q."""
    n = p + q
    Q = rand_cond_matrix(rng, n, cond_max)
    D = np.diag([1.0] * p + [-1.0] * q)
    F = Q.T @ D @ Q
    return (F + F.T) / 2


def rand_rank_matrix(rng, m, n, r, complex_=False):
    """m x n matrix of exact rank r (product of well-conditioned factors)."""
    if r == 0:
        return np.zeros((m, n), dtype=complex if complex_ else float)

    def fac(a, b):
        A = rng.normal(size=(a, b))
        if complex_:
            A = A + 1j * rng.normal(size=(a, b))
        Q, _ = np.linalg.qr(A) if a >= b else np.linalg.qr(A.conj().T)
        return Q if a >= b else Q.conj().T
    s = np.exp(rng.uniform(0, np.log(20.0), size=r))
    return fac(m, r) @ np.diag(s) @ fac(r, n)


# -- spheres -----------------------------------------------------------------------

def simplex_margin(points):
    """smallest singular value of the edge matrix (p_i - p_0) after scaling
    the longest edge to 1: 0 for affinely dependent points."""
    P = np.asarray(points, dtype=float)
    E = P[1:] - P[:1]
    if E.shape[0] == 0:
        return 1.0
    ln = np.max(np.linalg.norm(E, axis=-1))
    if ln == 0 or not np.isfinite(ln):
        return 0.0
    s = sing(E / ln)
    return float(s[-1]) if s.size == E.shape[1] else 0.0


def sphere_residual(points, center, radius):
    """max_i | |p_i - c| - r | / max(r, diameter of the point set)."""
    P = np.asarray(points, dtype=float)
    c = np.asarray(center, dtype=float)
    d = np.linalg.norm(P - c, axis=-1)
    diam = np.max(np.linalg.norm(P - P[:1], axis=-1)) if P.shape[0] > 1 else 1.0
    sc = max(float(abs(radius)), float(diam), 1e-300)
    return float(np.max(np.abs(d - radius)) / sc)


# -- angles ---------------------------------------------------------------------------

TWO_PI = 2.0 * np.pi


def ccw(a, b):
    """length in [0, 2pi) of the counter-clockwise arc from angle a to b."""
    return float(np.mod(b - a, TWO_PI))


def ang_dist(a, b):
    """distance on the circle between two angles."""
    d = np.mod(a - b, TWO_PI)
    return float(min(d, TWO_PI - d))


def same_angle_pair(out, inp, mod_2pi):
    """residual for 'out is the same unordered pair of angles as inp'
    (exactly, or modulo 2pi)."""
    o0, o1 = float(out[0]), float(out[1])
    i0, i1 = float(inp[0]), float(inp[1])
    if mod_2pi:
        d = min(max(ang_dist(o0, i0), ang_dist(o1, i1)),
                max(ang_dist(o0, i1), ang_dist(o1, i0)))
    else:
        d = min(max(abs(o0 - i0), abs(o1 - i1)),
                max(abs(o0 - i1), abs(o1 - i0)))
    return d
