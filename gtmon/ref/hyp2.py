"""Reference geometry for C01 / C13 (numpy only; never imports geometry_tools).
Complements ref/hyp.py (same conventions: R^(n,1) with J = diag(-1,1,..,1),
homogeneous row vectors (x0, x1..xn), Klein coordinates k = x[1:]/x[0]).

* extended-precision reference distance (np.longdouble where it is wider than
  float64) in the cancellation-free Poincare arcsinh form,
* the closed-form metric of every model in a form that is stable for nearly
  coincident points (so that what is judged is the *coordinates* the library
  returned, not the conditioning of arccosh at 1),
* tolerance model of DESIGN.md section 5/C01 (+ square-root rule of 2.4),
* generators for the input classes (bulk, near-boundary, near-coincident,
  ideal points away from the half-space point at infinity, half-space data),
* tangent vectors / exponential map / regular polygon formulas for C13.
"""
import math
import numpy as np

from . import hyp as rh

LD = np.longdouble
HAVE_LD = bool(np.finfo(LD).eps < 1e-18)


# -- radii / classification ---------------------------------------------------

def one_minus_r_klein(k):
    """1 - |k| for Klein coordinates, without cancellation: (1-r^2)/(1+r)."""
    k = np.asarray(k, dtype=float)
    r2 = np.sum(k * k, axis=-1)
    return (1.0 - r2) / (1.0 + np.sqrt(r2))


def one_minus_r_proj(P):
    """1 - (Klein radius) of homogeneous vectors: -<x,x>/x0^2/(1+r)."""
    P = np.asarray(P, dtype=float)
    x0 = P[..., 0]
    with np.errstate(all="ignore"):
        r2 = np.sum(P[..., 1:] ** 2, axis=-1) / (x0 * x0)
        return (1.0 - r2) / (1.0 + np.sqrt(r2))


def interior_mask(P, margin=1e-9):
    """timelike with a relative margin: <x,x> <= -margin |x|^2."""
    P = np.asarray(P, dtype=float)
    with np.errstate(all="ignore"):
        return rh.mink_sq(P) <= -margin * np.sum(P * P, axis=-1)


def omr_far(omr_p, t):
    """1 - (Klein radius) of the farthest point at hyperbolic distance |t| from
    a point with 1 - (Klein radius) = omr_p.  This is the conditioning of
    'move t along a geodesic from p' in float64: the pair (point, unit tangent)
    is only Minkowski-orthogonal up to eps/omr_p, which displaces the result
    by (eps/omr_p) sinh t cosh t along the geodesic whatever its direction."""
    omr_p = np.clip(np.asarray(omr_p, dtype=float), 1e-300, 1.0)
    e2rho = (2.0 - omr_p) / omr_p
    with np.errstate(all="ignore"):
        return 2.0 / (1.0 + np.exp(2.0 * np.abs(np.asarray(t, dtype=float))) * e2rho)


# -- reference distance -------------------------------------------------------------

def dist_klein_ref(kx, ky):
    """reference distance between Klein points: Poincare arcsinh form evaluated
    in extended precision (inputs are taken as exact)."""
    T = LD if HAVE_LD else np.float64
    x = np.asarray(kx, dtype=float).astype(T)
    y = np.asarray(ky, dtype=float).astype(T)
    one = T(1)
    sx = np.sqrt(np.clip(one - np.sum(x * x, axis=-1, keepdims=True), 0, None))
    sy = np.sqrt(np.clip(one - np.sum(y * y, axis=-1, keepdims=True), 0, None))
    p = x / (one + sx)
    q = y / (one + sy)
    num = np.sqrt(np.sum((p - q) ** 2, axis=-1))
    # 1-|p|^2 = 2 s/(1+s)   (exact identity; avoids a second cancellation)
    den = np.sqrt((2 * sx / (one + sx)) * (2 * sy / (one + sy)))[..., 0]
    with np.errstate(all="ignore"):
        d = 2 * np.arcsinh(num / den)
    return np.asarray(d, dtype=float)


def dist_proj_ref(P, Q):
    P = np.asarray(P, dtype=float)
    Q = np.asarray(Q, dtype=float)
    return dist_klein_ref(P[..., 1:] / P[..., :1], Q[..., 1:] / Q[..., :1])


def dist_tol(dref, omr):
    """tolerance for a library distance against the reference, DESIGN 5/C01:
    1e-7 + 1e-11/(1-r_max); for short distances the square-root rule
    (arccosh(1+e) ~ sqrt(2e), DESIGN 2.4) with e = 4e-13/(1-r_max)."""
    dref = np.asarray(dref, dtype=float)
    omr = np.maximum(np.asarray(omr, dtype=float), 1e-300)
    E = 4e-13 / omr
    with np.errstate(all="ignore"):
        short = np.minimum(E / np.maximum(np.sinh(np.minimum(dref, 50.0)), 1e-300),
                           np.sqrt(2 * E))
    return 1e-7 + np.maximum(1e-11 / omr, short)


def unresolved(dref, omr):
    """True where the pair is 'nearly coincident' for float64 arithmetic on
    the hyperboloid: cosh d - 1 is below the rounding level 4e-13/(1-r_max)
    of the Minkowski product (d <= sqrt(2E))."""
    dref = np.asarray(dref, dtype=float)
    omr = np.maximum(np.asarray(omr, dtype=float), 1e-300)
    return dref <= np.sqrt(8e-13 / omr)


def coord_tol(omr):
    """tolerance for a closed-form metric evaluated in a stable form on
    returned coordinates (no square-root rule needed)."""
    omr = np.maximum(np.asarray(omr, dtype=float), 1e-300)
    return 1e-7 + 1e-11 / omr


# -- closed-form metrics on coordinates, stable for coincident points ----------------

def cf_projective(P, Q):
    P = np.asarray(P, dtype=float)
    Q = np.asarray(Q, dtype=float)
    return rh.dist_klein(P[..., 1:] / P[..., :1], Q[..., 1:] / Q[..., :1])


def cf_hyperboloid(h1, h2):
    """chord form on the hyperboloid: <h1-h2,h1-h2> = 4 sinh^2(d/2) for
    representatives on the same sheet."""
    h1 = np.asarray(h1, dtype=float)
    h2 = np.asarray(h2, dtype=float)
    s = np.where(h1[..., :1] * h2[..., :1] < 0, -1.0, 1.0)
    dl = h1 - s * h2
    c = np.clip(rh.mink_sq(dl), 0.0, None)
    return 2.0 * np.arcsinh(np.sqrt(c) / 2.0)


def cf_klein(x, y):
    return rh.dist_klein(x, y)


def cf_poincare(p, q):
    return rh.dist_poincare(p, q)


def cf_halfspace(x, y):
    x = np.asarray(x, dtype=float)
    y = np.asarray(y, dtype=float)
    with np.errstate(all="ignore"):
        return 2.0 * np.arcsinh(np.linalg.norm(x - y, axis=-1) /
                                (2.0 * np.sqrt(x[..., -1] * y[..., -1])))


CLOSED_FORMS = {"projective": cf_projective, "hyperboloid": cf_hyperboloid,
                "klein": cf_klein, "poincare": cf_poincare,
                "halfspace": cf_halfspace}


# -- reference charts (from Klein truth) ------------------------------------------

# set by C01 only (each check is its own process): sign / extreme-magnitude
# classes of projective representatives.  C13's tangent-direction tolerances are
# calibrated for representatives of comparable scale (C12 bounds the disparity).
WILD_SCALES = False
# set by C13: random signs only (negative time coordinate), comparable scales
SIGN_FLIPS = False


def klein_to_model(k, model, rng=None):
    """coordinates of Klein points in `model` (not half-space: the half-space
    chart is judged convention-free).  projective: random non-zero scale per
    point when rng is given (see below)."""
    k = np.asarray(k, dtype=float)
    if model == "klein":
        return k.copy()
    if model == "poincare":
        return rh.klein_to_poincare(k)
    P = rh.klein_to_proj(k)
    if model == "projective":
        if rng is not None:
            # homogeneous representatives: per-point scale in [0.1,10]; in 30% of
            # the calls the signs are random too (negative time coordinate) and
            # in 20% the magnitudes range over 1e-9..1e9 (seeded changes C01-1,
            # C01-3: distance / normalisation that only work for representatives
            # of unit scale in the upper nappe)
            lead = k.shape[:-1] + (1,)
            scale = np.exp(rng.uniform(np.log(0.1), np.log(10.0), size=lead))
            u = rng.random() if (WILD_SCALES or SIGN_FLIPS) else 1.0
            if u < 0.3:
                scale = scale * rng.choice([-1.0, 1.0], size=lead)
            elif u < 0.5 and WILD_SCALES:
                scale = scale * 10.0 ** rng.uniform(-9, 9, size=lead)
            P = P * scale
        return P
    if model == "hyperboloid":
        return P / np.sqrt(np.clip(1.0 - np.sum(k * k, axis=-1, keepdims=True), 1e-300, None))
    raise ValueError(model)


def model_to_klein(c, model):
    """Klein coordinates from coordinates in a model with an unambiguous
    textbook chart (everything except half-space)."""
    c = np.asarray(c, dtype=float)
    if model == "klein":
        return c
    if model == "poincare":
        return rh.poincare_to_klein(c)
    if model in ("projective", "hyperboloid"):
        with np.errstate(all="ignore"):
            return c[..., 1:] / c[..., :1]
    raise ValueError(model)


# -- generators ------------------------------------------------------------------------

def rand_klein(rng, n, shape, cls):
    """Klein points of a radius class.
    bulk: r uniform in [0,0.95]; mid: 1-r log-uniform in [1e-4,5e-2];
    edge: 1-r log-uniform in [1e-8,1e-4]; origin: exactly 0 / tiny."""
    shape = tuple(shape)
    u = rh.rand_sphere(rng, n, shape)
    if cls == "bulk":
        r = rng.uniform(0.0, 0.95, size=shape + (1,))
    elif cls == "mid":
        r = 1.0 - np.exp(rng.uniform(np.log(1e-4), np.log(5e-2), size=shape + (1,)))
    elif cls == "edge":
        r = 1.0 - np.exp(rng.uniform(np.log(1e-8), np.log(1e-4), size=shape + (1,)))
    elif cls == "deep-edge":
        # interior points within 1e-8 of the boundary (hyperbolic distance
        # 10..14 from the origin): 1-r log-uniform in [1e-12,1e-8]
        r = 1.0 - np.exp(rng.uniform(np.log(1e-12), np.log(1e-8), size=shape + (1,)))
    elif cls == "origin":
        r = np.where(rng.random(size=shape + (1,)) < 0.5, 0.0,
                     np.exp(rng.uniform(np.log(1e-12), np.log(1e-3), size=shape + (1,))))
    else:
        raise ValueError(cls)
    return u * r


def near_point(rng, k, eps):
    """Klein point at Euclidean distance ~eps*(1-|k|) from k (so that the
    hyperbolic distance is ~eps up to a bounded factor), staying in the ball."""
    k = np.asarray(k, dtype=float)
    n = k.shape[-1]
    u = rh.rand_sphere(rng, n, k.shape[:-1])
    omr = one_minus_r_klein(k)[..., None]
    y = k + eps * omr * u
    # never leave the ball / never move outward past the radius of k by > omr/2
    return y


def rand_ideal(rng, n, shape, cone=1e-3):
    """unit vectors in R^n (Klein ideal points) at angle >= `cone` (plus a
    margin) from e_1 = Klein (1,0,..,0), the half-space point at infinity.
    In dimension 1 only the point -1 is available."""
    shape = tuple(shape)
    if n == 1:
        return -np.ones(shape + (1,))
    u = rh.rand_sphere(rng, n, shape)
    e = np.zeros(n)
    e[0] = 1.0
    bad = np.linalg.norm(u - e, axis=-1) < 3 * cone
    u[bad] = -u[bad]
    return u


def rand_halfspace(rng, n, shape, cls):
    """half-space coordinates (x_1..x_{n-1}, height) of a class.
    bulk: |x| ~ N(0,1), height log-uniform [0.05, 20];
    low: |x| ~ N(0,1)/2, height log-uniform [3e-4,1e-2];
    far: |x| ~ 30 N(0,1), height log-uniform [3,100]
    (all within 1 - Klein radius >~ 1e-8)."""
    shape = tuple(shape)
    x = rng.normal(size=shape + (n,))
    if cls == "bulk":
        h = np.exp(rng.uniform(np.log(0.05), np.log(20.0), size=shape))
    elif cls == "low":
        x = x * 0.5
        h = np.exp(rng.uniform(np.log(3e-4), np.log(1e-2), size=shape))
    elif cls == "far":
        x = x * 30.0
        h = np.exp(rng.uniform(np.log(3.0), np.log(100.0), size=shape))
    else:
        raise ValueError(cls)
    x[..., -1] = h
    return x


def halfspace_omr(x):
    """a lower bound for 1 - (Klein radius) of a half-space point, from the
    metric alone: distance D to the point (0,..,0,1) gives Poincare radius
    tanh(D/2) *up to the choice of origin*; conditioning is expressed through
    height/(1+|x|^2), which is chart-free up to a bounded factor."""
    x = np.asarray(x, dtype=float)
    h = x[..., -1]
    return np.minimum(1.0, (h / (1.0 + np.sum(x * x, axis=-1))) ** 2)


# -- projective comparison -------------------------------------------------------------

def proj_residual(a, b):
    """relative deviation of row vectors a from a scalar multiple of b (per
    unit), sign included in the scalar."""
    a = np.asarray(a, dtype=float)
    b = np.asarray(b, dtype=float)
    with np.errstate(all="ignore"):
        lam = np.sum(a * b, axis=-1, keepdims=True) / np.sum(b * b, axis=-1, keepdims=True)
        return np.linalg.norm(a - lam * b, axis=-1) / np.linalg.norm(a, axis=-1), lam[..., 0]


# -- tangent vectors ------------------------------------------------------------------

def unit_tangent_ref(P, Q):
    """unit tangent at hyperboloid_pos(P) pointing to Q (both interior)."""
    hp = rh.hyperboloid_pos(P)
    hq = rh.hyperboloid_pos(Q)
    w = hq + rh.mink(hp, hq)[..., None] * hp
    # w = hq - cosh(d) hp;  <w,w> = sinh^2 d
    n2 = rh.mink_sq(w)
    with np.errstate(all="ignore"):
        return w / np.sqrt(np.abs(n2))[..., None]


def exp_klein(P, v, t):
    """Klein coordinates of exp_P(t v/|v|) for interior P with positive time
    coordinate and v tangent at P."""
    return rh.exp_map(P, v, t)


def law_of_cosines_cosA(a, b, c):
    """cos of the angle opposite side a in a hyperbolic triangle."""
    with np.errstate(all="ignore"):
        return (np.cosh(b) * np.cosh(c) - np.cosh(a)) / (np.sinh(b) * np.sinh(c))


def tangent_angle_ref(P, v, w):
    """angle between the tangent components of v, w at P (atan2 form: stable
    for small and near-pi angles)."""
    h = rh.hyperboloid_pos(P)
    a = rh.tangent_project(h, np.asarray(v, dtype=float))
    b = rh.tangent_project(h, np.asarray(w, dtype=float))
    na = np.sqrt(np.abs(rh.mink_sq(a)))[..., None]
    nb = np.sqrt(np.abs(rh.mink_sq(b)))[..., None]
    with np.errstate(all="ignore"):
        a = a / na
        b = b / nb
        # |a-b| = 2 sin(A/2), |a+b| = 2 cos(A/2) (positive definite on the tangent space)
        s = np.sqrt(np.clip(rh.mink_sq(a - b), 0, None))
        c = np.sqrt(np.clip(rh.mink_sq(a + b), 0, None))
        return 2.0 * np.arctan2(s, c)


# -- regular polygons -----------------------------------------------------------------

def polygon_radius_ref(n, a):
    """circumradius of the regular hyperbolic n-gon with interior angle a.
    Right triangle (centre, vertex, edge midpoint): cosh R = cot(pi/n) cot(a/2);
    evaluated as sinh^2 R = cos(al+ga) cos(al-ga) / (sin al sin ga)^2, which
    has no cancellation as a -> (n-2)pi/n."""
    n = np.asarray(n, dtype=float)
    al = np.asarray(a, dtype=float) / 2.0
    ga = np.pi / n
    # cos(al+ga) = sin(pi/2 - al - ga): small argument near the upper limit
    num = np.sin(np.pi / 2 - al - ga) * np.cos(al - ga)
    with np.errstate(all="ignore"):
        return np.arcsinh(np.sqrt(np.clip(num, 0, None)) / (np.sin(al) * np.sin(ga)))


def polygon_angle_ref(n, R):
    """interior angle of the regular n-gon of circumradius R:
    tan(a/2) = cot(pi/n) / cosh R."""
    n = np.asarray(n, dtype=float)
    R = np.asarray(R, dtype=float)
    return 2.0 * np.arctan2(1.0 / np.tan(np.pi / n), np.cosh(R))


def polygon_side_ref(n, R):
    """side length: sinh(s/2) = sinh R sin(pi/n)."""
    n = np.asarray(n, dtype=float)
    R = np.asarray(R, dtype=float)
    return 2.0 * np.arcsinh(np.sinh(R) * np.sin(np.pi / n))


def max_angle(n):
    return (n - 2) * math.pi / n
