"""Reference data for *histories* of automata (C06): an independent count of
accepting paths and the free-group automaton as plain data.  numpy only; never
imports geometry_tools.

``Transfer`` counts paths with powers of the integer transfer (adjacency)
matrix of a set model -- a different algorithm from the depth-first
enumeration of ``fsa_model.Model.paths`` (which lists the paths) and from the
library's memoised recursion over adjacency lists.
"""
import numpy as np

from .fsa_model import Model


class Transfer:
    """transfer matrix A[i, j] = number of labelled edges i -> j of a model."""

    def __init__(self, model):
        self.verts = sorted(model.vertices, key=repr)
        self.index = {v: i for i, v in enumerate(self.verts)}
        n = len(self.verts)
        A = np.zeros((n, n), dtype=np.int64)
        for (u, _lab), w in model.delta.items():
            if u in self.index and w in self.index:
                A[self.index[u], self.index[w]] += 1
        self.A = A

    def count(self, length, start, exact=False, end=None):
        """number of paths from `start` with == / <= `length` edges (ending in
        `end` when given): e_start^T (A^n or sum_k A^k) e_end."""
        if start not in self.index or (end is not None and end not in self.index):
            return 0
        v = np.zeros(len(self.verts), dtype=np.int64)
        v[self.index[start]] = 1
        total = np.zeros_like(v) if exact and length > 0 else v.copy()
        for k in range(1, length + 1):
            v = v @ self.A
            if not exact or k == length:
                total = total + v
        if end is None:
            return int(total.sum())
        return int(total[self.index[end]])


def swapcase_inverse(g):
    return g.upper() if g.lower() == g else g.lower()


def free_alphabet(names):
    return list(names) + [swapcase_inverse(g) for g in names]


def free_model(names):
    """the automaton of freely reduced words in `names` and their formal
    inverses, written down directly: a state per letter (= the last letter
    read) plus the start state '', an edge g --h--> h unless h undoes g."""
    alphabet = free_alphabet(names)
    m = Model(starts=[""])
    m.vertices = set([""] + alphabet)
    for g in [""] + alphabet:
        for h in alphabet:
            if g == "" or swapcase_inverse(h) != g:
                m.delta[(g, h)] = h
    return m
