"""Reference data for *histories* of automata (C06): an independent count of
accepting paths and the free-group automaton as plain data.  numpy only; never
imports geometry_tools.

``Transfer`` counts paths with powers of the integer transfer (adjacency)
matrix of a set model -- a different algorithm from the depth-first
enumeration of ``fsa_model.Model.paths`` (which lists the paths) and from the
library's memoised recursion over adjacency lists.
"""
import numpy as np

from .fsa_model import Model


class Transfer:
    """transfer matrix A[i, j] = number of labelled edges i -> j of a model."""

    def __init__(self, model):
        self.verts = sorted(model.vertices, key=repr)
        self.index = {v: i for i, v in enumerate(self.verts)}
        n = len(self.verts)
        A = np.zeros((n, n), dtype=np.int64)
        for (u, _lab), w in model.delta.items():
            if u in self.index and w in self.index:
                A[self.index[u], self.index[w]] += 1
        self.A = A

    def count(self, length, start, exact=False, end=None):
        """number of paths from `start` with == / <= `length` edges (ending in
        `end` when given): e_start^T (A^n or sum_k A^k) e_end."""
        if start not in self.index or (end is not None and end not in self.index):
            return 0
        v = np.zeros(len(self.verts), dtype=np.int64)
        v[self.index[start]] = 1
        total = np.zeros_like(v) if exact and length > 0 else v.copy()
        for k in range(1, length + 1):
            v = v @ self.A
            if not exact or k == length:
                total = total + v
        if end is None:
            return int(total.sum())
        return int(total[self.index[end]])


def swapcase_inverse(g):
    return g.upper() if g.lower() == g else g.lower()


def free_alphabet(names):
    return list(names) + [swapcase_inverse(g) for g in names]


def free_model(names):
    """the automaton of freely reduced words in `names` and their formal
    inverses, written down directly: a state per letter (= the last letter
    read) plus the start state '', an edge g --h--> h unless h undoes g."""
    alphabet = free_alphabet(names)
    m = Model(starts=[""])
    m.vertices = set([""] + alphabet)
    for g in [""] + alphabet:
        for h in alphabet:
            if g == "" or swapcase_inverse(h) != g:
                m.delta[(g, h)] = h
    return m


def match_multiset_fast(got, ref, tol, fallback):
    """multiset comparison of two stacks of matrices for LARGE stacks:
    (1) same order; (2) both sorted along a fixed generic linear functional and
    compared row by row -- an explicit perfect matching within `tol` when it
    succeeds (sound: it exhibits the matching); (3) otherwise the exact greedy
    `fallback(got, ref, tol)`.  -> (ok, worst relative residual, index)."""
    got = np.asarray(got, dtype=float)
    ref = np.asarray(ref, dtype=float)
    if got.shape != ref.shape:
        return False, float("inf"), 0
    n = got.shape[0]
    if n == 0:
        return True, 0.0, None
    g = got.reshape(n, -1)
    r = ref.reshape(n, -1)
    scale = 1.0 + np.max(np.abs(g), axis=1)
    same = np.max(np.abs(g - r), axis=1) / scale
    if np.all(same <= tol):
        return True, float(np.max(same)), None
    # generic weights: fractional parts of multiples of sqrt(2), sqrt(3)
    k = np.arange(1, g.shape[1] + 1)
    w = 0.5 + np.mod(k * np.sqrt(2.0), 1.0) + 0.37 * np.mod(k * np.sqrt(3.0), 1.0)
    og = np.argsort(g @ w, kind="stable")
    orr = np.argsort(r @ w, kind="stable")
    d = np.max(np.abs(g[og] - r[orr]), axis=1) / scale[og]
    if np.all(d <= tol):
        return True, float(np.max(d)), None
    return fallback(got, ref, tol)
