"""Language-level reference operations for automata (C06, C10), on top of the
set model ``fsa_model.Model``.  numpy only; never imports geometry_tools.

Conventions: a *word* is a tuple of labels; labels are strings; ``concat`` of a
word is the plain string concatenation of its labels (what the library's
enumerators return).  All functions take data (dicts / Models), never library
objects, except ``flat_views`` / ``snapshot`` which only *read* the three
dict-like views of an object.
"""
import collections
import itertools

import numpy as np

from .fsa_model import Model


# ---------------------------------------------------------------------------
# reading a library automaton (pure attribute / dict reading)

def hashable(x):
    try:
        hash(x)
        return True
    except TypeError:
        return False


def snapshot(fsa):
    """-> (Model of the label view, problem or None).  The model is None when
    the label view cannot describe an automaton (unhashable target, target
    that is not a vertex)."""
    g = fsa.graph_dict
    m = Model(starts=list(fsa.start_vertices))
    verts = set(g.keys())
    delta = {}
    try:
        for v, nb in g.items():
            for lab, w in nb.items():
                if w not in verts:
                    return None, ("label view maps (%r, %r) to %r which is not a "
                                  "vertex" % (v, lab, w))
                delta[(v, lab)] = w
    except TypeError:
        for v, nb in list(g.items()):
            for lab, w in list(nb.items()):
                if not hashable(w) or not hashable(lab):
                    return None, ("label view maps (%r, %r) to the unhashable "
                                  "object %r" % (v, lab, w))
        raise
    m.vertices = verts
    m.delta = delta
    return m, None


def flat_views(fsa):
    """The three views flattened to sorted lists of repr-triples (empty label
    lists describe no edge), the vertex set of the label view and the start
    list.  Robust against unhashable junk (everything goes through repr)."""
    g, o, i = fsa.graph_dict, fsa.out_dict, fsa.in_dict
    ge = sorted((repr(v), repr(w), repr(lab)) for v, nb in list(g.items())
                for lab, w in list(nb.items()))
    oe = sorted((repr(v), repr(w), repr(lab)) for v, nb in list(o.items())
                for w, labs in list(nb.items()) for lab in list(labs))
    ie = sorted((repr(v), repr(w), repr(lab)) for w, nb in list(i.items())
                for v, labs in list(nb.items()) for lab in list(labs))
    return {"label": ge, "outgoing": oe, "incoming": ie,
            "vertices": sorted(repr(v) for v in g.keys()),
            "starts": [repr(s) for s in fsa.start_vertices]}


def views_diff(a, b):
    """first difference between two flat_views results, or None."""
    for k in ("label", "outgoing", "incoming", "vertices", "starts"):
        if a[k] != b[k]:
            gone = [x for x in a[k] if x not in b[k]][:4]
            new = [x for x in b[k] if x not in a[k]][:4]
            return k, "removed %r, added %r" % (gone, new)
    return None


def coherent(flat):
    """label / outgoing / incoming views describe the same edge set, no
    duplicates (otherwise the automaton is C09's business, not ours)."""
    return (flat["label"] == flat["outgoing"] == flat["incoming"]
            and len(set(flat["label"])) == len(flat["label"]))


def edges_of(model):
    return set((v, w, lab) for (v, lab), w in model.delta.items())


# ---------------------------------------------------------------------------
# languages

def concat(word):
    return "".join(word)


def language(model, length, start, exact=False, end=None):
    """Counter {(word tuple, end state): multiplicity} of the paths from
    `start` of length == / <= `length` (optionally ending in `end`)."""
    c = collections.Counter()
    if start not in model.vertices:
        return c
    for word, v in model.paths(length, start, exact=exact):
        if end is None or v == end:
            c[(word, v)] += 1
    return c


def count_paths(model, length, start, cap=10 ** 9):
    """number of paths of length <= length from start (dynamic programming,
    no enumeration); stops counting above cap."""
    succ = collections.defaultdict(list)
    for (u, _lab), w in model.delta.items():
        succ[u].append(w)
    cur = collections.Counter({start: 1})
    total = 1
    for _ in range(length):
        nxt = collections.Counter()
        for v, n in cur.items():
            for w in succ.get(v, ()):
                nxt[w] += n
        cur = nxt
        total += sum(cur.values())
        if total > cap:
            return total
    return total


def all_words(labels, max_len):
    for n in range(max_len + 1):
        for w in itertools.product(labels, repeat=n):
            yield w


def longest_prefix(model, word, start):
    """number of letters of `word` that can be read from `start`."""
    v = start
    k = 0
    for lab in word:
        v = model.delta.get((v, lab))
        if v is None:
            return k
        k += 1
    return k


# ---------------------------------------------------------------------------
# k-multiple

def multiple_spec(model, k, start):
    """-> (R, edges) : R = states reachable from `start` in a multiple of k
    steps, edges = {(v, block tuple): w} for v in R and every k-path."""
    R = {start}
    edges = {}
    todo = collections.deque([start])
    while todo:
        v = todo.popleft()
        for word, w in model.paths(k, v, exact=True):
            edges[(v, word)] = w
            if w not in R:
                R.add(w)
                todo.append(w)
    return R, edges


def concat_injective(edges):
    """True iff, at each vertex, distinct k-blocks have distinct string
    concatenations (the k-multiple with concatenated labels is then a
    deterministic automaton that determines the blocks)."""
    seen = {}
    for (v, word), _w in edges.items():
        key = (v, concat(word))
        if key in seen and seen[key] != word:
            return False
        seen[key] = word
    return True


def reachable_part(model, start):
    """edges of the sub-automaton reachable from start."""
    if start not in model.vertices:
        return set(), set()
    dist = model.bfs_dist(start)
    return set(dist), set((v, w, lab) for (v, lab), w in model.delta.items()
                          if v in dist)


# ---------------------------------------------------------------------------
# shortest-path subgraph

def shortest_edges(model, root):
    """-> (dist, set of (v, w, label) with v reachable, dist[w] == dist[v]+1)."""
    dist = model.bfs_dist(root)
    keep = set((v, w, lab) for (v, lab), w in model.delta.items()
               if v in dist and dist.get(w) == dist[v] + 1)
    return dist, keep


# ---------------------------------------------------------------------------
# families of automata

def dense_total(n_states, n_labels):
    return (n_states + 1) ** (n_states * n_labels)


def dense_decode(code, n_states, labels):
    """code in [0, dense_total) -> label dict over states 0..n-1 (every
    (state, label) slot: no edge or one of the n targets)."""
    d = {v: {} for v in range(n_states)}
    for v in range(n_states):
        for lab in labels:
            t = code % (n_states + 1)
            code //= (n_states + 1)
            if t:
                d[v][lab] = t - 1
    return d


VERTEX_STYLES = ("int", "int", "str", "free-like")


def random_automaton(rng, max_states=8, alphabet=("a", "b", "c", "d"),
                     min_states=1):
    """random deterministic automaton with the hostile features named in the
    design: a start vertex without incoming edges, self-loops, parallel edges,
    unreachable states, dead ends.  -> (label dict, start, feature set)."""
    n = int(rng.integers(min_states, max_states + 1))
    k = int(rng.integers(1, len(alphabet) + 1))
    labels = list(alphabet[:k])
    density = float(rng.choice([0.25, 0.5, 0.8, 1.0]))
    style = VERTEX_STYLES[int(rng.integers(0, len(VERTEX_STYLES)))]
    if style == "int":
        names = list(range(n))
    elif style == "str":
        names = ["q%d" % i for i in range(n)]
    else:
        names = [""] + ["s%d" % i for i in range(1, n)]
    force_source = rng.random() < 0.4      # start vertex without incoming edges
    unreachable = n >= 3 and rng.random() < 0.3
    d = {v: {} for v in names}
    for i, v in enumerate(names):
        for lab in labels:
            if rng.random() < density:
                lo = 1 if force_source else 0
                hi = n - 1 if unreachable else n
                if unreachable and i == n - 1:
                    hi = n                  # the unreachable state may point anywhere
                if hi <= lo:
                    continue
                d[v][lab] = names[int(rng.integers(lo, hi))]
    if n >= 1 and rng.random() < 0.4 and labels:
        v = names[int(rng.integers(0, n))]
        if not (force_source and v == names[0]) and not (unreachable and v == names[-1]):
            d[v][labels[int(rng.integers(0, k))]] = v            # self-loop
    if k >= 2 and rng.random() < 0.4:
        v = names[int(rng.integers(0, n))]
        lo = 1 if force_source else 0
        hi = n - 1 if unreachable and v != names[-1] else n
        if hi > lo:
            w = names[int(rng.integers(lo, hi))]
            d[v][labels[0]] = w
            d[v][labels[1]] = w                                   # parallel edges
    start = names[0]
    if n >= 2 and rng.random() < 0.5:
        # rename the vertices by a permutation: the start vertex is then not
        # the first key, and the falsy names (0, '') belong to other vertices
        perm = [names[i] for i in rng.permutation(n)]
        ren = dict(zip(names, perm))
        d = {ren[v]: {lab: ren[w] for lab, w in nb.items()} for v, nb in d.items()}
        d = {v: d[v] for v in sorted(d, key=repr)}
        start = ren[start]
    return d, start, labels


def features(d, start):
    f = set()
    m = Model.from_label_dict(d, [start])
    heads = set(m.delta.values())
    if start not in heads:
        f.add("source-start")
    if any(v == w for (v, _l), w in m.delta.items()):
        f.add("self-loop")
    pairs = collections.Counter((v, w) for (v, _l), w in m.delta.items())
    if any(c > 1 for c in pairs.values()):
        f.add("parallel")
    if set(m.bfs_dist(start)) != m.vertices:
        f.add("unreachable")
    if any(not m.out(v) for v in m.vertices):
        f.add("dead-end")
    return f


def target_dict(d):
    td = {}
    for v, nb in d.items():
        td[v] = {}
        for lab, w in nb.items():
            td[v].setdefault(w, []).append(lab)
    return td


# ---------------------------------------------------------------------------
# freely reduced words

def swapcase_inverse(g):
    return g.upper() if g.lower() == g else g.lower()


def free_reduced_words(gens, length, exact=False):
    """all freely reduced words (tuples) in gens and their formal inverses of
    length == / <= `length`; generated by filtering the full product (a
    different algorithm from the library's automaton / recursion)."""
    alphabet = list(gens) + [swapcase_inverse(g) for g in gens]
    out = []
    for n in range(length + 1):
        if exact and n != length:
            continue
        for w in itertools.product(alphabet, repeat=n):
            if all(swapcase_inverse(w[i]) != w[i + 1] for i in range(n - 1)):
                out.append(w)
    return out


# ---------------------------------------------------------------------------
# matrices

def elementary_product(rng, dim, steps=None, maxmult=2):
    """exact unimodular integer matrix and its exact inverse, as a product of
    elementary matrices (Python-int object arithmetic avoided: entries stay
    far below 2**53)."""
    M = np.eye(dim, dtype=np.int64)
    Mi = np.eye(dim, dtype=np.int64)
    steps = steps or int(rng.integers(2, 5))
    for _ in range(steps):
        i, j = rng.choice(dim, size=2, replace=False)
        c = int(rng.integers(1, maxmult + 1)) * int(rng.choice([-1, 1]))
        E = np.eye(dim, dtype=np.int64)
        E[i, j] = c
        Ei = np.eye(dim, dtype=np.int64)
        Ei[i, j] = -c
        M = M @ E
        Mi = Ei @ Mi
    return M, Mi


def generator_matrices(rng, names, dim, kind):
    """dict name -> matrix for the generator names and their swapcase
    inverses.  kind 'int': exact unimodular int64; 'float': well-conditioned
    non-symmetric float64.  Pairs are redrawn until no two generators commute
    and none is symmetric (so that order / transpose mistakes cannot cancel)."""
    for _attempt in range(200):
        mats = {}
        for g in names:
            if kind == "int":
                M, Mi = elementary_product(rng, dim)
            else:
                while True:
                    M = np.eye(dim) + 0.7 * rng.normal(size=(dim, dim))
                    if np.linalg.cond(M) < 12 and abs(np.linalg.det(M)) > 0.3:
                        break
                Mi = np.linalg.inv(M)
            mats[g] = M
            mats[swapcase_inverse(g)] = Mi
        ok = True
        keys = list(names)
        for g in keys:
            A = np.asarray(mats[g], dtype=float)
            if np.max(np.abs(A - A.T)) < 0.2:
                ok = False
        for a, b in itertools.combinations(keys, 2):
            A = np.asarray(mats[a], dtype=float)
            B = np.asarray(mats[b], dtype=float)
            if np.max(np.abs(A @ B - B @ A)) < 0.2:
                ok = False
            if np.max(np.abs(A @ B - (A @ B).T)) < 0.05:
                ok = False
        if ok or dim == 1:
            return mats
    return mats


def product(mats, gens, dim, dtype=float):
    """left-to-right product of mats[g] for g in gens (identity for ())."""
    P = np.eye(dim, dtype=dtype)
    for g in gens:
        P = P @ np.asarray(mats[g], dtype=dtype)
    return P


def match_multiset(got, ref, tol):
    """got, ref: arrays (n, d, d).  Greedy nearest matching; returns
    (ok, worst relative residual, index of the first unmatched `got`)."""
    got = np.asarray(got, dtype=float)
    ref = np.asarray(ref, dtype=float)
    if got.shape != ref.shape:
        return False, float("inf"), 0
    n = got.shape[0]
    if n == 0:
        return True, 0.0, None
    g = got.reshape(n, -1)
    r = ref.reshape(n, -1)
    scale = 1.0 + np.max(np.abs(g), axis=1)
    # same order (cheap, common)?
    same = np.max(np.abs(g - r), axis=1) / scale
    if np.all(same <= tol):
        return True, float(np.max(same)), None
    if n <= 1500:
        D = np.max(np.abs(g[:, None, :] - r[None, :, :]), axis=2) / scale[:, None]
    else:
        D = None
    used = np.zeros(n, dtype=bool)
    worst = 0.0
    for i in range(n):
        if D is not None:
            dist = D[i]
        else:
            dist = np.max(np.abs(r - g[i]), axis=1) / scale[i]
        dist = np.where(used, np.inf, dist)
        j = int(np.argmin(dist))
        if not dist[j] <= tol:
            return False, float(dist[j]), i
        used[j] = True
        worst = max(worst, float(dist[j]))
    return True, worst, None
