"""Independent reference hyperbolic geometry (numpy only; never imports
geometry_tools).  Conventions: R^(n,1) with form J = diag(-1, 1, ..., 1) on
homogeneous coordinates (x0, x1..xn); Klein coordinates k = x[1:]/x[0].

Distances use formulas different from the library's arccosh|<x,y>|:
the Poincare-ball formula in its cancellation-free arcsinh form.
"""
import numpy as np


# -- forms -------------------------------------------------------------------

def J(n1):
    j = np.eye(n1)
    j[0, 0] = -1.0
    return j


def mink(x, y):
    x = np.asarray(x)
    y = np.asarray(y)
    return -x[..., 0] * y[..., 0] + np.sum(x[..., 1:] * y[..., 1:], axis=-1)


def mink_sq(x):
    return mink(x, x)


def form_residual(M):
    """|M^T J M - J| / |M|^2 for matrices acting on column vectors
    (the same number for row-vector convention since J is symmetric and
    M preserves J iff M^T does)."""
    M = np.asarray(M, dtype=float)
    j = J(M.shape[-1])
    R = np.swapaxes(M, -1, -2) @ j @ M - j
    scale = np.maximum(1.0, np.max(np.abs(M), axis=(-1, -2)) ** 2)
    return np.max(np.abs(R), axis=(-1, -2)) / scale


# -- random inputs -----------------------------------------------------------

def rand_sphere(rng, n, shape=()):
    v = rng.normal(size=tuple(shape) + (n,))
    nv = np.linalg.norm(v, axis=-1, keepdims=True)
    nv[nv == 0] = 1.0
    return v / nv


def rand_ball(rng, n, shape=(), rmax=0.95, rmin=0.0):
    """Klein coordinates: uniform direction, radius uniform in [rmin, rmax]."""
    r = rng.uniform(rmin, rmax, size=tuple(shape) + (1,))
    return rand_sphere(rng, n, shape) * r


def boost(n, axis, t):
    """(n+1)x(n+1) hyperbolic translation by t along coordinate `axis`>=1."""
    B = np.eye(n + 1)
    B[0, 0] = B[axis, axis] = np.cosh(t)
    B[0, axis] = B[axis, 0] = np.sinh(t)
    return B


def rand_orth(rng, n):
    Q, R = np.linalg.qr(rng.normal(size=(n, n)))
    return Q * np.sign(np.diag(R))


def rand_isometry(rng, n, tmax=1.5, shape=()):
    """Random element of O(n,1) preserving the future cone, acting on column
    vectors: (1 + Q1) boost (1 + Q2)."""
    if shape:
        out = np.empty(tuple(shape) + (n + 1, n + 1))
        for ind in np.ndindex(*shape):
            out[ind] = rand_isometry(rng, n, tmax)
        return out
    A = np.eye(n + 1)
    A[1:, 1:] = rand_orth(rng, n)
    C = np.eye(n + 1)
    C[1:, 1:] = rand_orth(rng, n)
    return A @ boost(n, 1, rng.uniform(-tmax, tmax)) @ C


# -- charts --------------------------------------------------------------------

def klein_to_proj(k):
    k = np.asarray(k, dtype=float)
    return np.concatenate([np.ones(k.shape[:-1] + (1,)), k], axis=-1)


def proj_to_klein(P):
    P = np.asarray(P)
    return P[..., 1:] / P[..., :1]


def hyperboloid_pos(P):
    """unit hyperboloid representative with positive time coordinate."""
    P = np.asarray(P, dtype=float)
    s = np.sqrt(np.abs(mink_sq(P)))[..., None]
    h = P / s
    return h * np.where(h[..., :1] < 0, -1.0, 1.0)


def klein_to_poincare(k):
    k = np.asarray(k, dtype=float)
    r2 = np.sum(k * k, axis=-1, keepdims=True)
    return k / (1.0 + np.sqrt(np.clip(1.0 - r2, 0.0, None)))


def poincare_to_klein(p):
    p = np.asarray(p, dtype=float)
    r2 = np.sum(p * p, axis=-1, keepdims=True)
    return 2.0 * p / (1.0 + r2)


# -- distances -------------------------------------------------------------------

def dist_poincare(p, q):
    """2 arcsinh( |p-q| / sqrt((1-|p|^2)(1-|q|^2)) ): the Poincare-ball metric
    in a form without cancellation near d = 0."""
    p = np.asarray(p, dtype=float)
    q = np.asarray(q, dtype=float)
    num = np.linalg.norm(p - q, axis=-1)
    den = np.sqrt(np.clip((1 - np.sum(p * p, axis=-1)) * (1 - np.sum(q * q, axis=-1)),
                          1e-300, None))
    return 2.0 * np.arcsinh(num / den)


def dist_klein(kx, ky):
    return dist_poincare(klein_to_poincare(kx), klein_to_poincare(ky))


def dist_klein_closed(kx, ky):
    """Klein-model closed form: cosh d = (1 - x.y)/sqrt((1-|x|^2)(1-|y|^2))."""
    kx = np.asarray(kx, dtype=float)
    ky = np.asarray(ky, dtype=float)
    c = (1 - np.sum(kx * ky, axis=-1)) / np.sqrt(
        (1 - np.sum(kx * kx, axis=-1)) * (1 - np.sum(ky * ky, axis=-1)))
    return np.arccosh(np.maximum(c, 1.0))


def dist_hyperboloid(hx, hy):
    return np.arccosh(np.maximum(np.abs(mink(hx, hy)), 1.0))


def dist_halfspace(x, y):
    """upper half-space, height = last coordinate:
    2 arcsinh( |x-y| / (2 sqrt(hx hy)) )."""
    x = np.asarray(x, dtype=float)
    y = np.asarray(y, dtype=float)
    return 2.0 * np.arcsinh(np.linalg.norm(x - y, axis=-1) /
                            (2.0 * np.sqrt(x[..., -1] * y[..., -1])))


def dist_proj(P, Q):
    return dist_klein(proj_to_klein(P), proj_to_klein(Q))


def away_from_infinity(klein_pts, margin):
    """True when every point stays at Euclidean distance >= margin from the
    Klein point (1,0,...,0) (the half-space model's point at infinity)."""
    k = np.asarray(klein_pts, dtype=float)
    e = np.zeros(k.shape[-1])
    e[0] = 1.0
    return bool(np.all(np.linalg.norm(k - e, axis=-1) >= margin))


# -- classification ----------------------------------------------------------------

def kind(P, margin=1e-6):
    """'interior' / 'ideal' / 'exterior' per vector, relative margin."""
    P = np.asarray(P, dtype=float)
    q = mink_sq(P) / np.sum(P * P, axis=-1)
    out = np.where(q < -margin, "interior", np.where(q > margin, "exterior", "ideal"))
    return out


# -- tangent vectors -------------------------------------------------------------------

def tangent_project(P, v):
    """component of v Minkowski-orthogonal to P."""
    P = np.asarray(P, dtype=float)
    v = np.asarray(v, dtype=float)
    return v - P * (mink(v, P) / mink_sq(P))[..., None]


def some_tangent(P):
    """a deterministic non-zero tangent direction at P (projection of e_1)."""
    P = np.asarray(P, dtype=float)
    e = np.zeros(P.shape)
    e[..., 1] = 1.0
    return tangent_project(P, e)


def exp_map(P, v, t):
    """point at signed distance t along the geodesic from P (interior) in the
    direction of the tangent vector v; returns Klein coordinates.  Sign of the
    representative P is taken into account (direction is that of v at the
    positive-time representative)."""
    h = hyperboloid_pos(P)
    flip = np.where(np.asarray(P)[..., :1] * h[..., :1] < 0, -1.0, 1.0)
    w = tangent_project(h, np.asarray(v, dtype=float) * flip)
    w = w / np.sqrt(mink_sq(w))[..., None]
    t = np.asarray(t, dtype=float)[..., None]
    x = np.cosh(t) * h + np.sinh(t) * w
    return proj_to_klein(x)


def angle_at(P, Q1, Q2):
    """interior angle at P of the geodesic triangle P,Q1,Q2 (Klein/proj input as
    homogeneous vectors), from the tangent directions on the hyperboloid."""
    h = hyperboloid_pos(P)
    a = tangent_project(h, hyperboloid_pos(Q1))
    b = tangent_project(h, hyperboloid_pos(Q2))
    c = mink(a, b) / np.sqrt(mink_sq(a) * mink_sq(b))
    return np.arccos(np.clip(c, -1.0, 1.0))
