"""Exactness certificates for floating point products of dyadic data (numpy
only; never imports geometry_tools).  Used by C03's 'exact dyadic' class.

A float t != 0 is k * 2**lo with k an odd integer and |t| < 2**hi; its *bit
window* is (hi, lo).  A sum of m terms whose windows all lie inside
[lo_min, hi_max) is, whatever the order of summation and whichever subset of
the terms has been added so far, an integer multiple of 2**lo_min of modulus
< m * 2**hi_max: it is exactly representable in binary64 as soon as

    hi_max - lo_min + ceil(log2 m) <= 53.

A product of two floats with windows (ha, la), (hb, lb) lies in the window
(ha + hb, la + lb) and is exact if that window is not wider than 53 bits.  So a
matrix product all of whose dot products pass the test is computed *without
any rounding* by every algorithm that only multiplies entries and adds the
products (loops, BLAS, einsum, FMA or not): the float result is the exact
result, independently of the conditioning of the factors.
"""
import numpy as np

MANT = 53


def bit_window(T):
    """(hi, lo, nonzero) arrays for a float array: t = odd * 2**lo, |t| < 2**hi."""
    T = np.asarray(T, dtype=float)
    nz = (T != 0) & np.isfinite(T)
    mant, ex = np.frexp(np.where(nz, T, 1.0))
    k = np.abs(np.ldexp(mant, MANT)).astype(np.int64)        # exact 53 bit integer
    low = k & -k                                               # lowest set bit
    tz = np.frexp(low.astype(float))[1] - 1                    # its index
    hi = ex.astype(np.int64)
    lo = hi - MANT + tz
    return hi, lo, nz


def is_dyadic_exact(T):
    """all entries finite (every finite float is dyadic; kept for symmetry)."""
    return bool(np.all(np.isfinite(np.asarray(T, dtype=float))))


def matmul_certified(A, B):
    """(A @ B, ok): ok iff every product a_ik b_kj and every partial sum of every
    dot product is exactly representable (see the module docstring), so that
    the returned float product is the exact product.  Real arrays only;
    broadcasting over leading axes as numpy.matmul."""
    A = np.asarray(A, dtype=float)
    B = np.asarray(B, dtype=float)
    if not (is_dyadic_exact(A) and is_dyadic_exact(B)):
        return A @ B, False
    ha, la, za = bit_window(A)
    hb, lb, zb = bit_window(B)
    # terms[..., i, k, j]
    hi = ha[..., :, :, None] + hb[..., None, :, :]
    lo = la[..., :, :, None] + lb[..., None, :, :]
    nz = za[..., :, :, None] & zb[..., None, :, :]
    big = np.int64(1) << 40
    hmax = np.max(np.where(nz, hi, -big), axis=-2)
    lmin = np.min(np.where(nz, lo, big), axis=-2)
    cnt = np.sum(nz, axis=-2)
    extra = np.ceil(np.log2(np.maximum(cnt, 1))).astype(np.int64)
    width = np.where(cnt > 0, hmax - lmin + extra, 0)
    ok = bool(np.all(width <= MANT)) and bool(np.all(np.where(nz, hi - lo, 0) <= MANT))
    with np.errstate(all="ignore"):
        C = A @ B
    ok = ok and bool(np.all(np.isfinite(C))) and bool(np.all(np.abs(hmax[cnt > 0]) < 900)) \
        and bool(np.all(np.abs(lmin[cnt > 0]) < 900))
    return C, ok


def rows_times_certified(X, R, unit):
    """(rows of X) @ R with certificate; X = composite shape + (d,) (unit 1) or
    + (k, d) (unit 2) row vectors, R = composite shape + (d, d) row matrices
    (composite shapes broadcast, elementwise application)."""
    X = np.asarray(X, dtype=float)
    if unit == 1:
        C, ok = matmul_certified(X[..., None, :], R)
        return C[..., 0, :], ok
    return matmul_certified(X, R)


def spread(M):
    """max |entry| / min non-zero |entry| per matrix (min over a stack)."""
    M = np.abs(np.asarray(M, dtype=float))
    flat = M.reshape(M.shape[:-2] + (-1,))
    with np.errstate(all="ignore"):
        mx = np.max(flat, axis=-1)
        mn = np.min(np.where(flat > 0, flat, np.inf), axis=-1)
    return float(np.min(mx / mn))
