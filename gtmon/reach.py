"""Line reach of anchor functions through sys.monitoring (Python >= 3.12).
DESIGN.md 2.6.  LINE callbacks are restricted to the repository's files and
return DISABLE after the first hit, so the cost is a few percent.
"""
import os
import sys
import ast

from . import core

_hits = {}          # filename -> set(lines)
_active = False
TOOL = None


def start():
    global _active, TOOL
    if _active or not hasattr(sys, "monitoring"):
        return
    mon = sys.monitoring
    TOOL = mon.COVERAGE_ID
    try:
        mon.use_tool_id(TOOL, "gtmon-reach")
    except ValueError:
        return
    pkg = os.path.join(core.REPO, "geometry_tools") + os.sep

    def on_line(code, line):
        fn = code.co_filename
        if fn.startswith(pkg):
            s = _hits.get(fn)
            if s is None:
                s = _hits[fn] = set()
            s.add(line)
        return mon.DISABLE

    mon.register_callback(TOOL, mon.events.LINE, on_line)
    mon.set_events(TOOL, mon.events.LINE)
    _active = True


def stop():
    global _active
    if _active:
        sys.monitoring.set_events(TOOL, 0)
        sys.monitoring.free_tool_id(TOOL)
        _active = False


def _functions(path):
    """qualname -> (first body line, last line, set of executable lines)."""
    src = open(path).read()
    tree = ast.parse(src)
    out = {}

    def visit(node, prefix):
        for ch in ast.iter_child_nodes(node):
            if isinstance(ch, (ast.FunctionDef, ast.AsyncFunctionDef)):
                q = prefix + ch.name
                lines = set()
                for sub in ast.walk(ch):
                    if isinstance(sub, ast.stmt) and sub is not ch:
                        # skip docstrings
                        if isinstance(sub, ast.Expr) and isinstance(
                                getattr(sub, "value", None), ast.Constant) \
                                and isinstance(sub.value.value, str):
                            continue
                        lines.add(sub.lineno)
                out[q] = (ch.lineno, ch.end_lineno, lines)
                visit(ch, q + ".")
            elif isinstance(ch, ast.ClassDef):
                visit(ch, prefix + ch.name + ".")
    visit(tree, "")
    return out, src.splitlines()


_baseline = None


def source_digest(src_lines, lo, hi):
    import hashlib
    body = "\n".join(l.rstrip() for l in src_lines[lo - 1:hi])
    return hashlib.sha1(body.encode()).hexdigest()


def function_changed(rel, qual, src_lines, lo, hi):
    """True when the source text of the function differs from the one recorded
    in gtmon/reach_baseline.json (written by tools/make_reach_baseline.py from the
    repository tree the REQUIRED lists were calibrated on).  Unknown -> False."""
    global _baseline
    if _baseline is None:
        import json
        try:
            _baseline = json.load(open(os.path.join(os.path.dirname(__file__), "reach_baseline.json")))
        except Exception:
            _baseline = {}
    want = _baseline.get("%s:%s" % (rel, qual))
    if want is None:
        return False
    return source_digest(src_lines, lo, hi) != want


def report(anchors, required=(), hits=None):
    """anchors: list of (relative file, qualname).  required: list of
    (relative file, qualname, source-text pattern).  Returns (dict for the
    evidence file, list of unreached required statements)."""
    cache = {}
    rep = {}
    missing = []
    if hits is None:
        hits = hits_by_file()
    hits = {os.path.join(core.REPO, k): set(v) for k, v in hits.items()}

    def load(rel):
        if rel not in cache:
            path = os.path.join(core.REPO, rel)
            try:
                cache[rel] = (path,) + _functions(path)
            except Exception as e:      # file gone after a refactoring
                cache[rel] = (path, {}, [])
        return cache[rel]

    for rel, qual in anchors:
        path, funcs, _ = load(rel)
        if qual not in funcs:
            rep["%s:%s" % (rel, qual)] = "not found"
            continue
        lo, hi, lines = funcs[qual]
        hit = hits.get(path, set()) & lines
        rep["%s:%s" % (rel, qual)] = {
            "lines_hit": len(hit), "lines": len(lines),
            "unreached": sorted(lines - hit)[:40]}
    for rel, qual, pattern in required:
        path, funcs, src = load(rel)
        if qual not in funcs:
            continue
        lo, hi, lines = funcs[qual]
        cands = [ln for ln in sorted(lines)
                 if pattern in src[ln - 1]]
        if not cands:
            rep.setdefault("patterns_not_found", []).append(
                "%s:%s:%s" % (rel, qual, pattern))
            continue
        if not any(ln in hits.get(path, set()) for ln in cands):
            if function_changed(rel, qual, src, lo, hi):
                # the function is not the one the required list was calibrated on
                # (reach_baseline.json): a refactoring may legitimately route
                # around the statement (benign change D-6: a closed form in
                # Point.origin_to with the old route kept for other input).
                # Starvation is still caught by the monitors' min_events.
                rep.setdefault("required_unreached_in_changed_functions", []).append(
                    "%s:%s:%s" % (rel, qual, pattern))
                continue
            if not (hits.get(path, set()) & lines):
                # the function itself was never entered: a refactoring may
                # legitimately bypass a private helper; starvation is caught by
                # the monitors' own min_events, so this is reported, not a verdict
                rep.setdefault("required_in_functions_never_entered", []).append(
                    "%s:%s:%s" % (rel, qual, pattern))
                continue
            missing.append("%s:%s: statement %r never executed"
                           % (rel, qual, pattern))
    return rep, missing


def hits_by_file():
    return {os.path.relpath(k, core.REPO): sorted(v) for k, v in _hits.items()}
