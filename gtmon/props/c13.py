"""C13 -- constructed isometries, tangent vectors and regular polygons hit their targets.

Monitors (P = postcondition on the real function, fires on internal calls too)
  origin_to             (P) Point.origin_to: the first row of the row matrix (image
                        of the origin) is a multiple of the point; forced
                        orientation gives det > 0; the matrix is in O(n,1).
  tangent-origin_to     (P) TangentVector.origin_to: rows 0/1 are multiples of
                        (basepoint, tangent vector) with scalars of equal sign;
                        the matrix is in O(n,1).
  isometry_to           (P) TangentVector.isometry_to: (p, v) @ I = (l q, m w), l m > 0;
                        I is in O(n,1).
  normalized            (P) TangentVector.normalized: same basepoint, Minkowski
                        length 1, positive multiple of the tangent component --
                        for vectors of any length.
  point_along           (P) TangentVector.point_along: result = exp_p(t v) of the
                        reference (hyperboloid, positive time); hyp_to_affine_dist = tanh.
  unit_tangent_towards  (P) basepoint kept, unit, direction = reference direction.
  angle                 (P) angle = reference angle of the tangent components
                        (sin A >= 1e-3; parallel vectors are diagnostic only).
  regular_polygon       (P) n vertices at reference distance R from the origin,
                        equal sides of the reference length, interior angle a,
                        planar.
  polygon-formulas      (P) regular_polygon_radius / polygon_interior_angle ==
                        reference formulas (cosh R = cot(pi/n) cot(a/2) in a
                        cancellation-free form).
  hit-target            (W) p.origin_to() @ origin ~ p; tv.origin_to() @ base
                        tangent ~ tv; tv.isometry_to(tv2) @ tv ~ tv2 (also along
                        the geodesics), through the public `@`.
  geodesic              (W) point_along(t): distance |t|, on the geodesic, on the
                        side of sign t; towards-q for d(p,q) arrives at q.
  law-of-cosines        (W) angle at p of the triangle p,q,r from the library's
                        tangents == law of cosines with reference side lengths.
  polygon               (W) the polygon read through get_vertices()/coords; radius
                        and angle formulas are mutual inverses; every n in 3..402
                        (quick) / 3..1202 and samples up to 3000 (thorough): n
                        vertices, none twice, equal sides, interior angle.
Input classes added by the third seeding round: tangent vectors of Minkowski
length 1e-9..1e-3 and 1e3..1e9 (alone or mixed in one composite) and targets of
unit_tangent_towards 1e-9..1e-3 away, each followed by macroscopic requests
(wl_tangent_scales, wl_towards_close; C13-r3-1); the n-sweep (wl_polygon_sweep;
C13-r3-3).  Fourth round: the long range -- |t| in [6,11.5], pairs 7.5..10.5
apart, circumradii 7..11.5 / interior angles down to 1e-5, alone or mixed with
ordinary values in one composite (wl_long_range, wl_polygon_extreme; C13-r4-3);
the postconditions judge circumradii up to 12 and far points down to 1 - r = 1e-13.
Sixth round: the near-Euclidean end -- interior angles within 3e-13..1e-4 of
(n-2)pi/n, radius= 1e-7..1e-2, judged relative to the size of the polygon
against the extended-precision reference ref/polygon_ld.py, and the formulas as
mutual inverses there (wl_near_euclidean; C13-r6-3); the regular_polygon and
formula postconditions judge that end relatively (allowance 1e-12/deficit).
"""
import math
import traceback
import numpy as np

from ..run import Workload
from .. import attach
from ..ref import hyp as rh
from ..ref import hyp2 as r2
from ..ref import polygon_ld as pl

ID = "C13"
RULE = ("cases = (dimension 2..5, composite shape in {(), (k,), (a,b), (a,1,c)}, "
        "radius class {bulk r<=0.95, mid 1-r in [1e-4,5e-2], origin}, force_oriented "
        "in {default, True, False}, t in {0, +-[1e-6,1e-2], +-[0.1,3], +-[3,6]} scalar "
        "or per unit, polygon (n in 3..24, angle fraction in {5%, 95%, U(2%,98%)} of "
        "(n-2)pi/n or radius in [0.05,6], dimension 2..5, scalar or composite "
        "parameter), polygon n-sweep (every n in 3..402 quick / 3..1202 + 48 draws "
        "from 1203..3000 thorough, radius and angle path), tangent vector length "
        "class {ordinary [0.2,5], tiny [1e-9,1e-6], small [1e-6,1e-3], huge "
        "[1e3,1e9], mixed per unit} given as data, target of unit_tangent_towards "
        "at distance [1e-9,1e-3] followed by |t| in [0.3,3], long range (|t| in "
        "[6,9], [9,11.5] or mixed with [0.1,3] per unit from basepoints of Klein "
        "radius <= 0.5 or the origin; pairs with d in [7.5,10.5]; polygons n in "
        "{3..8,10,12,16,24,37,60} of circumradius [7,11.5] by radius or by the tiny "
        "angle, scalar or next to ordinary parameters in one array), near-Euclidean "
        "polygons (same n; angle = (n-2)pi/n - delta, delta log-uniform in "
        "[3e-13 (n-2)pi/n, 1e-4], or radius log-uniform in [1e-7,1e-2]; relative "
        "tolerance 1e-9 + 1e-12/R + 1e-12/delta)); non-trivial = the point is not the origin / t != 0 / the "
        "triangle is non-degenerate (sin A >= 1e-3, sides >= 0.05); distinct = "
        "distinct (check, dimension, shape kind, class, option) signatures.  "
        "Residuals: hyperbolic distance between obtained and expected point, "
        "relative Euclidean deviation from a multiple for vectors; tolerance "
        "1e-7 + 1e-11/(1-r_max) (points), 1e-9 + 1e-12/(1-r_max) (vectors), "
        "1e-9 + 1e-11/(1-r) (|M^T J M - J|/max(1,|M|^2), product of the two 1-r for "
        "isometry_to); direction towards a point at distance d: + 1e-11/((1-r) d)")
ASSUMPTIONS = [
    "representatives with positive time coordinate only (negative "
    "representatives and rescaling belong to C12)",
    "exactly parallel / antiparallel tangent vectors are a diagnostic class "
    "(the property does not speak of them)",
    "angles up to 1-1e-3 of the admissible range and down to 1e-3 of it or to "
    "the angle of circumradius 12, |t| <= 11.5 with basepoint + |t| <= 12.1 from "
    "the origin (1 - Klein radius of the far point >= 1e-13 in the postcondition), "
    "radii <= 12: beyond, float64 homogeneous/Klein coordinates no longer "
    "determine the point to better than ~0.2",
    "a tangent vector is compared up to a positive scalar together with the "
    "sign of its basepoint representative",
    "short / long tangent vectors are given as floating-point data (direction "
    "defined to ~eps/(1-r)); the direction towards a point at distance d < 1e-6 "
    "is judged only where eps/((1-r) d) <= 1e-5, down to d = 1e-9",
    "n-sweep: n <= 3000 (the library's construction is quadratic in n)",
    "near the Euclidean limit the circumradius is a function of the deficit "
    "delta = (n-2)pi/n - a, known in float64 to relative eps/delta: angles with "
    "delta < 1e-13 (n-2)pi/n are not judged, the round trip radius(angle(r)) only "
    "where delta sin(pi/n) >= 3e-12; distances carry an absolute allowance 1e-12",
]
ANCHORS = [("geometry_tools/hyperbolic.py", q) for q in (
    "Point.origin_to", "Point.unit_tangent_towards", "Point.get_origin",
    "TangentVector.__init__", "TangentVector._compute_aux_data",
    "TangentVector.normalized", "TangentVector.origin_to",
    "TangentVector.isometry_to", "TangentVector.angle",
    "TangentVector.point_along", "TangentVector.get_base_tangent",
    "Polygon.regular_polygon", "regular_polygon_radius",
    "polygon_interior_angle", "project_to_hyperboloid", "hyp_to_affine_dist",
    "Isometry.standard_rotation")] + [
    ("geometry_tools/utils/core.py", q) for q in (
        "find_isometry", "indefinite_orthogonalize", "make_orientation_preserving",
        "projection", "normalize")]
REQUIRED = [
    ("geometry_tools/hyperbolic.py", "Point.origin_to", "isom = utils.find_isometry("),
    ("geometry_tools/hyperbolic.py", "TangentVector.origin_to", "isom = utils.find_isometry("),
    ("geometry_tools/hyperbolic.py", "TangentVector.isometry_to", "return other.origin_to("),
    ("geometry_tools/hyperbolic.py", "TangentVector.normalized", "normed_vec = utils.normalize("),
    ("geometry_tools/hyperbolic.py", "TangentVector.point_along", "kleinian_pt[..., 0] = hyp_to_affine_dist("),
    ("geometry_tools/hyperbolic.py", "TangentVector.angle", "return np.arccos("),
    ("geometry_tools/hyperbolic.py", "Point.unit_tangent_towards", "diff = orientation * other.proj_data"),
    ("geometry_tools/hyperbolic.py", "Polygon.regular_polygon", "radius = regular_polygon_radius("),
    ("geometry_tools/hyperbolic.py", "Polygon.regular_polygon", "vertices = mats.apply("),
    ("geometry_tools/utils/core.py", "make_orientation_preserving", "preserved[det(preserved) < 0, -1, :] *= -1"),
    ("geometry_tools/utils/core.py", "find_isometry", "iso = make_orientation_preserving("),
]

SHAPE_KINDS = ("()", "(k,)", "(a,b)", "(a,1,c)")
VEC_TOL = 1e-9
ISO_TOL = 1e-9
# long range (fourth seeding round, C13-r4-3).  A point at distance rho from the
# origin has 1 - (Klein radius) = omr ~ 2 e^{-2 rho}; float64 coordinates fix its
# position up to ~eps/omr, so that every point tolerance of this module, 1e-7 +
# 1e-11/omr, reaches 0.2 at rho = 12 and 10 at rho = 14: the checks keep their
# power (a point that stops 0.75 short is seen) up to total distance ~12 from
# the origin, and beyond 1e-13 nothing is judged.
R_MAX = 12.0             # largest polygon circumradius judged (was 7)
# near-Euclidean end (sixth seeding round, C13-r6-3): circumradii <= R_SMALL are
# judged *relatively*.  Allowances: distances carry an absolute error of ~eps
# (the library's tanh as (e^{2r} - 1)/(e^{2r} + 1): pinned tree 3e-17 absolute),
# and the radius of an n-gon requested by its angle a is determined by the
# deficit delta = (n-2)pi/n - a ~ R^2 sin(2 pi/n)/2 only to relative ~eps/delta
# (pinned tree <= 1.4 eps/delta): tolerance 1e-9 + 1e-12/R (+ 1e-12/delta).
R_SMALL = 0.1
DEFICIT_MIN = 1e-13      # smallest delta / ((n-2)pi/n) judged (eps/delta ~ 1e-3)


def small_tol(R):
    return 1e-9 + 1e-12 / np.maximum(np.asarray(R, dtype=float), 1e-300)
OMR_MIN = 1e-13          # point_along postcondition: smallest 1 - r of the far point


def rand_shape(rng, kind):
    if kind == "()":
        return ()
    if kind == "(k,)":
        return (int(rng.integers(1, 6)),)
    if kind == "(a,b)":
        return (int(rng.integers(1, 4)), int(rng.integers(2, 4)))
    return (int(rng.integers(2, 4)), 1, int(rng.integers(2, 4)))


def worst(err, tol, ok=None):
    """err, tol: flat arrays.  Index of the row to judge: first non-finite
    residual, else the largest residual/tolerance; None if none in domain."""
    if ok is None:
        ok = np.ones(err.shape, dtype=bool)
    idx = np.flatnonzero(np.asarray(ok).reshape(-1))
    if idx.size == 0:
        return None
    e = err[idx]
    bad = ~np.isfinite(e)
    if bad.any():
        return int(idx[np.flatnonzero(bad)[0]])
    return int(idx[int(np.argmax(e / tol[idx]))])


RATIOS = None          # debugging aid: set to {} to record max residual/tolerance per key


def judge_rows(mon, err, tol, ok, key, what, case_of):
    err = np.asarray(err, dtype=float).reshape(-1)
    tol = np.asarray(tol, dtype=float)
    tol = (np.full(err.shape, float(tol)) if tol.ndim == 0 else tol.reshape(-1))
    w = worst(err, tol, ok)
    if w is None:
        return None
    if RATIOS is not None:
        RATIOS[key] = max(RATIOS.get(key, 0.0), float(err[w] / tol[w]))
    return mon.judge(err[w], tol[w], key, what, case_of(w))


def vec_tol(omr):
    return VEC_TOL + 1e-12 / np.maximum(np.asarray(omr, dtype=float), 1e-300)


def spacelike_mask(v, margin=1e-9):
    v = np.asarray(v, dtype=float)
    with np.errstate(all="ignore"):
        return np.all(np.isfinite(v), axis=-1) & (rh.mink_sq(v) >= margin * np.sum(v * v, axis=-1)) \
            & (np.sum(v * v, axis=-1) > 0)


def flat(a, k=1):
    a = np.asarray(a, dtype=float)
    return a.reshape((-1,) + a.shape[a.ndim - k:])


def klein_of(P):
    P = np.asarray(P, dtype=float)
    with np.errstate(all="ignore"):
        return P[..., 1:] / P[..., :1]


def iso_tol(omr):
    """tolerance for isometry_defect: normalising a point at 1 - (Klein radius)
    = omr to <h,h> = -1 has relative accuracy eps/omr (pinned tree: defect <=
    1.5e-15/omr for origin_to, <= 1.3e-15/(omr_p omr_q) for isometry_to, all
    dimensions, omr down to 1e-8)."""
    return ISO_TOL + 1e-11 / np.maximum(np.asarray(omr, dtype=float), 1e-300)


def isometry_defect(M):
    """max |M^T J M - J| / max(1, max|M|^2): how far the matrices are from
    O(n,1) (reference form of ref/hyp.py; the same number for the row and the
    column convention)."""
    with np.errstate(all="ignore"):
        return rh.form_residual(np.asarray(M, dtype=float))


def judge_isometry(mon, Mf, tol, ok, key, what, case_of):
    """'the isometry built from ...' is an isometry: membership in O(n,1).
    (C13-r3-1: a frame whose second row is an un-normalised 1e-7-long tangent
    vector still sends the origin to p and e_1 to a positive multiple of v --
    the two things the other checks look at -- but is not an isometry: every
    point off the basepoint is sent to the wrong place.)"""
    return judge_rows(mon, isometry_defect(Mf), tol, ok, key, what, case_of)


# ---------------------------------------------------------------------------
# reference checks shared by the postcondition and the workload level

def small_polygon_report(V, n, R, tolR):
    """V: (m, n, d+1) vertex data of small polygons, R: (m,) expected radius,
    tolR: (m,) relative tolerance of the radius.  Everything relative to the
    size of the polygon: name -> (err (m,), tol (m,))."""
    vk = klein_of(V)
    sg = math.sin(math.pi / n)
    base = small_tol(R)
    side = pl.side(n, R)
    with np.errstate(all="ignore"):
        d0 = r2.dist_klein_ref(vk, np.zeros_like(vk))
        ds = r2.dist_klein_ref(vk, np.roll(vk, -1, axis=-2))
        out = {
            "radius-relative": (np.max(np.abs(d0 / R[:, None] - 1.0), axis=-1), tolR),
            "sides-relative": (np.max(np.abs(ds / side[:, None] - 1.0), axis=-1), 2 * tolR + base / sg),
            "equidistant-relative": (np.ptp(d0, axis=-1) / R, 2 * base),
            "equal-sides-relative": (np.ptp(ds, axis=-1) / side, 2 * base / sg),
        }
    return out


SMALL_WHAT = {
    "radius-relative": "vertices are not at the expected distance from the origin (relative to it)",
    "sides-relative": "sides do not have the length of the regular n-gon of this circumradius "
                      "(relative to it)",
    "equidistant-relative": "vertices are not at equal distance from the origin (relative to the radius)",
    "equal-sides-relative": "sides are not of equal length (relative to the side)"}


def polygon_report(V, n, R, a):
    """V: (m, n, d+1) vertex data, R, a: (m,) expected radius and interior
    angle.  Returns dict name -> (err (m,), tol (m,))."""
    vk = klein_of(V)
    omr = 1.0 - np.tanh(R)                                      # 1 - Klein radius
    ct = r2.coord_tol(omr)
    out = {}
    d0 = r2.dist_klein_ref(vk, np.zeros_like(vk))                  # (m,n)
    out["radius"] = (np.max(np.abs(d0 - R[:, None]), axis=-1), ct * (1.0 + R))
    side = r2.polygon_side_ref(n, R)
    ds = r2.dist_klein_ref(vk, np.roll(vk, -1, axis=-2))
    out["sides"] = (np.max(np.abs(ds - side[:, None]), axis=-1), 2 * ct * (1.0 + side))
    nxt = np.roll(V, -1, axis=-2)
    prv = np.roll(V, 1, axis=-2)
    t1 = r2.unit_tangent_ref(V, nxt)
    t2 = r2.unit_tangent_ref(V, prv)
    ang = r2.tangent_angle_ref(V, t1, t2)
    out["angle"] = (np.max(np.abs(ang - a[:, None]), axis=-1), 1e-7 + 1e-10 / omr)
    if V.shape[-1] > 3 and n >= 3:
        h = rh.hyperboloid_pos(V)
        h = h / np.linalg.norm(h, axis=-1, keepdims=True)
        sv = np.linalg.svd(h, compute_uv=False)
        if sv.shape[-1] > 3:
            out["planar"] = (sv[..., 3] / sv[..., 0], np.full(R.shape, 1e-9))
    return out


# ---------------------------------------------------------------------------

def setup(run):
    r2.SIGN_FLIPS = True
    from geometry_tools import hyperbolic
    H = hyperbolic
    m_o = run.monitor("origin_to", min_events=50)
    m_to = run.monitor("tangent-origin_to", min_events=50)
    m_iso = run.monitor("isometry_to", min_events=30)
    m_nm = run.monitor("normalized", min_events=50)
    m_pa = run.monitor("point_along", min_events=50)
    m_ut = run.monitor("unit_tangent_towards", min_events=30)
    m_an = run.monitor("angle", min_events=30)
    m_rp = run.monitor("regular_polygon", min_events=20)
    m_pf = run.monitor("polygon-formulas", min_events=30)
    for name, k in (("hit-target", 50), ("geodesic", 50), ("law-of-cosines", 30), ("polygon", 20)):
        run.monitor(name, min_events=k)

    def amb():
        return run.current_case

    def copy_of(obj, attr):
        try:
            a = getattr(obj, attr)
            return None if a is None else np.array(a, dtype=float, copy=True)
        except Exception:
            return None

    # -- Point.origin_to ------------------------------------------------------
    def po_pre(call):
        return copy_of(call.args[0], "proj_data")

    def po_post(call, P):
        if call.exc is not None or P is None:
            return
        fo = call.bound().get("force_oriented", True)
        M = np.asarray(call.result.proj_data, dtype=float)
        n1 = P.shape[-1]
        if M.shape != P.shape[:-1] + (n1, n1):
            return m_o.fail("origin_to/shape", "isometry data of shape %r for points of shape %r"
                            % (M.shape, P.shape), {"point": P, "ambient": amb()})
        x = flat(P)
        Mf = flat(M, 2)
        ok = r2.interior_mask(x, 1e-9)
        if (~ok).any():
            m_o.skip("point not interior (with margin)")
        if not ok.any():
            return
        res, lam = r2.proj_residual(Mf[:, 0, :], x)
        judge_rows(m_o, res, VEC_TOL, ok, "origin_to/image-of-origin",
                   "p.origin_to() does not send the origin (1,0,..,0) to a multiple of p "
                   "(relative deviation of the first row)",
                   lambda w: {"point": x[w], "first_row": Mf[w, 0], "force_oriented": fo,
                              "ambient": amb()})
        judge_isometry(m_o, Mf, iso_tol(r2.one_minus_r_proj(x)), ok, "origin_to/not-an-isometry",
                       "p.origin_to() is not in O(n,1) (|M^T J M - J| / max(1,|M|^2))",
                       lambda w: {"point": x[w], "matrix": Mf[w], "force_oriented": fo,
                                  "ambient": amb()})
        if fo:
            pos = ok & (x[:, 0] > 0)
            if pos.any():
                # orientation of the induced isometry of H^n: det(M) for the
                # representative of +-M that keeps the time direction
                det = np.linalg.det(Mf) * np.where(lam < 0, (-1.0) ** n1, 1.0)
                bad = pos & ~(det > 0)
                if bad.any():
                    w = int(np.flatnonzero(bad)[0])
                    m_o.fail("origin_to/orientation/forced",
                             "force_oriented=True but the isometry reverses orientation "
                             "(det of the time-preserving representative = %r)" % det[w],
                             {"point": x[w], "matrix": Mf[w], "ambient": amb()})
                else:
                    m_o.ok()

    attach.wrap_attr(run, H.Point, "origin_to", po_post, pre=po_pre)

    # -- TangentVector.origin_to ------------------------------------------------
    def to_pre(call):
        return copy_of(call.args[0], "aux_data")

    def to_post(call, aux):
        if call.exc is not None or aux is None:
            return
        fo = call.bound().get("force_oriented", True)
        M = np.asarray(call.result.proj_data, dtype=float)
        n1 = aux.shape[-1]
        if M.shape != aux.shape[:-2] + (n1, n1):
            return m_to.fail("tangent-origin_to/shape",
                             "isometry data of shape %r for tangent data of shape %r"
                             % (M.shape, aux.shape), {"tangent": aux, "ambient": amb()})
        a = flat(aux, 2)
        Mf = flat(M, 2)
        p, v = a[:, 0, :], a[:, 1, :]
        ok = r2.interior_mask(p, 1e-9) & spacelike_mask(v)
        if (~ok).any():
            m_to.skip("basepoint not interior or vector not spacelike (with margin)")
        if not ok.any():
            return
        omr = r2.one_minus_r_proj(p)
        r0, l0 = r2.proj_residual(Mf[:, 0, :], p)
        r1, l1 = r2.proj_residual(Mf[:, 1, :], v)
        case_of = lambda w: {"basepoint": p[w], "vector": v[w], "row0": Mf[w, 0], "row1": Mf[w, 1],
                             "force_oriented": fo, "ambient": amb()}
        judge_rows(m_to, r0, VEC_TOL, ok, "tangent-origin_to/basepoint",
                   "tv.origin_to() does not send the origin to the basepoint", case_of)
        judge_rows(m_to, r1, vec_tol(omr), ok, "tangent-origin_to/direction",
                   "tv.origin_to() does not send the base tangent vector e_1 to a multiple of "
                   "the tangent vector", case_of)
        judge_isometry(m_to, Mf, iso_tol(omr), ok, "tangent-origin_to/not-an-isometry",
                       "tv.origin_to() is not in O(n,1) (|M^T J M - J| / max(1,|M|^2))",
                       lambda w: dict(case_of(w), matrix=Mf[w],
                                      vector_length=float(np.sqrt(abs(rh.mink_sq(v[w]))))))
        sgn = ok & np.isfinite(l0 * l1) & ~(l0 * l1 > 0)
        if sgn.any():
            w = int(np.flatnonzero(sgn)[0])
            m_to.fail("tangent-origin_to/direction-sign",
                      "base tangent vector sent to a *negative* multiple of the tangent vector "
                      "(scalars %r, %r)" % (l0[w], l1[w]), case_of(w))
        else:
            m_to.ok()
        if fo:
            pos = ok & (p[:, 0] > 0)
            if pos.any():
                det = np.linalg.det(Mf) * np.where(l0 < 0, (-1.0) ** n1, 1.0)
                bad = pos & ~(det > 0)
                if bad.any():
                    w = int(np.flatnonzero(bad)[0])
                    m_to.fail("tangent-origin_to/orientation/forced",
                              "force_oriented=True but the isometry reverses orientation "
                              "(det of the time-preserving representative = %r)" % det[w], case_of(w))
                else:
                    m_to.ok()

    attach.wrap_attr(run, H.TangentVector, "origin_to", to_post, pre=to_pre)

    # -- TangentVector.normalized ---------------------------------------------------
    # every "unit tangent vector" of the property comes out of normalized()
    # (unit_tangent_towards, regular_polygon, the callers' own vectors): same
    # basepoint, Minkowski length 1, positive multiple of the tangent vector --
    # whatever the length of the vector handed in (C13-r3-1: vectors shorter
    # than 1e-6 returned unchanged).  The state is copied before the call:
    # normalize() divides the caller's aux_data in place.
    def nm_post(call, aux):
        if call.exc is not None or aux is None:
            return
        try:
            out = np.asarray(call.result.aux_data, dtype=float)
        except Exception:
            return m_nm.skip("result carries no real tangent data")
        if out.shape != aux.shape:
            return m_nm.fail("normalized/shape", "tangent data of shape %r from data of shape %r"
                             % (out.shape, aux.shape), {"tangent": aux, "ambient": amb()})
        a = flat(aux, 2)
        b = flat(out, 2)
        p, v, bp, nv = a[:, 0], a[:, 1], b[:, 0], b[:, 1]
        ok = r2.interior_mask(p, 1e-9) & spacelike_mask(v)
        if (~ok).any():
            m_nm.skip("basepoint not interior or vector not spacelike (with margin)")
        if not ok.any():
            return
        omr = r2.one_minus_r_proj(p)
        with np.errstate(all="ignore"):
            length = np.sqrt(np.abs(rh.mink_sq(v)))
            unit_err = np.abs(rh.mink_sq(nv) - 1.0) / np.sum(nv * nv, axis=-1)
            rb, lb = r2.proj_residual(bp, p)
            # direction = that of the component of v tangent at p: the vector
            # held by a TangentVector is tangent only up to the rounding of the
            # projection that made it (absolute ~eps |input|: for the 1e-9-long
            # difference of two nearby points in unit_tangent_towards, 1e-7
            # relative); normalized() projects again, and that second projection
            # is accurate to eps/omr relative
            rv, lv = r2.proj_residual(nv, rh.tangent_project(p, v))
        case_of = lambda w: {"basepoint": p[w], "vector": v[w], "vector_length": length[w],
                             "returned_basepoint": bp[w], "returned_vector": nv[w], "ambient": amb()}
        judge_rows(m_nm, rb, VEC_TOL, ok, "normalized/basepoint",
                   "tv.normalized() is not based at the basepoint of tv", case_of)
        judge_rows(m_nm, unit_err, vec_tol(omr), ok, "normalized/unit-length",
                   "tv.normalized() is not of unit Minkowski length (|<v,v> - 1| / |v|^2)", case_of)
        judge_rows(m_nm, rv, vec_tol(omr), ok, "normalized/direction",
                   "tv.normalized() is not a multiple of the (tangent component of the) vector of tv",
                   case_of)
        sgn = ok & np.isfinite(lb * lv) & ~(lb * lv > 0)
        if sgn.any():
            w = int(np.flatnonzero(sgn)[0])
            m_nm.fail("normalized/direction-sign", "tv.normalized() points the other way "
                      "(scalars %r, %r)" % (lb[w], lv[w]), case_of(w))
        else:
            m_nm.ok()

    attach.wrap_attr(run, H.TangentVector, "normalized", nm_post, pre=to_pre)

    # -- TangentVector.isometry_to ------------------------------------------------
    def iso_pre(call):
        o = call.args[1] if len(call.args) > 1 else call.kwargs.get("other")
        return copy_of(call.args[0], "aux_data"), copy_of(o, "aux_data")

    def iso_post(call, st):
        if call.exc is not None or st is None or st[0] is None or st[1] is None:
            return
        a1, a2 = st
        I = np.asarray(call.result.proj_data, dtype=float)
        try:
            sh = np.broadcast_shapes(a1.shape[:-2], a2.shape[:-2])
        except ValueError:
            return m_iso.skip("shapes not broadcastable")
        n1 = a1.shape[-1]
        if I.shape != sh + (n1, n1):
            return m_iso.skip("result shape follows another broadcasting rule (C04)")
        A1 = flat(np.broadcast_to(a1, sh + (2, n1)), 2)
        A2 = flat(np.broadcast_to(a2, sh + (2, n1)), 2)
        If = flat(I, 2)
        p, v, q, w_ = A1[:, 0], A1[:, 1], A2[:, 0], A2[:, 1]
        ok = r2.interior_mask(p, 1e-9) & r2.interior_mask(q, 1e-9) & spacelike_mask(v) & spacelike_mask(w_)
        if (~ok).any():
            m_iso.skip("basepoint not interior or vector not spacelike (with margin)")
        if not ok.any():
            return
        omr = np.minimum(r2.one_minus_r_proj(p), r2.one_minus_r_proj(q))
        ip = np.einsum("mi,mij->mj", p, If)
        iv = np.einsum("mi,mij->mj", v, If)
        rp, lp = r2.proj_residual(ip, q)
        rv, lv = r2.proj_residual(iv, w_)
        case_of = lambda k: {"from_basepoint": p[k], "from_vector": v[k], "to_basepoint": q[k],
                             "to_vector": w_[k], "image_basepoint": ip[k], "image_vector": iv[k],
                             "ambient": amb()}
        judge_rows(m_iso, rp, vec_tol(omr), ok, "isometry_to/basepoint",
                   "tv.isometry_to(tv2) does not carry the basepoint of tv to that of tv2", case_of)
        judge_rows(m_iso, rv, vec_tol(omr), ok, "isometry_to/direction",
                   "tv.isometry_to(tv2) does not carry the direction of tv to a multiple of "
                   "that of tv2", case_of)
        judge_isometry(m_iso, If, iso_tol(r2.one_minus_r_proj(p) * r2.one_minus_r_proj(q)), ok, "isometry_to/not-an-isometry",
                       "tv.isometry_to(tv2) is not in O(n,1) (|I^T J I - J| / max(1,|I|^2))",
                       lambda k: dict(case_of(k), matrix=If[k]))
        sgn = ok & np.isfinite(lp * lv) & ~(lp * lv > 0)
        if sgn.any():
            k = int(np.flatnonzero(sgn)[0])
            m_iso.fail("isometry_to/direction-sign",
                       "direction carried to a *negative* multiple (scalars %r, %r)" % (lp[k], lv[k]),
                       case_of(k))
        else:
            m_iso.ok()

    attach.wrap_attr(run, H.TangentVector, "isometry_to", iso_post, pre=iso_pre)

    # -- point_along, hyp_to_affine_dist ------------------------------------------------
    def pa_pre(call):
        t = call.args[1] if len(call.args) > 1 else call.kwargs.get("distance")
        try:
            t = np.array(t, dtype=float, copy=True)
        except Exception:
            t = None
        return copy_of(call.args[0], "aux_data"), t

    def pa_post(call, st):
        if call.exc is not None or st is None or st[0] is None or st[1] is None:
            return
        aux, t = st
        res = np.asarray(call.result.proj_data, dtype=float)
        sh = aux.shape[:-2]
        n1 = aux.shape[-1]
        if res.shape != sh + (n1,):
            return m_pa.fail("point_along/shape", "point data of shape %r for tangent data of shape %r"
                             % (res.shape, aux.shape), {"tangent": aux, "t": t, "ambient": amb()})
        try:
            T = np.broadcast_to(t, sh).reshape(-1)
        except ValueError:
            return m_pa.skip("distance not broadcastable to the composite shape")
        a = flat(aux, 2)
        p, v = a[:, 0], a[:, 1]
        x = flat(res)
        with np.errstate(all="ignore"):
            unit = np.abs(rh.mink_sq(v) - 1.0) <= 1e-9 * np.sum(v * v, axis=-1)
        ok = r2.interior_mask(p, 1e-9) & spacelike_mask(v) & np.isfinite(T) & (np.abs(T) <= 20)
        with np.errstate(all="ignore"):
            far = r2.omr_far(r2.one_minus_r_proj(p), np.where(np.isfinite(T), T, 0.0)) >= OMR_MIN
        if (ok & ~far).any():
            m_pa.skip("far point beyond the float64 resolution of Klein coordinates (1 - r < 1e-13)")
        ok &= far
        if (ok & ~unit).any():
            m_pa.skip("tangent vector not of unit length (property speaks of unit vectors)")
        ok &= unit
        if not ok.any():
            return m_pa.skip("basepoint not interior / vector not spacelike")
        with np.errstate(all="ignore"):
            exp = rh.exp_map(p, v, T)
            got = klein_of(x)
            omr = r2.omr_far(r2.one_minus_r_proj(p), T)
            err = r2.dist_klein_ref(got, exp)
        err = np.where(np.sum(got * got, axis=-1) < 1, err, np.nan)
        judge_rows(m_pa, err, r2.coord_tol(omr), ok, "point_along/position",
                   "point_along(t) is not the point exp_p(t v) of the reference "
                   "(hyperbolic distance between the two)",
                   lambda w: {"basepoint": p[w], "vector": v[w], "t": T[w], "returned_klein": got[w],
                              "expected_klein": exp[w], "ambient": amb()})

    attach.wrap_attr(run, H.TangentVector, "point_along", pa_post, pre=pa_pre)

    def h2a(call):
        if call.exc is not None:
            return
        try:
            r = np.asarray(call.args[0], dtype=float)
            res = np.asarray(call.result, dtype=float)
        except Exception:
            return m_pa.skip("hyp_to_affine_dist: non-real argument")
        if res.shape != r.shape:
            return m_pa.fail("point_along/hyp_to_affine_dist/shape", "shape changed",
                             {"r": r, "ambient": amb()})
        ok = np.isfinite(r) & (np.abs(r) <= 20)
        if r.size == 0 or not ok.any():
            return m_pa.skip("hyp_to_affine_dist: |r| > 20 or empty")
        judge_rows(m_pa, np.abs(res - np.tanh(r)), 1e-12, ok, "point_along/hyp_to_affine_dist/value",
                   "hyp_to_affine_dist(r) != tanh(r)",
                   lambda w: {"r": r.reshape(-1)[w], "returned": res.reshape(-1)[w], "ambient": amb()})

    attach.wrap_everywhere(run, H.hyp_to_affine_dist, h2a)

    # -- unit_tangent_towards ----------------------------------------------------
    def ut_pre(call):
        o = call.args[1] if len(call.args) > 1 else call.kwargs.get("other")
        return copy_of(call.args[0], "proj_data"), copy_of(o, "proj_data")

    def ut_post(call, st):
        if call.exc is not None or st is None or st[0] is None or st[1] is None:
            return
        P, Q = st
        aux = np.asarray(call.result.aux_data, dtype=float)
        try:
            sh = np.broadcast_shapes(P.shape[:-1], Q.shape[:-1])
        except ValueError:
            return m_ut.skip("shapes not broadcastable")
        n1 = P.shape[-1]
        if aux.shape != sh + (2, n1):
            return m_ut.skip("result shape follows another broadcasting rule (C04)")
        p = flat(np.broadcast_to(P, sh + (n1,)))
        q = flat(np.broadcast_to(Q, sh + (n1,)))
        a = flat(aux, 2)
        bp, v = a[:, 0], a[:, 1]
        ok = r2.interior_mask(p, 1e-9) & r2.interior_mask(q, 1e-9) & (p[:, 0] != 0) & (q[:, 0] != 0)
        if not ok.any():
            return m_ut.skip("points not interior")
        with np.errstate(all="ignore"):
            d = r2.dist_proj_ref(p, q)
            omr = np.minimum(r2.one_minus_r_proj(p), r2.one_minus_r_proj(q))
        # separated enough for the direction to be defined by the data: the
        # tangent component of q - p is known up to ~eps/omr, so relative to its
        # length d up to eps/(omr d).  d >= 1e-6 as before, and below that down to
        # 1e-9 as long as eps/(omr d) <= 1e-5  (C13-r3-1: targets closer than
        # ~5e-7 gave an un-normalised vector)
        sep = ok & (omr >= 1e-9) & ((d >= 1e-6) | ((d >= 1e-9) & (d * omr >= 1e-11)))
        if (ok & ~sep).any():
            m_ut.skip("target (nearly) coincides with the basepoint: direction undefined")
        if not sep.any():
            return
        case_of = lambda w: {"p": p[w], "q": q[w], "returned_basepoint": bp[w], "returned_vector": v[w],
                             "reference_distance": d[w], "ambient": amb()}
        rb, lb = r2.proj_residual(bp, p)
        judge_rows(m_ut, rb, VEC_TOL, sep, "unit_tangent_towards/basepoint",
                   "the tangent vector returned is not based at the point", case_of)
        with np.errstate(all="ignore"):
            wref = r2.unit_tangent_ref(p, q)
            s = np.where(bp[:, 0] * rh.hyperboloid_pos(p)[:, 0] < 0, -1.0, 1.0)[:, None]
            dev = np.linalg.norm(v * s - wref, axis=-1) / np.linalg.norm(wref, axis=-1)
            unit_err = np.abs(rh.mink_sq(v) - 1.0) / np.sum(v * v, axis=-1)
        tol = 1e-7 + 1e-11 / (omr * np.minimum(d, 1.0))
        judge_rows(m_ut, dev, tol, sep, "unit_tangent_towards/direction",
                   "unit_tangent_towards(q) is not the unit tangent of the reference pointing to q "
                   "(relative Euclidean deviation)", case_of)
        judge_rows(m_ut, unit_err, 1e-9, sep, "unit_tangent_towards/unit-length",
                   "the tangent vector returned is not of unit Minkowski length", case_of)

    attach.wrap_attr(run, H.Point, "unit_tangent_towards", ut_post, pre=ut_pre)

    # -- angle ------------------------------------------------------------------------
    def an_pre(call):
        o = call.args[1] if len(call.args) > 1 else call.kwargs.get("other")
        return copy_of(call.args[0], "aux_data"), copy_of(o, "aux_data")

    def an_post(call, st):
        if call.exc is not None or st is None or st[0] is None or st[1] is None:
            return
        a1, a2 = st
        res = np.asarray(call.result, dtype=float)
        try:
            sh = np.broadcast_shapes(a1.shape[:-2], a2.shape[:-2])
        except ValueError:
            return m_an.skip("shapes not broadcastable")
        if res.shape != sh:
            return m_an.skip("result shape follows another broadcasting rule (C04)")
        n1 = a1.shape[-1]
        A1 = flat(np.broadcast_to(a1, sh + (2, n1)), 2)
        A2 = flat(np.broadcast_to(a2, sh + (2, n1)), 2)
        A = res.reshape(-1)
        p, v, p2, w_ = A1[:, 0], A1[:, 1], A2[:, 0], A2[:, 1]
        rb, lb = r2.proj_residual(p2, p)
        ok = r2.interior_mask(p, 1e-9) & spacelike_mask(v) & spacelike_mask(w_) & (rb <= 1e-9)
        if (~ok).any():
            m_an.skip("different basepoints / not interior / not spacelike")
        if not ok.any():
            return
        with np.errstate(all="ignore"):
            Aref = r2.tangent_angle_ref(p, v, w_ * np.sign(lb)[:, None])
            omr = r2.one_minus_r_proj(p)
            sinA = np.sin(Aref)
        gen = ok & (sinA >= 1e-3)
        par = ok & ~gen
        if par.any():
            m_an.skip("(anti)parallel vectors: diagnostic class")
            k = int(np.sum(par & ~np.isfinite(A)))
            if k:
                m_an.diag("angle of (anti)parallel vectors is NaN")
            if int(np.sum(par & np.isfinite(A))):
                m_an.diag("angle of (anti)parallel vectors is finite")
        if not gen.any():
            return
        tol = (1e-9 + 1e-12 / omr) / np.where(gen, sinA, 1.0)
        judge_rows(m_an, np.abs(A - Aref), tol, gen, "angle/value",
                   "angle between tangent vectors differs from the reference angle",
                   lambda k: {"basepoint": p[k], "v": v[k], "w": w_[k], "returned": A[k],
                              "reference": Aref[k], "ambient": amb()})

    attach.wrap_attr(run, H.TangentVector, "angle", an_post, pre=an_pre)

    # -- regular polygons -------------------------------------------------------------
    def rp_post(call):
        if call.exc is not None:
            return
        b = call.bound()
        if b.get("kwargs"):
            return m_rp.skip("extra keyword arguments")
        n, radius, angle, dim = b.get("n"), b.get("radius"), b.get("angle"), b.get("dimension")
        if (radius is None) == (angle is None):
            return m_rp.skip("both or none of radius / angle given")
        try:
            n = int(n)
            dim = int(dim)
            par = np.asarray(radius if radius is not None else angle, dtype=float)
        except Exception:
            return m_rp.skip("non-numeric parameters")
        if n < 3 or dim < 2:
            return m_rp.skip("n < 3 or dimension < 2")
        V = np.asarray(call.result.proj_data, dtype=float)
        if V.shape != par.shape + (n, dim + 1):
            return m_rp.fail("regular_polygon/shape",
                             "vertex data of shape %r for n=%d, dimension=%d and a parameter of "
                             "shape %r" % (V.shape, n, dim, par.shape),
                             {"n": n, "parameter": par, "ambient": amb()})
        pf = par.reshape(-1)
        if radius is not None:
            ok = np.isfinite(pf) & (pf >= 1e-3) & (pf <= R_MAX)
            R = pf
            a = r2.polygon_angle_ref(n, np.where(ok, pf, 1.0))
            slack = np.ones_like(pf)
            how = "radius"
        else:
            frac = pf / r2.max_angle(n)
            # admissible with margin at the upper end; at the lower end (nearly
            # ideal polygons) bounded by the circumradius, not by the angle
            ok = np.isfinite(pf) & (pf > 0) & (frac <= 1 - 1e-3)
            a = pf
            R = r2.polygon_radius_ref(n, np.where(ok, pf, r2.max_angle(n) / 2))
            ok &= R <= R_MAX
            slack = 1.0 / np.where(ok, 1.0 - frac, 1.0)
            how = "angle"
        Vf = flat(V, 2)
        # small polygons (tiny radius= / angle within delta of the Euclidean
        # value): judged relative to their size
        with np.errstate(all="ignore"):
            if radius is not None:
                sm = np.isfinite(pf) & (pf >= 1e-8) & (pf <= R_SMALL)
                Rs = pf
                tolR = small_tol(np.where(sm, pf, 1.0))
            else:
                dl = pl.deficit(n, pf)
                sm = np.isfinite(pf) & (pf > 0) & (dl >= DEFICIT_MIN * r2.max_angle(n))
                Rs = pl.radius(n, np.where(sm, pf, r2.max_angle(n) / 2))
                sm &= (Rs <= R_SMALL) & (Rs > 0)
                tolR = small_tol(np.where(sm, Rs, 1.0)) + 1e-12 / np.where(sm, dl, 1.0)
        if sm.any():
            srep = small_polygon_report(Vf, n, np.where(sm, Rs, 1.0), tolR)
            for name, (err, tol) in srep.items():
                judge_rows(m_rp, err, tol, sm, "regular_polygon/%s/by-%s" % (name, how), SMALL_WHAT[name],
                           lambda w: {"n": n, "dimension": dim, how: pf[w], "expected_radius": Rs[w],
                                      "vertices_klein": klein_of(Vf[w]), "ambient": amb()})
        if (~ok & ~sm).any():
            m_rp.skip("parameter outside the admissible range (with margin)")
        if not ok.any():
            return
        rep = polygon_report(Vf, n, np.where(ok, R, 1.0), np.where(ok, a, 1.0))
        what = {"radius": "vertices are not at the expected distance from the origin",
                "sides": "sides do not have the length of the regular n-gon of this circumradius",
                "angle": "interior angles differ from the requested / expected angle",
                "planar": "vertices do not span a 2-plane"}
        for name, (err, tol) in rep.items():
            judge_rows(m_rp, err, tol * slack, ok, "regular_polygon/%s/by-%s" % (name, how), what[name],
                       lambda w: {"n": n, "dimension": dim, how: pf[w], "expected_radius": R[w],
                                  "expected_angle": a[w], "vertices_klein": klein_of(Vf[w]),
                                  "ambient": amb()})

    attach.wrap_attr(run, H.Polygon, "regular_polygon", rp_post)

    def formula_args(call, second):
        b = call.bound()
        try:
            n = np.asarray(b.get("n"), dtype=float)
            x = np.asarray(b.get(second), dtype=float)
            res = np.asarray(call.result, dtype=float)
            n, x = np.broadcast_arrays(n, x)
        except Exception:
            return None
        if res.shape != n.shape or n.size == 0:
            return None
        return n.reshape(-1), x.reshape(-1), res.reshape(-1)

    def rad_post(call):
        if call.exc is not None:
            return
        st = formula_args(call, "interior_angle")
        if st is None:
            return m_pf.skip("regular_polygon_radius: non-numeric / non-broadcastable arguments")
        n, a, res = st
        frac = a / ((n - 2) * math.pi / np.maximum(n, 1))
        ok = np.isfinite(a) & (n >= 3) & (a > 0) & (frac <= 1 - 1e-3)
        with np.errstate(all="ignore"):
            ref = r2.polygon_radius_ref(np.where(ok, n, 3), np.where(ok, a, 0.5))
        # lower end: 1e-3 of the admissible range as before, or any smaller
        # angle whose circumradius is <= 14 (nearly ideal polygons)
        ok &= (frac >= 1e-3) | (ref <= 14.0)
        # the whole admissible range, relatively, against the extended-precision
        # reference: up to deficit delta >= 1e-13 (n-2)pi/n at the Euclidean end
        # (C13-r6-3: radii below 1e-4 snapped to 0)
        with np.errstate(all="ignore"):
            dl = pl.deficit(n, a)
            okr = np.isfinite(a) & (n >= 3) & (a > 0) & (dl >= DEFICIT_MIN * (n - 2) * math.pi / np.maximum(n, 1))
            refl = pl.radius(np.where(okr, n, 3), np.where(okr, a, 0.5))
            okr &= (refl > 0) & (refl <= 14.0)
        if okr.any():
            with np.errstate(all="ignore"):
                errr = np.abs(res / np.where(okr, refl, 1.0) - 1.0)
            judge_rows(m_pf, errr, 1e-9 + 1e-12 / np.where(okr, dl, 1.0), okr,
                       "polygon-formulas/regular_polygon_radius/relative",
                       "regular_polygon_radius(n, a) differs from cosh R = cot(pi/n) cot(a/2) "
                       "(relative to R; allowance 1e-12/deficit)",
                       lambda w: {"n": n[w], "angle": a[w], "deficit": dl[w], "returned": res[w],
                                  "reference": refl[w], "ambient": amb()})
        if (~ok & ~okr).any():
            m_pf.skip("regular_polygon_radius: angle outside the admissible range (with margin)")
        if not ok.any():
            return
        tol = 1e-9 * (1.0 + ref) / np.where(ok, 1.0 - frac, 1.0)
        judge_rows(m_pf, np.abs(res - ref), tol, ok, "polygon-formulas/regular_polygon_radius",
                   "regular_polygon_radius(n, a) differs from cosh R = cot(pi/n) cot(a/2)",
                   lambda w: {"n": n[w], "angle": a[w], "returned": res[w], "reference": ref[w],
                              "ambient": amb()})

    def ang_post(call):
        if call.exc is not None:
            return
        st = formula_args(call, "hyp_radius")
        if st is None:
            return m_pf.skip("polygon_interior_angle: non-numeric / non-broadcastable arguments")
        n, R, res = st
        # against the extended-precision reference, at the accuracy the mutual
        # inverse needs near the Euclidean end: the deficit (n-2)pi/n - a ~ R^2
        # is all that distinguishes small radii (pinned tree: 2.4 eps/sin(pi/n))
        okd = np.isfinite(R) & (n >= 3) & (R >= 1e-8) & (R <= 20)
        if okd.any():
            refl = pl.angle(np.where(okd, n, 3), np.where(okd, R, 1.0))
            judge_rows(m_pf, np.abs(res - refl), 1e-12 / np.sin(math.pi / np.where(okd, n, 3)), okd,
                       "polygon-formulas/polygon_interior_angle/deficit",
                       "polygon_interior_angle(n, R) differs from tan(a/2) = cot(pi/n)/cosh R by more "
                       "than 1e-12/sin(pi/n)",
                       lambda w: {"n": n[w], "radius": R[w], "returned": res[w], "reference": refl[w],
                                  "ambient": amb()})
        ok = np.isfinite(R) & (n >= 3) & (R >= 1e-6) & (R <= 20)
        if (~ok & ~okd).any():
            m_pf.skip("polygon_interior_angle: radius outside [1e-8, 20]")
        if not ok.any():
            return
        ref = r2.polygon_angle_ref(np.where(ok, n, 3), np.where(ok, R, 1.0))
        tol = 1e-9 / np.sin(math.pi / np.where(ok, n, 3))
        judge_rows(m_pf, np.abs(res - ref), tol, ok, "polygon-formulas/polygon_interior_angle",
                   "polygon_interior_angle(n, R) differs from tan(a/2) = cot(pi/n)/cosh R",
                   lambda w: {"n": n[w], "radius": R[w], "returned": res[w], "reference": ref[w],
                              "ambient": amb()})

    attach.wrap_everywhere(run, H.regular_polygon_radius, rad_post)
    attach.wrap_everywhere(run, H.polygon_interior_angle, ang_post)


# ---------------------------------------------------------------------------
# workload helpers

CLASSES = ("bulk", "mid", "origin")
FO = ("default", True, False)


def gen_points(rng, d, shape, cls):
    if cls == "origin":
        k = r2.rand_klein(rng, d, shape, "bulk") * (rng.random(size=tuple(shape) + (1,)) < 0.5)
    else:
        k = r2.rand_klein(rng, d, shape, cls)
    return k


def lib_point(k, rng):
    """library Point for Klein truth k through a random construction model
    (positive representative)."""
    from geometry_tools.hyperbolic import Point
    m = ("klein", "projective", "poincare", "hyperboloid")[int(rng.integers(4))]
    return Point(r2.klein_to_model(k, m, rng), model=m), m


def fo_kwargs(fo):
    return {} if fo == "default" else {"force_oriented": fo}


def base_tangent(run, mon, d, shape, case):
    """TangentVector.get_base_tangent(d, shape); when that raises, report it and
    build the same object by hand so that the case can go on."""
    from geometry_tools.hyperbolic import TangentVector, Point
    try:
        bt = TangentVector.get_base_tangent(d, tuple(shape))
        ok = np.asarray(bt.proj_data).shape == tuple(shape) + (2, d + 1)
        mon.require(ok, "hit-target/base-tangent/shape",
                    "get_base_tangent(%d, %r) has data of shape %r" % (d, shape, np.shape(bt.proj_data)),
                    case)
        if ok:
            return bt
    except Exception as e:
        mon.fail("hit-target/base-tangent/exception:%s/composite-shape" % type(e).__name__,
                 "TangentVector.get_base_tangent(%d, shape=%r) raised %s: %s"
                 % (d, tuple(shape), type(e).__name__, str(e)[:160]),
                 dict(case, call="get_base_tangent(%d, %r)" % (d, tuple(shape))),
                 tb=traceback.format_exc())
    e1 = np.zeros(tuple(shape) + (d + 1,))
    e1[..., 1] = 1.0
    return TangentVector(Point.get_origin(d, tuple(shape)), e1)


def tangent_compare(mon, key, what, im, kq, wq, omr, case):
    """im: library TangentVector; expected basepoint Klein kq and direction wq
    (tangent at the positive representative of kq), up to a positive scalar
    coupled with the sign of the basepoint representative."""
    aux = flat(np.asarray(im.aux_data, dtype=float), 2)
    bp, v = aux[:, 0], aux[:, 1]
    kqf = flat(kq)
    wqf = flat(wq)
    omr = np.asarray(omr, dtype=float).reshape(-1)
    with np.errstate(all="ignore"):
        err = r2.dist_klein_ref(klein_of(bp), kqf)
    judge_rows(mon, err, r2.coord_tol(omr), None, key + "/basepoint", what + " (basepoint)",
               lambda w: dict(case, row=w, image_basepoint=bp[w], expected_klein=kqf[w]))
    s = np.where(bp[:, 0] < 0, -1.0, 1.0)[:, None]
    res, lam = r2.proj_residual(v * s, wqf)
    judge_rows(mon, res, vec_tol(omr), None, key + "/direction", what + " (direction, up to a scalar)",
               lambda w: dict(case, row=w, image_vector=v[w], expected_direction=wqf[w]))
    neg = np.isfinite(lam) & ~(lam > 0)
    if neg.any():
        w = int(np.flatnonzero(neg)[0])
        mon.fail(key + "/direction-sign", what + " (direction reversed)",
                 dict(case, row=w, image_vector=v[w], expected_direction=wqf[w]))
    else:
        mon.ok()


def rand_tangent(rng, P, cls="tangent"):
    """a tangent direction at the positive hyperboloid representative of P, of
    random positive length; 'non-tangent': plus a multiple of P (the library
    must project)."""
    h = rh.hyperboloid_pos(P)
    g = rng.normal(size=h.shape)
    w = rh.tangent_project(h, g)
    w = w / np.sqrt(rh.mink_sq(w))[..., None]
    scale = np.exp(rng.uniform(np.log(0.2), np.log(5.0), size=h.shape[:-1] + (1,)))
    v = w * scale
    if cls == "non-tangent":
        v = v + h * rng.uniform(-1.0, 1.0, size=h.shape[:-1] + (1,))
    return w, v


# ---------------------------------------------------------------------------
# workloads

def wl_origin(run, rng, idx):
    from geometry_tools.hyperbolic import Point
    mon = run.monitor("hit-target")
    d = 2 + idx % 4
    kind = SHAPE_KINDS[(idx // 4) % 4]
    cls = CLASSES[(idx // 16) % 3]
    fo = FO[(idx // 2) % 3]
    shape = rand_shape(rng, kind)
    k = gen_points(rng, d, shape, cls)
    case = {"dimension": d, "shape": list(shape), "class": cls, "force_oriented": fo, "klein": k}
    run.current_case = case
    P, m = lib_point(k, rng)
    case["model"] = m
    T = P.origin_to(**fo_kwargs(fo))
    o = Point.get_origin(d, tuple(shape))
    img = T @ o
    ik = np.asarray(img.coords("klein"), dtype=float)
    if not mon.require(ik.shape == k.shape, "hit-target/origin_to/shape",
                       "image of the origin has Klein shape %r, expected %r" % (ik.shape, k.shape), case):
        return
    omr = r2.one_minus_r_klein(k)
    err = r2.dist_klein_ref(ik, k)
    judge_rows(mon, err, r2.coord_tol(omr), None, "hit-target/origin_to/" + cls,
               "p.origin_to() @ origin is not p (hyperbolic distance)",
               lambda w: dict(case, row=w, image_klein=flat(ik)[w], expected_klein=flat(k)[w]))
    # the same through apply(), and the inverse sends p back to the origin
    back = np.asarray((T.inv() @ P).coords("klein"), dtype=float)
    judge_rows(mon, r2.dist_klein_ref(back, np.zeros_like(back)), r2.coord_tol(omr), None,
               "hit-target/origin_to-inverse/" + cls,
               "p.origin_to().inv() @ p is not the origin",
               lambda w: dict(case, row=w, image_klein=flat(back)[w]))
    run.note_class("origin_to", d, kind, cls, fo, m)
    if idx < 2:
        run.sample({"check": "origin_to", "dimension": d, "shape": list(shape), "klein": k,
                    "force_oriented": fo})


def wl_tangent(run, rng, idx):
    from geometry_tools.hyperbolic import Point, TangentVector
    mon = run.monitor("hit-target")
    d = 2 + idx % 4
    kind = SHAPE_KINDS[(idx // 4) % 4]
    cls = CLASSES[(idx // 16) % 3]
    fo = FO[(idx // 3) % 3]
    vcls = ("tangent", "non-tangent")[(idx // 2) % 2]
    shape = rand_shape(rng, kind)
    kp = gen_points(rng, d, shape, cls)
    kq = gen_points(rng, d, shape, "bulk")
    Pp = rh.klein_to_proj(kp) * np.exp(rng.uniform(-1, 1, size=tuple(shape) + (1,)))
    Pq = rh.klein_to_proj(kq)
    wp, vp = rand_tangent(rng, Pp, vcls)
    wq, vq = rand_tangent(rng, Pq, vcls)
    # the tangent vector is attached to the representative Pp (positive
    # multiple of the hyperboloid point): same direction
    case = {"dimension": d, "shape": list(shape), "class": cls, "force_oriented": fo,
            "vector_class": vcls, "p": Pp, "v": vp, "q": Pq, "w": vq}
    run.current_case = case
    tv = TangentVector(Point(Pp.copy()), vp.copy())
    tv2 = TangentVector(Point(Pq.copy()), vq.copy())
    omr_p = r2.one_minus_r_klein(kp)
    omr_q = r2.one_minus_r_klein(kq)

    T = tv.origin_to(**fo_kwargs(fo))
    bt = base_tangent(run, mon, d, shape, case)
    im = T @ bt
    tangent_compare(mon, "hit-target/tangent-origin_to",
                    "tv.origin_to() @ base_tangent is not a positive multiple of tv",
                    im, kp, wp, omr_p, case)

    I = tv.isometry_to(tv2, **fo_kwargs(fo))
    im2 = I @ tv
    both = np.minimum(omr_p, omr_q)
    tangent_compare(mon, "hit-target/isometry_to",
                    "tv.isometry_to(tv2) @ tv is not (basepoint, direction) of tv2",
                    im2, kq, wq, both, case)
    # ... and therefore geodesic to geodesic, parametrised by arc length
    t = rng.uniform(-3, 3, size=tuple(shape))
    moved = I @ tv.normalized().point_along(t)
    mk = np.asarray(moved.coords("klein"), dtype=float)
    exp = rh.exp_map(Pq, wq, t)
    omr3 = np.minimum(r2.omr_far(omr_p, t), r2.omr_far(omr_q, t))
    judge_rows(mon, r2.dist_klein_ref(mk, exp), r2.coord_tol(omr3), None,
               "hit-target/isometry_to/along-geodesic",
               "tv.isometry_to(tv2) does not carry the point at arc length t on tv's geodesic to "
               "the point at arc length t on tv2's",
               lambda w: dict(case, row=w, t=np.reshape(t, -1)[w], image_klein=flat(mk)[w],
                              expected_klein=flat(exp)[w]))
    run.note_class("tangent", d, kind, cls, fo, vcls)
    if idx < 2:
        run.sample({"check": "tangent", "dimension": d, "shape": list(shape), "p": Pp, "v": vp})


# ---------------------------------------------------------------------------
# tangent vectors of extreme length, followed by macroscopic requests
# (third seeding round, C13-r3-1)

SCALE_CLASSES = ("tiny", "small", "huge", "mixed")
SCALE_RANGE = {"tiny": (1e-9, 1e-6), "small": (1e-6, 1e-3), "huge": (1e3, 1e9),
               "ordinary": (0.2, 5.0)}


def rand_lengths(rng, shape, scls):
    """Minkowski lengths of a scale class, log-uniform; 'mixed': the class is
    drawn per unit (a composite holding a 1e-8-long vector next to an ordinary
    and a 1e6-long one)."""
    shape = tuple(shape)
    if scls == "mixed":
        names = ("tiny", "small", "huge", "ordinary")
        pick = rng.integers(0, 4, size=shape)
        lo = np.array([SCALE_RANGE[k][0] for k in names])[pick]
        hi = np.array([SCALE_RANGE[k][1] for k in names])[pick]
    else:
        lo, hi = SCALE_RANGE[scls]
    return np.exp(rng.uniform(np.log(lo), np.log(hi), size=shape))


def rand_scaled_tangent(rng, P, scls, vcls):
    """(w, v, L): v = L w with w a unit tangent at the positive hyperboloid
    representative of P and L of the scale class ('non-tangent': plus L c h,
    |c| <= 1, which the library must project away).  The direction of v is
    defined by the floating-point data v itself to ~eps/omr whatever L is:
    multiplying by L costs one rounding per coordinate.  w is recomputed from v
    so that the reference answers for the data the library was given."""
    w0, _ = rand_tangent(rng, P, "tangent")
    L = rand_lengths(rng, w0.shape[:-1], scls)
    v = w0 * L[..., None]
    h = rh.hyperboloid_pos(P)
    if vcls == "non-tangent":
        v = v + h * (L * rng.uniform(-1.0, 1.0, size=L.shape))[..., None]
    w = rh.tangent_project(h, v)
    w = w / np.sqrt(rh.mink_sq(w))[..., None]
    return w, v, L


def wl_tangent_scales(run, rng, idx):
    """The property quantifies over tangent vectors, not over unit ones: the
    isometries built from (p, v) and the unit vector normalized() returns may not
    depend on the length of v.  Vectors of Minkowski length 1e-9..1e-3 and
    1e3..1e9 (given as data, so their direction is well defined), alone or mixed
    in one composite, each followed by a *macroscopic* request:
      normalized() -> unit (postcondition) -> point_along(t), |t| in [0.3,3]: at
        distance |t| from the basepoint, = exp_p(t w);
      origin_to() in O(n,1) (postcondition), sends the base tangent to (p, +w) and
        the point at arc length s on the base geodesic to exp_p(s w);
      isometry_to between it and a vector of another scale, both ways: (p,v) ->
        (q,w2) and exp_p(t w) -> exp_q(t w2) for reference points.
    C13-r3-1 (normalize() leaving vectors shorter than 1e-6 alone) passes every
    up-to-a-scalar comparison; only these requests see it."""
    from geometry_tools.hyperbolic import Point, TangentVector
    mon = run.monitor("hit-target")
    geo = run.monitor("geodesic")
    scls = SCALE_CLASSES[idx % 4]
    d = 2 + (idx // 4) % 4
    kind = SHAPE_KINDS[(idx // 16) % 4] if scls != "mixed" else SHAPE_KINDS[1 + (idx // 16) % 3]
    cls = CLASSES[(idx // 2) % 3]
    fo = FO[(idx // 3) % 3]
    vcls = ("tangent", "non-tangent")[(idx // 8) % 2]
    other = ("ordinary", "huge" if scls in ("tiny", "small") else "tiny", "mixed")[(idx // 5) % 3]
    shape = rand_shape(rng, kind)
    if scls == "mixed" and int(np.prod(shape)) < 2:
        shape = (3,)
    kp = gen_points(rng, d, shape, cls)
    kq = gen_points(rng, d, shape, "bulk")
    Pp = rh.klein_to_proj(kp) * np.exp(rng.uniform(-1, 1, size=tuple(shape) + (1,)))
    Pq = rh.klein_to_proj(kq)
    wp, vp, Lp = rand_scaled_tangent(rng, Pp, scls, vcls)
    wq, vq, Lq = rand_scaled_tangent(rng, Pq, other, "tangent")
    case = {"dimension": d, "shape": list(shape), "class": cls, "force_oriented": fo,
            "vector_class": vcls, "scale_class": scls, "other_scale_class": other,
            "p": Pp, "v": vp, "length_v": Lp, "q": Pq, "w": vq, "length_w": Lq}
    run.current_case = case
    # fresh objects for every request: normalized() / origin_to() renormalise the
    # caller's data in place, and a request must not live on the previous one
    mk = lambda: TangentVector(Point(Pp.copy()), vp.copy())
    mk2 = lambda: TangentVector(Point(Pq.copy()), vq.copy())
    omr_p = r2.one_minus_r_klein(kp)
    omr_q = r2.one_minus_r_klein(kq)
    both = np.minimum(omr_p, omr_q)
    tag = "/vector-length:" + scls

    # (1) normalized(), then a walk of macroscopic length
    t = rng.uniform(0.3, 3.0, size=tuple(shape)) * rng.choice([-1.0, 1.0], size=tuple(shape))
    if cls == "mid":
        t = np.clip(t, -2.0, 2.0)
    u = mk().normalized()
    tangent_compare(mon, "hit-target/normalized" + tag,
                    "tv.normalized() is not (basepoint, direction) of tv", u, kp, wp, omr_p, case)
    uv = flat(np.asarray(u.vector, dtype=float))
    with np.errstate(all="ignore"):
        unit_err = np.abs(rh.mink_sq(uv) - 1.0) / np.sum(uv * uv, axis=-1)
    judge_rows(geo, unit_err, vec_tol(omr_p), None, "geodesic/normalized/unit-length" + tag,
               "tv.normalized().vector is not of unit Minkowski length",
               lambda w: dict(case, row=w, returned_vector=uv[w]))
    X = u.point_along(t)
    xk = np.asarray(X.coords("klein"), dtype=float)
    if geo.require(xk.shape == kp.shape, "geodesic/point_along/shape",
                   "point_along gives Klein shape %r for a composite of shape %r" % (xk.shape, shape),
                   case):
        ct = r2.coord_tol(r2.omr_far(omr_p, t))
        dd = r2.dist_klein_ref(xk, kp)
        judge_rows(geo, np.abs(dd - np.abs(t)), ct, None, "geodesic/point_along/distance" + tag,
                   "tv.normalized().point_along(t) is not at reference distance |t| from the "
                   "basepoint", lambda w: dict(case, row=w, t_row=np.reshape(t, -1)[w],
                                               distance=np.reshape(dd, -1)[w]))
        exp = rh.exp_map(Pp, wp, t)
        judge_rows(geo, r2.dist_klein_ref(xk, exp), ct, None, "geodesic/point_along/position" + tag,
                   "tv.normalized().point_along(t) is not the point at signed arc length t on the "
                   "geodesic of tv", lambda w: dict(case, row=w, t_row=np.reshape(t, -1)[w],
                                                     klein=flat(xk)[w], expected=flat(exp)[w]))

    # (2) origin_to(): base tangent -> (p, +w); base geodesic -> geodesic of tv,
    # arc length kept (the isometry itself is judged by the postcondition)
    T = mk().origin_to(**fo_kwargs(fo))
    bt = base_tangent(run, mon, d, shape, case)
    tangent_compare(mon, "hit-target/tangent-origin_to" + tag,
                    "tv.origin_to() @ base_tangent is not a positive multiple of tv",
                    T @ bt, kp, wp, omr_p, case)
    s_ = rng.uniform(0.3, 2.0, size=tuple(shape)) * rng.choice([-1.0, 1.0], size=tuple(shape))
    base = np.zeros(tuple(shape) + (d,))
    base[..., 0] = np.tanh(s_)
    yk = np.asarray((T @ Point(base, model="klein")).coords("klein"), dtype=float)
    exp = rh.exp_map(Pp, wp, s_)
    judge_rows(mon, r2.dist_klein_ref(yk, exp), r2.coord_tol(r2.omr_far(omr_p, s_)), None,
               "hit-target/tangent-origin_to/along-geodesic" + tag,
               "tv.origin_to() does not carry the point at arc length s on the base geodesic to "
               "the point at arc length s along tv",
               lambda w: dict(case, row=w, s=np.reshape(s_, -1)[w], image_klein=flat(yk)[w],
                              expected_klein=flat(exp)[w]))

    # (3) isometry_to, both ways, judged on reference points of the geodesics
    t3 = rng.uniform(-2.0, 2.0, size=tuple(shape))
    on_p = rh.exp_map(Pp, wp, t3)
    on_q = rh.exp_map(Pq, wq, t3)
    omr3 = np.minimum(r2.omr_far(omr_p, t3), r2.omr_far(omr_q, t3))
    for name, a, b, src, dst, kd, wd in (("to-other", mk, mk2, on_p, on_q, kq, wq),
                                         ("from-other", mk2, mk, on_q, on_p, kp, wp)):
        I = a().isometry_to(b(), **fo_kwargs(fo))
        tangent_compare(mon, "hit-target/isometry_to/" + name + tag,
                        "tv.isometry_to(tv2) @ tv is not (basepoint, direction) of tv2",
                        I @ a(), kd, wd, both, case)
        mk_ = np.asarray((I @ Point(src.copy(), model="klein")).coords("klein"), dtype=float)
        judge_rows(mon, r2.dist_klein_ref(mk_, dst), r2.coord_tol(omr3), None,
                   "hit-target/isometry_to/along-geodesic/" + name + tag,
                   "tv.isometry_to(tv2) does not carry the point at arc length t on tv's geodesic "
                   "to the point at arc length t on tv2's",
                   lambda w: dict(case, row=w, direction=name, t=np.reshape(t3, -1)[w],
                                  image_klein=flat(mk_)[w], expected_klein=flat(dst)[w]))
    run.note_class("tangent-scales", d, kind, cls, fo, vcls, scls, other)
    if idx < 2:
        run.sample({"check": "tangent-scales", "dimension": d, "scale_class": scls, "p": Pp, "v": vp})


CLOSE = ("tiny", "small")


def wl_towards_close(run, rng, idx):
    """unit_tangent_towards a point 1e-9..1e-3 away (the difference the library
    normalises is that short), then a walk of macroscopic length.  Walking only
    d(p,q) would hide an un-normalised vector: the landing error is of the order
    of d(p,q) itself (C13-r3-1).  q = exp_p(dd w) for a known unit w, so the
    direction is known up to the rounding of q's coordinates, an angle of
    ~eps/(omr dd): distance |t| from p is demanded at the usual tolerance,
    position at that tolerance + sinh|t| 1e-11/(omr dd)."""
    from geometry_tools.hyperbolic import Point, TangentVector
    mon = run.monitor("geodesic")
    ccls = CLOSE[idx % 2]
    d = 2 + (idx // 2) % 4
    kind = SHAPE_KINDS[(idx // 8) % 4]
    shape = rand_shape(rng, kind)
    kp = gen_points(rng, d, shape, "bulk")
    Pp0 = rh.klein_to_proj(kp)
    w0, _ = rand_tangent(rng, Pp0)
    lo, hi = SCALE_RANGE[ccls]
    dd = np.exp(rng.uniform(np.log(lo), np.log(hi), size=tuple(shape)))
    kq = rh.exp_map(Pp0, w0, dd)
    case = {"dimension": d, "shape": list(shape), "pair_class": "close-" + ccls, "klein_p": kp,
            "klein_q": kq, "separation": dd}
    run.current_case = case
    P, mp = lib_point(kp, rng)
    Q, mq = lib_point(kq, rng)
    case["models"] = [mp, mq]
    omr_p = r2.one_minus_r_klein(kp)
    u = P.unit_tangent_towards(Q)                 # judged by the postcondition
    tag = "/close-" + ccls
    t = rng.uniform(0.3, 3.0, size=tuple(shape)) * rng.choice([-1.0, 1.0], size=tuple(shape))
    xk = np.asarray(u.point_along(t).coords("klein"), dtype=float)
    if not mon.require(xk.shape == kp.shape, "geodesic/point_along/shape",
                       "point_along gives Klein shape %r for a composite of shape %r" % (xk.shape, shape),
                       case):
        return
    ct = r2.coord_tol(r2.omr_far(omr_p, t))
    dist = r2.dist_klein_ref(xk, kp)
    judge_rows(mon, np.abs(dist - np.abs(t)), ct, None, "geodesic/towards/distance" + tag,
               "p.unit_tangent_towards(q).point_along(t) is not at reference distance |t| from p",
               lambda w: dict(case, row=w, t_row=np.reshape(t, -1)[w], distance=np.reshape(dist, -1)[w]))
    exp = rh.exp_map(Pp0, w0, t)
    theta = 1e-11 / (omr_p * dd)
    judge_rows(mon, r2.dist_klein_ref(xk, exp), ct + np.sinh(np.abs(t)) * theta, None,
               "geodesic/towards/position" + tag,
               "p.unit_tangent_towards(q).point_along(t) is not on the geodesic from p through q at "
               "signed arc length t",
               lambda w: dict(case, row=w, t_row=np.reshape(t, -1)[w], klein=flat(xk)[w],
                              expected=flat(exp)[w]))
    # ... and the isometry to an ordinary tangent vector carries p to its basepoint
    kq2 = gen_points(rng, d, shape, "bulk")
    Pq2 = rh.klein_to_proj(kq2)
    w2, v2 = rand_tangent(rng, Pq2, "tangent")
    I = u.isometry_to(TangentVector(Point(Pq2.copy()), v2.copy()))
    ik = np.asarray((I @ P).coords("klein"), dtype=float)
    both = np.minimum(omr_p, r2.one_minus_r_klein(kq2))
    judge_rows(mon, r2.dist_klein_ref(ik, kq2), r2.coord_tol(both), None,
               "geodesic/towards/isometry_to-basepoint" + tag,
               "p.unit_tangent_towards(q).isometry_to(tv2) @ p is not the basepoint of tv2",
               lambda w: dict(case, row=w, image_klein=flat(ik)[w], expected_klein=flat(kq2)[w]))
    run.note_class("towards-close", d, kind, ccls, mp, mq)


# ---------------------------------------------------------------------------
# long range: distances 6..12 (fourth seeding round, C13-r4-3)

LONG_T = {"long": (6.0, 9.0), "very-long": (9.0, 11.5)}
LONG_CLASSES = ("long", "very-long", "mixed-range", "far-pair")


def rand_long_t(rng, shape, tcls):
    """|t| log-uniform in the class range, random sign; 'mixed-range': per
    unit ordinary [0.1,3], long or very long (a distance that is clipped or
    saturated only beyond a threshold sits next to ordinary ones)."""
    shape = tuple(shape)
    if tcls == "mixed-range":
        pick = rng.integers(0, 3, size=shape)
        lo = np.array([0.1, 6.0, 9.0])[pick]
        hi = np.array([3.0, 9.0, 11.5])[pick]
    else:
        lo, hi = LONG_T[tcls]
    return rng.uniform(lo, hi, size=shape) * rng.choice([-1.0, 1.0], size=shape)


def wl_long_range(run, rng, idx):
    """'all distances t in a bounded range' and 'all point pairs': the bounded
    range of the earlier workloads ended at |t| = 6 and pairs at d ~ 7.  Here
    |t| in [6, 11.5] from basepoints within Klein radius 0.5 (scalar, per unit,
    or mixed with ordinary distances in one composite), and pairs p near the
    origin, q at distance 7.5..10.5 from it, in every construction model.
    Tolerance as everywhere, 1e-7 + 1e-11/omr_far with omr_far = 1 - (Klein
    radius) of the far point ~ 2 e^{-2(rho_p + |t|)}: the pinned tree stays
    below 3e-16/omr_far up to |t| = 15, the tolerance is 0.13 at rho_p + |t| =
    12.  C13-r4-3 (hyp_to_affine_dist clipped to 1 - 1e-6: every walk stops at
    distance 7.254) is off by |t| - 7.254."""
    from geometry_tools.hyperbolic import Point, TangentVector
    mon = run.monitor("geodesic")
    tcls = LONG_CLASSES[idx % 4]
    d = 2 + (idx // 4) % 4
    kind = SHAPE_KINDS[(idx // 16) % 4] if tcls != "mixed-range" else SHAPE_KINDS[1 + (idx // 16) % 3]
    shape = rand_shape(rng, kind)
    if tcls == "mixed-range" and int(np.prod(shape)) < 3:
        shape = (4,)
    near0 = (idx // 8) % 3 == 2                  # basepoint exactly at the origin
    kp = r2.rand_klein(rng, d, shape, "bulk") * (0.0 if near0 else 0.5 / 0.95)
    omr_p = r2.one_minus_r_klein(kp)
    tag = "/" + tcls
    if tcls != "far-pair":
        scalar_t = bool((idx // 2) % 2) and tcls != "mixed-range"
        Pp = rh.klein_to_proj(kp) * np.exp(rng.uniform(-1, 1, size=tuple(shape) + (1,)))
        wp, vp = rand_tangent(rng, Pp, "tangent")
        t = rand_long_t(rng, (), tcls) if scalar_t else rand_long_t(rng, tuple(shape), tcls)
        case = {"dimension": d, "shape": list(shape), "t_class": tcls, "scalar_t": scalar_t,
                "p": Pp, "v": vp, "t": t}
        run.current_case = case
        tv = TangentVector(Point(Pp.copy()), vp.copy()).normalized()
        X = tv.point_along(float(t) if scalar_t and idx % 3 == 0 else np.array(t))
        xk = np.asarray(X.coords("klein"), dtype=float)
        if not mon.require(xk.shape == kp.shape, "geodesic/point_along/shape",
                           "point_along gives Klein shape %r for a composite of shape %r"
                           % (xk.shape, shape), case):
            return
        T = np.broadcast_to(t, tuple(shape))
        ct = r2.coord_tol(r2.omr_far(omr_p, T))
        dd = r2.dist_klein_ref(xk, kp)
        judge_rows(mon, np.abs(dd - np.abs(T)), ct, None, "geodesic/point_along/distance" + tag,
                   "point_along(t) is not at reference distance |t| from the basepoint",
                   lambda w: dict(case, row=w, t_row=np.reshape(T, -1)[w], distance=np.reshape(dd, -1)[w]))
        exp = rh.exp_map(Pp, wp, T)
        judge_rows(mon, r2.dist_klein_ref(xk, exp), ct, None, "geodesic/point_along/position" + tag,
                   "point_along(t) is not the point at signed arc length t on the geodesic",
                   lambda w: dict(case, row=w, t_row=np.reshape(T, -1)[w], klein=flat(xk)[w],
                                  expected=flat(exp)[w]))
        # the same observable without any subtraction of nearly equal numbers:
        # for a basepoint at the origin 1 - |x| = 2/(1 + e^{2|t|}) (relative)
        if near0:
            omr_x = r2.one_minus_r_klein(xk)
            want = 2.0 / (1.0 + np.exp(2.0 * np.abs(T)))
            judge_rows(mon, np.abs(np.log(omr_x / want)), 2 * ct, None,
                       "geodesic/point_along/boundary-gap" + tag,
                       "point_along(t) from the origin: 1 - (Klein radius) is not 2/(1 + e^{2|t|}) "
                       "(|log ratio| = twice the error of the distance)",
                       lambda w: dict(case, row=w, t_row=np.reshape(T, -1)[w],
                                      one_minus_r=np.reshape(omr_x, -1)[w],
                                      expected=np.reshape(want, -1)[w]))
        run.note_class("long-range", d, kind, tcls, scalar_t, near0)
        return
    # far-apart pair: q = exp_p(dq w), dq in [7.5, 10.5] (q keeps a margin of
    # 1e-9 |q|^2 inside the light cone, the domain of the postcondition)
    Pp0 = rh.klein_to_proj(kp)
    w0, _ = rand_tangent(rng, Pp0)
    dq = rng.uniform(7.5, 10.5 - 0.55, size=tuple(shape))
    kq = rh.exp_map(Pp0, w0, dq)
    case = {"dimension": d, "shape": list(shape), "pair_class": "far-pair", "klein_p": kp,
            "klein_q": kq, "separation": dq}
    run.current_case = case
    P, mp = lib_point(kp, rng)
    Q, mq = lib_point(kq, rng)
    case["models"] = [mp, mq]
    dref = r2.dist_klein_ref(kp, kq)             # what the coordinates of q say
    u = P.unit_tangent_towards(Q)
    ak = np.asarray(u.point_along(dref).coords("klein"), dtype=float)
    if not mon.require(ak.shape == kp.shape, "geodesic/point_along/shape",
                       "point_along gives Klein shape %r for a composite of shape %r" % (ak.shape, shape),
                       case):
        return
    ct = r2.coord_tol(r2.omr_far(omr_p, dref))
    judge_rows(mon, r2.dist_klein_ref(ak, kq), ct, None, "geodesic/towards/arrival" + tag,
               "following p.unit_tangent_towards(q) for d(p,q) does not arrive at q",
               lambda w: dict(case, row=w, arrival=flat(ak)[w], q=flat(kq)[w], d=np.reshape(dref, -1)[w]))
    # the point three quarters of the way: 3d/4 from p, d/4 from q (the first
    # half of such a walk is short enough to hide a saturation at ~7)
    part = np.asarray(u.point_along(0.75 * dref).coords("klein"), dtype=float)
    e = np.abs(r2.dist_klein_ref(part, kq) - 0.25 * dref) + np.abs(r2.dist_klein_ref(part, kp) - 0.75 * dref)
    judge_rows(mon, e, 2 * ct, None, "geodesic/towards/three-quarters" + tag,
               "the point at 3/4 d(p,q) towards q is not at distance 3d/4 from p and d/4 from q",
               lambda w: dict(case, row=w, point=flat(part)[w]))
    run.note_class("long-range", d, kind, tcls, mp, mq)


EXTREME = ("large-radius", "tiny-angle", "mixed-radius", "tiny-angle-array")


def wl_polygon_extreme(run, rng, idx):
    """nearly ideal regular polygons: circumradius 7..11.5, requested by radius
    or by the (tiny: 1e-5 .. 7e-3 rad) interior angle, scalar or in one array
    together with ordinary parameters; and the radius/angle formulas at these
    extremes.  Expected radius / side with the usual (1 + R)(1e-7 + 1e-11/omr);
    interior angle additionally *relative* to the angle: 1e-5 + 1e-18/omr^2 (the
    reference angle of two tangents that differ by a from coordinates of size
    cosh R; pinned tree 5e-22/omr^2) -- the absolute tolerance 1e-10/omr of
    polygon_report exceeds a tiny angle itself beyond R ~ 9.
    C13-r4-3: vertices at distance 7.254 instead of R."""
    from geometry_tools.hyperbolic import Polygon
    from geometry_tools import hyperbolic as H
    mon = run.monitor("polygon")
    ecls = EXTREME[idx % 4]
    n = (3, 4, 5, 6, 7, 8, 10, 12, 16, 24, 37, 60)[(idx // 4) % 12]
    dim = 2 if (idx // 3) % 2 == 0 else 2 + (idx // 6) % 4
    amax = r2.max_angle(n)
    array = ecls in ("mixed-radius", "tiny-angle-array")
    shape = (int(rng.integers(2, 5)),) if array else ()
    Rbig = rng.uniform(7.0, 11.5, size=shape)
    if array:
        # ordinary and extreme parameters side by side
        Rbig = np.where(rng.random(size=shape) < 0.5, Rbig, rng.uniform(0.3, 5.0, size=shape))
        Rbig[0] = rng.uniform(7.5, 11.0)
    by = "radius" if ecls in ("large-radius", "mixed-radius") else "angle"
    if by == "radius":
        par, R, a = Rbig, Rbig, r2.polygon_angle_ref(n, Rbig)
    else:
        par = r2.polygon_angle_ref(n, Rbig)          # the tiny angle, as data
        R, a = r2.polygon_radius_ref(n, par), par
    case = {"n": n, "by": by, "dimension": dim, "shape": list(shape), "parameter": par,
            "class": ecls}
    run.current_case = case
    kw = {by: (float(par) if idx % 2 else np.array(par)) if not shape else np.array(par)}
    if dim != 2 or idx % 2:
        kw["dimension"] = dim
    poly = call_regular_polygon(Polygon, n, kw, idx)
    vk = np.asarray(poly.get_vertices().coords("klein"), dtype=float)
    if not mon.require(vk.shape == tuple(shape) + (n, dim), "polygon/vertices-shape",
                       "get_vertices().coords('klein') has shape %r, expected %r"
                       % (vk.shape, tuple(shape) + (n, dim)), case):
        return
    V = flat(rh.klein_to_proj(vk), 2)
    Rf = np.reshape(R, -1).astype(float)
    af = np.reshape(a, -1).astype(float)
    slack = 1.0 / (1.0 - af / amax) if by == "angle" else np.ones_like(af)
    rep = polygon_report(V, n, Rf, af)
    what = {"radius": "vertices are not equidistant from the origin at the expected radius",
            "sides": "sides are not of the regular n-gon's length",
            "angle": "interior angle differs", "planar": "vertices do not span a 2-plane"}
    witness = lambda w: dict(case, row=w, expected_radius=Rf[w], expected_angle=af[w],
                             vertices_klein=klein_of(V[w]))
    for name, (err, tol) in rep.items():
        judge_rows(mon, err, tol * slack, None, "polygon/%s/by-%s/%s" % (name, by, ecls), what[name],
                   witness)
    omr = 1.0 - np.tanh(Rf)
    judge_rows(mon, rep["angle"][0] / af, np.minimum(rep["angle"][1] / af, 1e-5 + 1e-18 / omr ** 2) * slack,
               None, "polygon/angle-relative/by-%s/%s" % (by, ecls),
               "interior angle differs from the requested / expected angle (relative to the angle)",
               witness)
    ds = r2.dist_klein_ref(klein_of(V), np.roll(klein_of(V), -1, axis=-2))
    d0 = r2.dist_klein_ref(klein_of(V), np.zeros_like(klein_of(V)))
    ct = r2.coord_tol(omr)
    judge_rows(mon, np.ptp(d0, axis=-1), 2 * ct * (1 + Rf), None, "polygon/equidistant/" + ecls,
               "vertices are not at equal distance from the origin", witness)
    judge_rows(mon, np.ptp(ds, axis=-1), 4 * ct * (1 + Rf), None, "polygon/equal-sides/" + ecls,
               "sides are not of equal length", witness)
    # the formulas at the same extremes (values by the postconditions; here: inverses)
    case2 = {"n": n, "radius": Rf, "angle": af, "class": ecls}
    run.current_case = case2
    A = np.asarray(H.polygon_interior_angle(n, Rf.copy()), dtype=float)
    rb = np.asarray(H.regular_polygon_radius(n, A), dtype=float)
    judge_rows(mon, np.abs(rb - Rf), 1e-9 * (1 + Rf), None, "polygon/inverse/radius(angle(r))/" + ecls,
               "regular_polygon_radius(n, polygon_interior_angle(n, r)) != r",
               lambda w: dict(case2, row=w, back=rb[w]))
    Rr = np.asarray(H.regular_polygon_radius(n, af.copy()), dtype=float)
    ab = np.asarray(H.polygon_interior_angle(n, Rr), dtype=float)
    judge_rows(mon, np.abs(ab - af) / af, 1e-9 * slack, None, "polygon/inverse/angle(radius(a))/" + ecls,
               "polygon_interior_angle(n, regular_polygon_radius(n, a)) != a (relative to a)",
               lambda w: dict(case2, row=w, back=ab[w]))
    run.note_class("polygon-extreme", n, by, dim, ecls)


# ---------------------------------------------------------------------------
# the near-Euclidean end of the admissible range (sixth seeding round, C13-r6-3)

NEAR_EUCLID = ("tiny-radius", "near-euclidean-angle", "tiny-radius-array", "near-euclidean-angle-array")


def wl_near_euclidean(run, rng, idx):
    """'all admissible angles in (0, (n-2)pi/n)': the upper end.  Interior angles
    a = (n-2)pi/n - delta with delta log-uniform in [3e-13 (n-2)pi/n, 1e-4]
    (circumradius ~ sqrt(2 delta / sin(2pi/n)): 1e-2 down to ~1e-6), and explicit
    radius= requests log-uniform in [1e-7, 1e-2]; scalar, or in one array next to
    an ordinary parameter.  Everything is judged relative to the size of the
    polygon (small_polygon_report): radius against the extended-precision
    reference for the float64 datum a (tolerance 1e-9 + 1e-12/R + 1e-12/delta --
    the radius is legitimately uncertain by eps/delta), sides, equal radii, equal
    sides; n distinct vertices (closest pair >= half the reference side: holds
    whatever the allowance, the radius is never uncertain by more than 0.5%);
    interior angle with the absolute tolerance and *no* slack (it does not depend
    on the radius to first order).  Then the two formulas as mutual inverses:
      radius(angle(r)) / r - 1 <= 1e-9 + 1e-12/(delta sin(pi/n)), r drawn where
      this allowance is <= 1/3;  |angle(radius(a)) - a| <= 1e-12/sin(pi/n).
    C13-r6-3 (np.isclose(term, 0) with its absolute 1e-8 in
    regular_polygon_radius): radius 0 for every delta below ~1e-8, n copies of
    the origin.  Same family: any absolute threshold / clamp / early return near
    the Euclidean limit, on either formula or on the radius= path."""
    from geometry_tools.hyperbolic import Polygon
    from geometry_tools import hyperbolic as H
    mon = run.monitor("polygon")
    ecls = NEAR_EUCLID[idx % 4]
    n = (3, 4, 5, 6, 7, 8, 10, 12, 16, 24, 37, 60)[(idx // 4) % 12]
    dim = 2 if (idx // 3) % 2 == 0 else 2 + (idx // 6) % 4
    amax = r2.max_angle(n)
    sg = math.sin(math.pi / n)
    array = ecls.endswith("-array")
    shape = (int(rng.integers(2, 5)),) if array else ()
    by = "radius" if ecls.startswith("tiny-radius") else "angle"
    if by == "radius":
        par = np.exp(rng.uniform(np.log(1e-7), np.log(1e-2), size=shape))
        if array:
            par[-1] = rng.uniform(0.3, 3.0)            # an ordinary polygon in the same call
        R = par
        a = pl.angle(n, par)
        tolR = small_tol(R)
    else:
        delta = np.exp(rng.uniform(np.log(3e-13 * amax), np.log(1e-4), size=shape))
        par = amax - delta
        if array:
            par[-1] = rng.uniform(0.2, 0.8) * amax
        R = pl.radius(n, par)                         # of the float64 datum
        a = par
        tolR = small_tol(R) + 1e-12 / pl.deficit(n, par)
    case = {"n": n, "by": by, "dimension": dim, "shape": list(shape), "parameter": par,
            "class": ecls, "expected_radius": R, "deficit": pl.deficit(n, a)}
    run.current_case = case
    kw = {by: (float(par) if idx % 2 else np.array(par)) if not shape else np.array(par)}
    if dim != 2 or idx % 2:
        kw["dimension"] = dim
    poly = call_regular_polygon(Polygon, n, kw, idx)
    vk = np.asarray(poly.get_vertices().coords("klein"), dtype=float)
    if not mon.require(vk.shape == tuple(shape) + (n, dim), "polygon/vertices-shape",
                       "get_vertices().coords('klein') has shape %r, expected %r"
                       % (vk.shape, tuple(shape) + (n, dim)), case):
        return
    V = flat(rh.klein_to_proj(vk), 2)
    Rf = np.reshape(R, -1).astype(float)
    af = np.reshape(a, -1).astype(float)
    tf = np.reshape(tolR, -1).astype(float)
    small = Rf <= R_SMALL
    witness = lambda w: dict(case, row=w, vertices_klein=klein_of(V[w]))
    for name, (err, tol) in small_polygon_report(V, n, Rf, tf).items():
        judge_rows(mon, err, tol, small, "polygon/%s/by-%s/%s" % (name, by, ecls), SMALL_WHAT[name], witness)
    rep = polygon_report(V, n, Rf, af)
    judge_rows(mon, rep["angle"][0], rep["angle"][1], small, "polygon/angle/by-%s/%s" % (by, ecls),
               "interior angle differs", witness)
    if "planar" in rep:
        judge_rows(mon, rep["planar"][0], rep["planar"][1], small, "polygon/planar/by-%s/%s" % (by, ecls),
                   "vertices do not span a 2-plane", witness)
    side = pl.side(n, Rf)
    gap = np.array([min_pair_distance(klein_of(V[w]))[0] for w in range(V.shape[0])])
    judge_rows(mon, np.maximum(1.0 - gap / side, 0.0), np.full(Rf.shape, 0.5), small,
               "polygon/distinct-vertices/" + ecls,
               "two vertices of the n-gon are closer to each other than half its side "
               "(vertices repeated / collapsed)",
               lambda w: dict(witness(w), closest_distance=gap[w], side=side[w]))
    # the formulas as mutual inverses, where float64 determines the answer
    m = max(len(Rf), 3)
    rlo = math.sqrt(2 * 3e-12 / (math.sin(2 * math.pi / n) * sg))
    r = np.exp(rng.uniform(np.log(rlo), np.log(1e-2), size=m))
    case2 = {"n": n, "radius": r, "class": ecls}
    run.current_case = case2
    A = np.asarray(H.polygon_interior_angle(n, r.copy() if idx % 2 else float(r[0])), dtype=float)
    r_in = r if idx % 2 else r[:1]
    rb = np.asarray(H.regular_polygon_radius(n, A), dtype=float).reshape(-1)
    dl = pl.angle_deficit(n, r_in)
    judge_rows(mon, np.abs(rb / r_in - 1.0), 1e-9 + 1e-12 / (dl * sg), None,
               "polygon/inverse/radius(angle(r))/near-euclidean",
               "regular_polygon_radius(n, polygon_interior_angle(n, r)) / r != 1",
               lambda w: dict(case2, row=w, r=r_in[w], back=rb[w], deficit=dl[w]))
    dl2 = np.exp(rng.uniform(np.log(3e-12 / sg), np.log(1e-4), size=m))
    a2 = amax - dl2
    case3 = {"n": n, "angle": a2, "class": ecls}
    run.current_case = case3
    Rr = np.asarray(H.regular_polygon_radius(n, a2.copy()), dtype=float)
    ab = np.asarray(H.polygon_interior_angle(n, Rr), dtype=float)
    judge_rows(mon, np.abs(ab - a2), 1e-12 / sg, None, "polygon/inverse/angle(radius(a))/near-euclidean",
               "polygon_interior_angle(n, regular_polygon_radius(n, a)) != a (to 1e-12/sin(pi/n), "
               "deficits >= 3e-12/sin(pi/n))",
               lambda w: dict(case3, row=w, a=a2[w], back=ab[w], deficit=pl.deficit(n, a2)[w]))
    run.note_class("near-euclidean", n, by, dim, ecls)


# ---------------------------------------------------------------------------
# distances / parameters of every numpy-broadcast-compatible shape
# (seventh seeding round, C13-r7-1)

AXIS_NAMES = ("k", "m", "c")


def broadcast_patterns(rank):
    """every way an array can broadcast *to* a composite of this rank without
    enlarging it: the trailing j axes (j = 0..rank), each either full or 1.
    Patterns are tuples of booleans (True = full size), outermost axis first."""
    out = [()]
    for j in range(1, rank + 1):
        for bits in range(2 ** j):
            out.append(tuple(bool((bits >> (j - 1 - i)) & 1) for i in range(j)))
    return out


BROADCAST_CASES = [(r, pat) for r in (1, 2, 3) for pat in broadcast_patterns(r)]     # 3 + 7 + 15


def pattern_name(rank, pat):
    names = AXIS_NAMES[rank - len(pat):rank]
    return "(" + ",".join(nm if full else "1" for nm, full in zip(names, pat)) + \
        ("," if len(pat) == 1 else "") + ")"


def distinct_signed(rng, shape):
    """unequal values of both signs with one exact zero (when there is room), in
    random order: magnitudes 0.3 + 0.29 i, so that a re-tiled, transposed or
    reversed array lands measurably elsewhere."""
    size = int(np.prod(shape)) if shape else 1
    vals = (0.3 + 0.29 * np.arange(size)) * rng.choice([-1.0, 1.0], size=size)
    if size >= 3:
        vals[int(rng.integers(size))] = 0.0
    if size >= 2 and not (vals < 0).any():
        vals[int(np.argmax(np.abs(vals)))] *= -1.0
    return rng.permutation(vals).reshape(shape)


def wl_broadcast(run, rng, idx):
    """point_along(t) is vectorised: t may be anything numpy broadcasts to the
    composite shape of the tangent vectors.  Composites of rank 1..3 with unequal
    axis lengths; t of every compatible shape -- (), (m,), (1,), (k,1), (1,m),
    (k,m), (1,1), ... (25 patterns) -- with signed, zero and pairwise different
    values; each resulting point is compared with exp_p(T v) for T =
    np.broadcast_to(t, shape) (and by the postcondition, which broadcasts the
    same way).  The tangent vectors come from data or from unit_tangent_towards.
    C13-r7-1: np.resize(tanh t, shape) re-tiles the flat data; () / (m,) /
    (k,m) survive, (k,1) against (k,m) is scrambled."""
    from geometry_tools.hyperbolic import Point, TangentVector
    from geometry_tools import hyperbolic as H
    mon = run.monitor("geodesic")
    rank, pat = BROADCAST_CASES[idx % len(BROADCAST_CASES)]
    d = 2 + (idx // len(BROADCAST_CASES)) % 4
    via = ("data", "unit_tangent_towards")[(idx // 3) % 2]
    sizes = list(rng.permutation([2, 3, 4])[:rank])
    if rank == 3 and (idx // 7) % 3 == 0:
        sizes[1] = 1                                  # a composite with a unit axis of its own
    shape = tuple(int(x) for x in sizes)
    tshape = tuple(shape[rank - len(pat) + i] if full else 1 for i, full in enumerate(pat))
    name = pattern_name(rank, pat)
    t = distinct_signed(rng, tshape)
    kp = gen_points(rng, d, shape, "bulk")
    Pp = rh.klein_to_proj(kp)
    case = {"dimension": d, "shape": list(shape), "t_shape": list(tshape), "t_pattern": name,
            "tangent_from": via, "klein_p": kp, "t": t}
    run.current_case = case
    if via == "data":
        wp, vp = rand_tangent(rng, Pp, "tangent")
        case["v"] = vp
        tv = TangentVector(Point(Pp.copy()), vp.copy()).normalized()
    else:
        kq = gen_points(rng, d, shape, "bulk")
        case["klein_q"] = kq
        if np.any(r2.dist_klein_ref(kp, kq) < 1e-2):
            return mon.skip("pair closer than 1e-2")
        wp = r2.unit_tangent_ref(Pp, rh.klein_to_proj(kq))
        tv = Point(kp.copy(), model="klein").unit_tangent_towards(Point(kq.copy(), model="klein"))
    if not tshape:
        targ = (float(t), np.float64(t), np.array(t))[idx % 3]
    else:
        targ = np.array(t) if idx % 2 else np.asfortranarray(t)
    X = tv.point_along(targ)
    xk = np.asarray(X.coords("klein"), dtype=float)
    if not mon.require(xk.shape == kp.shape, "geodesic/point_along/shape/broadcast-distance",
                       "point_along(t) with t of shape %r (pattern %s) gives Klein shape %r for a "
                       "composite of shape %r" % (tshape, name, xk.shape, shape), case):
        return
    T = np.broadcast_to(t, shape)
    ct = r2.coord_tol(r2.omr_far(r2.one_minus_r_klein(kp), T))
    dd = r2.dist_klein_ref(xk, kp)
    witness = lambda w: dict(case, row=w, index=list(np.unravel_index(w, shape)),
                             t_broadcast=np.reshape(T, -1)[w], distance=np.reshape(dd, -1)[w])
    judge_rows(mon, np.abs(dd - np.abs(T)), ct, None, "geodesic/point_along/distance/broadcast-distance",
               "point_along(t): the point of unit [i] is not at distance |np.broadcast_to(t, shape)[i]| "
               "from its basepoint", witness)
    exp = rh.exp_map(Pp, wp, T)
    judge_rows(mon, r2.dist_klein_ref(xk, exp), ct, None, "geodesic/point_along/position/broadcast-distance",
               "point_along(t): the point of unit [i] is not exp_p(T[i] v) for T = np.broadcast_to(t, shape)",
               witness)
    # the conversion itself keeps the shape of its argument
    res = np.asarray(H.hyp_to_affine_dist(targ), dtype=float)
    mon.require(res.shape == tshape and np.allclose(res, np.tanh(t), rtol=0, atol=1e-12),
                "geodesic/hyp_to_affine_dist/shape-or-value/broadcast-distance",
                "hyp_to_affine_dist(t) for t of shape %r has shape %r / is not tanh(t) elementwise"
                % (tshape, res.shape), case)
    run.note_class("broadcast", rank, name, d, via, 1 in shape)


PARAM_SHAPES = ("(k,)", "(k,1)", "(1,m)", "(k,m)", "(1,1)", "(1,)")


def wl_broadcast_polygon(run, rng, idx):
    """the vectorised polygon entry points with parameter arrays of rank 1..2
    including unit axes, unequal values: regular_polygon(n, radius=/angle=<array>)
    -> vertex data of shape param.shape + (n, d+1), polygon [i] has the radius /
    angle param[i] (postcondition + here); regular_polygon_radius /
    polygon_interior_angle with n and the parameter broadcasting against each
    other ((k,1) against (m,)): value [i,j] belongs to (n[i], param[j])."""
    from geometry_tools.hyperbolic import Polygon
    from geometry_tools import hyperbolic as H
    mon = run.monitor("polygon")
    pname = PARAM_SHAPES[idx % 6]
    k, m = (int(x) for x in rng.permutation([2, 3, 4])[:2])
    pshape = {"(k,)": (k,), "(k,1)": (k, 1), "(1,m)": (1, m), "(k,m)": (k, m), "(1,1)": (1, 1),
              "(1,)": (1,)}[pname]
    n = 3 + (idx // 6) % 9
    by = ("radius", "angle")[(idx // 2) % 2]
    dim = 2 + (idx // 4) % 3
    size = int(np.prod(pshape))
    amax = r2.max_angle(n)
    if by == "radius":
        par = rng.permutation(0.4 + 0.45 * np.arange(size)).reshape(pshape)
        R, a = par, r2.polygon_angle_ref(n, par)
    else:
        par = (rng.permutation(0.15 + 0.7 * (np.arange(size) + 0.5) / size) * amax).reshape(pshape)
        R, a = r2.polygon_radius_ref(n, par), par
    case = {"n": n, "by": by, "dimension": dim, "parameter_shape": list(pshape),
            "parameter_pattern": pname, "parameter": par}
    run.current_case = case
    poly = call_regular_polygon(Polygon, n, {by: np.array(par), "dimension": dim}, idx)
    vk = np.asarray(poly.get_vertices().coords("klein"), dtype=float)
    if mon.require(vk.shape == pshape + (n, dim), "polygon/vertices-shape/parameter-array",
                   "regular_polygon(%d, %s=<array of shape %r>): get_vertices().coords('klein') has "
                   "shape %r, expected %r" % (n, by, pshape, vk.shape, pshape + (n, dim)), case):
        V = flat(rh.klein_to_proj(vk), 2)
        Rf = np.reshape(R, -1).astype(float)
        af = np.reshape(a, -1).astype(float)
        slack = 1.0 / (1.0 - af / amax) if by == "angle" else np.ones_like(af)
        what = {"radius": "polygon [i] does not have the circumradius belonging to parameter [i]",
                "sides": "polygon [i] does not have the side length belonging to parameter [i]",
                "angle": "polygon [i] does not have the interior angle belonging to parameter [i]",
                "planar": "vertices do not span a 2-plane"}
        for name, (err, tol) in polygon_report(V, n, Rf, af).items():
            judge_rows(mon, err, tol * slack, None, "polygon/%s/by-%s/parameter-array" % (name, by),
                       what[name], lambda w: dict(case, row=w, index=list(np.unravel_index(w, pshape)),
                                                  expected_radius=Rf[w], expected_angle=af[w],
                                                  vertices_klein=klein_of(V[w])))
    # formulas: n of shape (k,1) against a parameter of shape (m,)
    nn = (3 + rng.permutation(8)[:k]).reshape(k, 1)
    frac = rng.permutation(0.2 + 0.6 * (np.arange(m) + 0.5) / m)
    a_row = frac * ((nn.min() - 2) * math.pi / nn.min())        # (m,): admissible for every n
    case2 = {"n": nn, "angle": a_row, "class": "n (k,1) against angle (m,)"}
    run.current_case = case2
    Rkm = np.asarray(H.regular_polygon_radius(nn, a_row.copy()), dtype=float)
    if mon.require(Rkm.shape == (k, m), "polygon/formulas-shape/broadcast",
                   "regular_polygon_radius(n (k,1), a (m,)) has shape %r, expected %r"
                   % (Rkm.shape, (k, m)), case2):
        ref = r2.polygon_radius_ref(np.broadcast_to(nn, (k, m)), np.broadcast_to(a_row, (k, m)))
        judge_rows(mon, np.abs(Rkm - ref), 1e-9 * (1 + ref), None, "polygon/formulas/radius/broadcast",
                   "regular_polygon_radius(n, a)[i,j] is not the radius for (n[i], a[j])",
                   lambda w: dict(case2, row=w))
        Akm = np.asarray(H.polygon_interior_angle(nn, Rkm[0].copy()), dtype=float)
        if mon.require(Akm.shape == (k, m), "polygon/formulas-shape/broadcast",
                       "polygon_interior_angle(n (k,1), R (m,)) has shape %r" % (Akm.shape,), case2):
            ref2 = r2.polygon_angle_ref(np.broadcast_to(nn, (k, m)), np.broadcast_to(Rkm[0], (k, m)))
            judge_rows(mon, np.abs(Akm - ref2), 1e-9 / np.sin(math.pi / np.broadcast_to(nn, (k, m))),
                       None, "polygon/formulas/angle/broadcast",
                       "polygon_interior_angle(n, R)[i,j] is not the angle for (n[i], R[j])",
                       lambda w: dict(case2, row=w))
    run.note_class("broadcast-polygon", pname, by, dim)


T_CLASSES = ("zero", "tiny", "moderate", "large")


def rand_t(rng, shape, tcls):
    if tcls == "zero":
        return np.zeros(shape)
    lo, hi = {"tiny": (1e-6, 1e-2), "moderate": (0.1, 3.0), "large": (3.0, 6.0)}[tcls]
    mag = np.exp(rng.uniform(np.log(lo), np.log(hi), size=shape))
    return mag * rng.choice([-1.0, 1.0], size=shape)


def wl_point_along(run, rng, idx):
    from geometry_tools.hyperbolic import Point, TangentVector
    mon = run.monitor("geodesic")
    d = 2 + idx % 4
    kind = SHAPE_KINDS[(idx // 4) % 4]
    tcls = T_CLASSES[(idx // 16) % 4]
    cls = CLASSES[(idx // 3) % 3]
    scalar_t = bool((idx // 2) % 2)
    if tcls == "large" and cls == "mid":
        cls = "bulk"        # conditioning e^{2|t|}/(1-r): keep 1 - r_far >~ 1e-7
    shape = rand_shape(rng, kind)
    kp = gen_points(rng, d, shape, cls)
    Pp = rh.klein_to_proj(kp) * np.exp(rng.uniform(-1, 1, size=tuple(shape) + (1,)))
    wp, vp = rand_tangent(rng, Pp, "tangent")
    t = rand_t(rng, (), tcls) if scalar_t else rand_t(rng, tuple(shape), tcls)
    case = {"dimension": d, "shape": list(shape), "class": cls, "t_class": tcls,
            "scalar_t": scalar_t, "p": Pp, "v": vp, "t": t}
    run.current_case = case
    tv = TangentVector(Point(Pp.copy()), vp.copy()).normalized()
    targ = float(t) if scalar_t and idx % 3 == 0 else (np.array(t) if idx % 3 else t)
    X = tv.point_along(targ)
    xk = np.asarray(X.coords("klein"), dtype=float)
    if not mon.require(xk.shape == kp.shape, "geodesic/point_along/shape",
                       "point_along gives Klein shape %r for a composite of shape %r" % (xk.shape, shape),
                       case):
        return
    T = np.broadcast_to(t, tuple(shape))
    exp = rh.exp_map(Pp, wp, T)
    omr = r2.omr_far(r2.one_minus_r_klein(kp), T)
    ct = r2.coord_tol(omr)
    dd = r2.dist_klein_ref(xk, kp)
    judge_rows(mon, np.abs(dd - np.abs(T)), ct, None, "geodesic/point_along/distance/" + tcls,
               "point_along(t) is not at reference distance |t| from the basepoint",
               lambda w: dict(case, row=w, t_row=np.reshape(T, -1)[w], distance=np.reshape(dd, -1)[w]))
    # on the geodesic and on the correct side: Klein geodesics are chords;
    # compare with the reference points at +-|t| on the same chord
    other = rh.exp_map(Pp, wp, -T)
    e_same = r2.dist_klein_ref(xk, exp)
    e_other = r2.dist_klein_ref(xk, other)
    judge_rows(mon, e_same, ct, None, "geodesic/point_along/position/" + tcls,
               "point_along(t) is not the point at signed arc length t on the geodesic",
               lambda w: dict(case, row=w, t_row=np.reshape(T, -1)[w], klein=flat(xk)[w],
                              expected=flat(exp)[w],
                              on_the_other_side=bool(np.reshape(e_other, -1)[w] < np.reshape(e_same, -1)[w])))
    run.note_class("point_along", d, kind, cls, tcls, scalar_t)
    if idx < 2:
        run.sample({"check": "point_along", "dimension": d, "p": Pp, "v": vp, "t": t})


PAIR = ("generic", "near", "mid")


def wl_towards(run, rng, idx):
    mon = run.monitor("geodesic")
    d = 2 + idx % 4
    kind = SHAPE_KINDS[(idx // 4) % 4]
    pc = PAIR[(idx // 16) % 3]
    shape = rand_shape(rng, kind)
    kp = gen_points(rng, d, shape, "mid" if pc == "mid" else "bulk")
    if pc == "near":
        Pp0 = rh.klein_to_proj(kp)
        w0, _ = rand_tangent(rng, Pp0)
        kq = rh.exp_map(Pp0, w0, np.exp(rng.uniform(np.log(2e-3), np.log(1e-1), size=tuple(shape))))
    else:
        kq = gen_points(rng, d, shape, "bulk")
    case = {"dimension": d, "shape": list(shape), "pair_class": pc, "klein_p": kp, "klein_q": kq}
    run.current_case = case
    P, mp = lib_point(kp, rng)
    Q, mq = lib_point(kq, rng)
    dref = r2.dist_klein_ref(kp, kq)
    if np.any(dref < 1e-3):
        run.monitor("geodesic").skip("pair closer than 1e-3")
        return
    u = P.unit_tangent_towards(Q)
    arr = u.point_along(dref)
    ak = np.asarray(arr.coords("klein"), dtype=float)
    omr = r2.omr_far(r2.one_minus_r_klein(kp), dref)
    judge_rows(mon, r2.dist_klein_ref(ak, kq), r2.coord_tol(omr), None, "geodesic/towards/arrival/" + pc,
               "following p.unit_tangent_towards(q) for d(p,q) does not arrive at q",
               lambda w: dict(case, row=w, arrival=flat(ak)[w], q=flat(kq)[w], d=np.reshape(dref, -1)[w]))
    # half way: the midpoint is equidistant
    mid = np.asarray(u.point_along(dref / 2).coords("klein"), dtype=float)
    e = np.abs(r2.dist_klein_ref(mid, kq) - dref / 2) + np.abs(r2.dist_klein_ref(mid, kp) - dref / 2)
    judge_rows(mon, e, 2 * r2.coord_tol(omr), None, "geodesic/towards/midpoint/" + pc,
               "the point half way towards q is not at distance d/2 from both p and q",
               lambda w: dict(case, row=w, midpoint=flat(mid)[w]))
    # backwards: away from q
    backk = np.asarray(u.point_along(-dref).coords("klein"), dtype=float)
    omr_b = omr
    ok = np.reshape(omr_b, -1) >= 1e-9
    judge_rows(mon, np.abs(r2.dist_klein_ref(backk, kq) - 2 * dref), 2 * r2.coord_tol(np.maximum(omr_b, 1e-9)),
               ok, "geodesic/towards/backwards/" + pc,
               "the point at -d(p,q) is not at distance 2 d(p,q) from q",
               lambda w: dict(case, row=w, point=flat(backk)[w]))
    run.note_class("towards", d, kind, pc, mp, mq)


def wl_angle(run, rng, idx):
    from geometry_tools.hyperbolic import Point, TangentVector
    mon = run.monitor("law-of-cosines")
    d = 2 + idx % 4
    kind = SHAPE_KINDS[(idx // 4) % 4]
    cls = ("bulk", "mid", "small-triangle")[(idx // 16) % 3]
    shape = rand_shape(rng, kind)
    if cls == "small-triangle":
        kp = gen_points(rng, d, shape, "bulk")
        Pp0 = rh.klein_to_proj(kp)
        kq = rh.exp_map(Pp0, rand_tangent(rng, Pp0)[0], rng.uniform(0.05, 0.5, size=tuple(shape)))
        kr = rh.exp_map(Pp0, rand_tangent(rng, Pp0)[0], rng.uniform(0.05, 0.5, size=tuple(shape)))
    else:
        kp = gen_points(rng, d, shape, cls)
        kq = gen_points(rng, d, shape, "bulk")
        kr = gen_points(rng, d, shape, "bulk")
    case = {"dimension": d, "shape": list(shape), "class": cls, "klein_p": kp, "klein_q": kq,
            "klein_r": kr}
    run.current_case = case
    P, _ = lib_point(kp, rng)
    Q, _ = lib_point(kq, rng)
    R, _ = lib_point(kr, rng)
    a = r2.dist_klein_ref(kq, kr)
    b = r2.dist_klein_ref(kp, kq)
    c = r2.dist_klein_ref(kp, kr)
    cosA = r2.law_of_cosines_cosA(a, b, c)
    Pp = rh.klein_to_proj(kp)
    Aref = r2.tangent_angle_ref(Pp, r2.unit_tangent_ref(Pp, rh.klein_to_proj(kq)),
                                r2.unit_tangent_ref(Pp, rh.klein_to_proj(kr)))
    ok = (np.sin(Aref) >= 1e-3) & (b >= 0.05) & (c >= 0.05)
    A = np.asarray(P.unit_tangent_towards(Q).angle(P.unit_tangent_towards(R)), dtype=float)
    if not mon.require(A.shape == tuple(shape), "law-of-cosines/shape",
                       "angle has shape %r for composites of shape %r" % (A.shape, shape), case):
        return
    if (~ok).any():
        mon.skip("degenerate triangle (sin A < 1e-3 or a side < 0.05)")
    omr = np.minimum(np.minimum(r2.one_minus_r_klein(kp), r2.one_minus_r_klein(kq)),
                     r2.one_minus_r_klein(kr))
    tol = 1e-7 + 1e-11 / (omr * np.minimum(np.minimum(b, c), 1.0))
    judge_rows(mon, np.abs(np.cos(A) - cosA), tol, ok, "law-of-cosines/cos-angle/" + cls,
               "cos(angle at p) from the library's tangent vectors differs from the hyperbolic law "
               "of cosines with reference side lengths",
               lambda w: dict(case, row=w, angle=np.reshape(A, -1)[w], cos_expected=np.reshape(cosA, -1)[w],
                              sides=[np.reshape(a, -1)[w], np.reshape(b, -1)[w], np.reshape(c, -1)[w]]))
    # angle is symmetric
    A2 = np.asarray(P.unit_tangent_towards(R).angle(P.unit_tangent_towards(Q)), dtype=float)
    judge_rows(mon, np.abs(A - A2), tol / np.where(ok, np.sin(Aref), 1.0), ok,
               "law-of-cosines/angle-symmetric/" + cls, "angle(v,w) != angle(w,v)",
               lambda w: dict(case, row=w))
    # arbitrary (non-unit, non-tangent input) vectors at p: judged by the
    # postcondition on angle()
    Pq = rh.klein_to_proj(kp)
    _, v1 = rand_tangent(rng, Pq, "non-tangent")
    _, v2 = rand_tangent(rng, Pq, "tangent")
    TangentVector(Point(Pq.copy()), v1).angle(TangentVector(Point(Pq.copy()), v2))
    # diagnostic class: exactly parallel / antiparallel
    if idx % 8 == 0:
        t1 = TangentVector(Point(Pq.copy()), v2.copy())
        t1.angle(TangentVector(Point(Pq.copy()), 2.0 * v2))
        t1.angle(TangentVector(Point(Pq.copy()), -v2))
    run.note_class("angle", d, kind, cls)
    if idx < 2:
        run.sample({"check": "law-of-cosines", "dimension": d, "klein_p": kp, "klein_q": kq,
                    "klein_r": kr})


FRACS = (0.05, 0.95, None)


def wl_polygon(run, rng, idx):
    from geometry_tools.hyperbolic import Polygon
    mon = run.monitor("polygon")
    n = 3 + idx % 22
    by = ("angle", "radius")[(idx // 22) % 2]
    kind = SHAPE_KINDS[(idx // 2) % 3]
    dim = 2 if (idx // 5) % 2 == 0 else 2 + (idx // 10) % 4
    shape = rand_shape(rng, kind)
    fr = FRACS[(idx // 3) % 3]
    amax = r2.max_angle(n)
    if by == "angle":
        frac = np.full(shape, fr) if fr is not None else rng.uniform(0.02, 0.98, size=shape)
        if fr is not None and shape:
            frac = np.where(rng.random(size=shape) < 0.5, frac, rng.uniform(0.02, 0.98, size=shape))
        par = frac * amax
        # keep the circumradius <= 6.5
        par = np.maximum(par, 2 * np.arctan(1.0 / (np.tan(math.pi / n) * np.cosh(6.5))) * 1.01)
        R = r2.polygon_radius_ref(n, par)
        a = par
    else:
        par = np.exp(rng.uniform(np.log(0.05), np.log(6.0), size=shape))
        R = par
        a = r2.polygon_angle_ref(n, par)
    pack = ("float", "ndarray")[(idx // 7) % 2] if not shape else "ndarray"
    arg = float(par) if pack == "float" else np.array(par)
    case = {"n": n, "by": by, "dimension": dim, "shape": list(shape), "parameter": par,
            "packaging": pack}
    run.current_case = case
    kw = {by: arg}
    if dim != 2 or idx % 2:
        kw["dimension"] = dim
    try:
        poly = call_regular_polygon(Polygon, n, kw, idx)
    except Exception as e:
        if shape:
            mon.fail("polygon/exception:%s/composite-parameter" % type(e).__name__,
                     "Polygon.regular_polygon(%d, %s=<array of shape %r>) raised %s: %s"
                     % (n, by, tuple(shape), type(e).__name__, str(e)[:160]), case,
                     tb=traceback.format_exc())
            return
        raise
    verts = poly.get_vertices()
    vk = np.asarray(verts.coords("klein"), dtype=float)
    if not mon.require(vk.shape == tuple(shape) + (n, dim), "polygon/vertices-shape",
                       "get_vertices().coords('klein') has shape %r, expected %r"
                       % (vk.shape, tuple(shape) + (n, dim)), case):
        return
    V = flat(rh.klein_to_proj(vk), 2)
    Rf = np.reshape(R, -1).astype(float)
    af = np.reshape(a, -1).astype(float)
    slack = 1.0 / (1.0 - af / amax) if by == "angle" else np.ones_like(af)
    rep = polygon_report(V, n, Rf, af)
    what = {"radius": "vertices are not equidistant from the origin at the expected radius",
            "sides": "sides are not of the regular n-gon's length",
            "angle": "interior angle differs", "planar": "vertices do not span a 2-plane"}
    for name, (err, tol) in rep.items():
        judge_rows(mon, err, tol * slack, None, "polygon/%s/by-%s" % (name, by), what[name],
                   lambda w: dict(case, row=w, expected_radius=Rf[w], expected_angle=af[w],
                                  vertices_klein=klein_of(V[w])))
    # equal sides / equal radii among themselves (no formula involved)
    d0 = r2.dist_klein_ref(klein_of(V), np.zeros_like(klein_of(V)))
    ds = r2.dist_klein_ref(klein_of(V), np.roll(klein_of(V), -1, axis=-2))
    ct = r2.coord_tol(1.0 - np.tanh(Rf))
    judge_rows(mon, np.ptp(d0, axis=-1), 2 * ct * (1 + Rf), None, "polygon/equidistant",
               "vertices are not at equal distance from the origin", lambda w: dict(case, row=w))
    judge_rows(mon, np.ptp(ds, axis=-1), 4 * ct * (1 + Rf), None, "polygon/equal-sides",
               "sides are not of equal length", lambda w: dict(case, row=w))
    run.note_class("polygon", n, by, dim, kind, "5%" if fr == 0.05 else "95%" if fr == 0.95 else "random")
    if idx < 3:
        run.sample({"check": "polygon", "n": n, by: par, "dimension": dim})


# ---------------------------------------------------------------------------
# every n, not a handful (third seeding round, C13-r3-3)

SWEEP_BLOCK = 4          # consecutive n per case
SWEEP_DENSE = 300        # cases 0..299: n = 3..1202, every n; quick runs the first 100 (n <= 402)
SWEEP_BOTH = 128         # quick: both paths for n <= 128, one (drawn per n) above


def min_pair_distance(vk, chunk=256):
    """smallest hyperbolic distance between two *different* vertices of one
    polygon (Klein (n,d)): the closest pair in Klein coordinates is located by
    brute force in chunks of rows, its distance taken with the reference formula
    (vertices of a regular polygon are equidistant from the origin, where the
    Klein chord is monotone in the distance)."""
    n = vk.shape[0]
    best, arg = np.inf, (0, 1)
    for a in range(0, n, chunk):
        blk = vk[a:a + chunk]
        e = np.sum((blk[:, None, :] - vk[None, :, :]) ** 2, axis=-1)
        e[np.arange(blk.shape[0]), a + np.arange(blk.shape[0])] = np.inf
        e = np.where(np.isfinite(e), e, np.inf)
        j = int(np.argmin(e))
        if e.flat[j] < best:
            best, arg = float(e.flat[j]), (a + j // n, j % n)
    return float(r2.dist_klein_ref(vk[arg[0]], vk[arg[1]])), arg


def wl_polygon_sweep(run, rng, idx):
    """'for all n >= 3': every n from 3 to 402 in the quick tier (4 consecutive
    n per case), to 1202 in the thorough tier plus n drawn from 1203..3000, on the
    radius= and on the angle= path.  For each polygon: exactly n vertices, no
    vertex twice (the smallest distance between two vertices is the side), equal
    sides, equal radii; expected radius, side length, interior angle and
    planarity through polygon_report (and, for the call itself, through the
    regular_polygon postcondition).
    C13-r3-3: rotation angles from np.arange(0, 2 pi, 2 pi/n) have n+1 entries
    for a sparse set of n (61, 122, 197, 244, 343, ...), none of them below 25:
    the first vertex comes twice, one side has length 0.  The same family:
    anything in the construction that depends on n through floating point
    (ceil/floor/round of 2 pi / step, accumulated angle n * step, integer
    overflow or a lookup table for small n)."""
    from geometry_tools.hyperbolic import Polygon
    mon = run.monitor("polygon")
    if idx < SWEEP_DENSE:
        ns = [3 + SWEEP_BLOCK * idx + j for j in range(SWEEP_BLOCK)]
    else:
        ns = [int(rng.integers(3 + SWEEP_BLOCK * SWEEP_DENSE, 3001))]
    for n in ns:
        amax = r2.max_angle(n)
        dim = 2 if n % 3 else 2 + (n // 3) % 4
        if n <= SWEEP_BOTH or run.tier != "quick":
            paths = ("radius", "angle")
        else:
            paths = (("radius", "angle")[int(rng.integers(2))],)
        for by in paths:
            if by == "angle":
                # interior angle whose circumradius is <= 6.5 (cot(pi/n) grows like n)
                lo = 2 * math.atan(1.0 / (math.tan(math.pi / n) * math.cosh(6.5))) * 1.01
                par = float(max(rng.uniform(0.02, 0.98) * amax, lo))
                R = float(r2.polygon_radius_ref(n, par))
                a = par
            else:
                par = float(np.exp(rng.uniform(np.log(0.05), np.log(6.0))))
                R = par
                a = float(r2.polygon_angle_ref(n, par))
            case = {"n": n, "by": by, "dimension": dim, "parameter": par, "class": "n-sweep"}
            run.current_case = case
            kw = {by: par if (n + idx) % 2 else np.float64(par)}
            if dim != 2 or n % 2:
                kw["dimension"] = dim
            poly = call_regular_polygon(Polygon, n, kw, idx)
            vk = np.asarray(poly.get_vertices().coords("klein"), dtype=float)
            if not mon.require(vk.shape == (n, dim), "polygon/vertex-count/n-sweep",
                               "regular_polygon(%d, %s=..., dimension=%d).get_vertices() has Klein "
                               "coordinates of shape %r, expected %r" % (n, by, dim, vk.shape, (n, dim)),
                               case):
                continue
            V = rh.klein_to_proj(vk)[None]
            Rf = np.array([R])
            af = np.array([a])
            slack = 1.0 / (1.0 - a / amax) if by == "angle" else 1.0
            rep = polygon_report(V, n, Rf, af)
            what = {"radius": "vertices are not equidistant from the origin at the expected radius",
                    "sides": "sides are not of the regular n-gon's length",
                    "angle": "interior angle differs", "planar": "vertices do not span a 2-plane"}
            witness = lambda w: dict(case, expected_radius=R, expected_angle=a,
                                     vertices_klein=vk if n <= 64 else vk[:64])
            for name, (err, tol) in rep.items():
                judge_rows(mon, err, tol * slack, None, "polygon/%s/by-%s/n-sweep" % (name, by),
                           what[name], witness)
            ct = float(r2.coord_tol(1.0 - math.tanh(R)))
            side = float(r2.polygon_side_ref(n, R))
            ds = r2.dist_klein_ref(vk, np.roll(vk, -1, axis=0))
            d0 = r2.dist_klein_ref(vk, np.zeros_like(vk))
            judge_rows(mon, [np.ptp(d0)], 2 * ct * (1 + R), None, "polygon/equidistant/n-sweep",
                       "vertices are not at equal distance from the origin", witness)
            judge_rows(mon, [np.ptp(ds)], 4 * ct * (1 + R) * slack, None, "polygon/equal-sides/n-sweep",
                       "sides are not of equal length", witness)
            dmin, pair = min_pair_distance(vk)
            judge_rows(mon, [max(side - dmin, 0.0)], 2 * ct * (1 + side) * slack, None,
                       "polygon/distinct-vertices/n-sweep",
                       "two vertices of the n-gon are closer to each other than its side "
                       "(a vertex is repeated)",
                       lambda w: dict(witness(w), closest_pair=list(pair), their_distance=dmin,
                                      side=side))
            run.note_class("polygon-sweep", n, by)


def wl_formulas(run, rng, idx):
    from geometry_tools import hyperbolic as H
    mon = run.monitor("polygon")
    kind = SHAPE_KINDS[idx % 3]
    shape = rand_shape(rng, kind)
    if idx % 2:
        n = 3 + idx % 22
    else:
        n = rng.integers(3, 25, size=shape) if shape else int(rng.integers(3, 25))
    amax = (np.asarray(n, dtype=float) - 2) * math.pi / np.asarray(n, dtype=float)
    frac = rng.choice([0.05, 0.95, 0.5, 0.02, 0.98], size=shape) if idx % 3 == 0 else \
        rng.uniform(0.02, 0.98, size=shape)
    a = frac * amax
    case = {"n": n, "angle": a, "shape": list(shape)}
    run.current_case = case
    a_arg = float(a) if not shape and idx % 4 < 2 else np.array(a)
    R = np.asarray(H.regular_polygon_radius(n, a_arg), dtype=float)
    back = np.asarray(H.polygon_interior_angle(n, R if shape or idx % 4 >= 2 else float(R)), dtype=float)
    if not mon.require(R.shape == np.shape(a) and back.shape == np.shape(a), "polygon/formulas-shape",
                       "formula results have shapes %r, %r for an argument of shape %r"
                       % (R.shape, back.shape, np.shape(a)), case):
        return
    judge_rows(mon, np.abs(back - a), 1e-9 / (1.0 - np.asarray(frac, dtype=float)), None,
               "polygon/inverse/angle(radius(a))",
               "polygon_interior_angle(n, regular_polygon_radius(n, a)) != a",
               lambda w: dict(case, row=w, back=np.reshape(back, -1)[w]))
    r = np.exp(rng.uniform(np.log(0.01), np.log(6.0), size=shape))
    case2 = {"n": n, "radius": r, "shape": list(shape)}
    run.current_case = case2
    A = np.asarray(H.polygon_interior_angle(n, float(r) if not shape and idx % 4 < 2 else np.array(r)),
                   dtype=float)
    rb = np.asarray(H.regular_polygon_radius(n, A), dtype=float)
    sg = np.sin(math.pi / np.asarray(n, dtype=float))
    tol = 1e-9 * (1 + r) + 1e-11 / (r * sg * sg)
    judge_rows(mon, np.abs(rb - r), tol, None, "polygon/inverse/radius(angle(r))",
               "regular_polygon_radius(n, polygon_interior_angle(n, r)) != r",
               lambda w: dict(case2, row=w, back=np.reshape(rb, -1)[w]))
    run.note_class("formulas", kind, "scalar-n" if idx % 2 else "array-n")


def wl_point_along_histories(run, rng, idx):
    """two classes found by the second seeding round, both judged by the
    point_along postcondition and re-checked here against the reference:
    (a) integer-typed distances (np.arange, np.int64, Python int): the point is
        at distance |t|, not at the basepoint (C13-r2-1: tanh(t) truncated in an
        integer buffer);
    (b) query, transform, query again: u.point_along(t0); v = g @ u;
        v.point_along(t) walks along v, not along u (C13-r2-2: a frame cached on u
        and carried onto g @ u by apply's shallow copy)."""
    from geometry_tools.hyperbolic import Point, TangentVector, Isometry
    mon = run.monitor("geodesic")
    d = 2 + idx % 4
    shape = [(), (3,), (2, 2)][(idx // 4) % 3]
    kp = gen_points(rng, d, shape, "bulk")
    Pp = rh.klein_to_proj(kp)
    wp, vp = rand_tangent(rng, Pp, "tangent")
    case = {"dimension": d, "shape": list(shape), "p": Pp, "v": vp}
    run.current_case = case
    u = TangentVector(Point(Pp.copy()), vp.copy()).normalized()
    if idx % 2 == 0:
        which = (idx // 2) % 3
        tf = rng.integers(-3, 4, size=shape).astype(float) if shape else float(rng.integers(-3, 4))
        targ = [np.asarray(tf).astype(np.int64), np.asarray(tf).astype(np.int32),
                (int(tf) if not shape else np.asarray(tf).astype(np.int64))][which]
        case.update(t=tf, t_type=str(getattr(targ, "dtype", type(targ).__name__)))
        X = u.point_along(targ)
        xk = np.asarray(X.coords("klein"), dtype=float)
        T = np.broadcast_to(np.asarray(tf, dtype=float), tuple(shape))
        exp = rh.exp_map(Pp, wp, T)
        ct = r2.coord_tol(r2.omr_far(r2.one_minus_r_klein(kp), T))
        judge_rows(mon, r2.dist_klein_ref(xk, exp), ct, None, "geodesic/point_along/integer-distance",
                   "point_along(<integer-typed t>) is not the point at arc length t",
                   lambda w: dict(case, row=w))
        run.note_class("point_along-int", d, shape, which)
    else:
        t0 = float(rng.uniform(-2, 2))
        u.point_along(t0)                           # first query on u
        A = rh.rand_isometry(rng, d, tmax=1.0)
        g = Isometry(A, column_vectors=True)
        v = g @ u
        t = float(rng.uniform(0.3, 2.0)) * float(rng.choice([-1, 1]))
        case.update(t0=t0, t=t, isometry=A)
        X = v.point_along(t)                        # second query, on the image
        xk = np.asarray(X.coords("klein"), dtype=float)
        Pi = Pp @ A.T
        wi = wp @ A.T
        T = np.full(tuple(shape), t)
        exp = rh.exp_map(Pi, wi, T)
        ki = rh.proj_to_klein(Pi)
        ct = r2.coord_tol(r2.omr_far(r2.one_minus_r_klein(ki), T)) * 10
        judge_rows(mon, r2.dist_klein_ref(xk, exp), ct, None, "geodesic/point_along/after-transform",
                   "(g @ u).point_along(t), asked after u.point_along(t0), is not the point at arc "
                   "length t along the transformed vector",
                   lambda w: dict(case, row=w))
        run.note_class("point_along-after-transform", d, shape)


_CALL_STYLES = {}


def call_regular_polygon(Polygon, n, kw, idx):
    """regular_polygon(n, radius=None, angle=None, dimension=2): the same request
    through keywords or through the documented positional order (the package's
    usage notebook writes regular_polygon(5, 1.4)).  Seeded change C13-r5-3: the
    order of `radius` and `angle` swapped in the signature."""
    style = ("keywords", "positional", "keywords", "positional-all")[idx % 4]
    _CALL_STYLES[style] = _CALL_STYLES.get(style, 0) + 1
    if style == "keywords" or set(kw) - {"radius", "angle", "dimension"}:
        return Polygon.regular_polygon(n, **kw)
    if style == "positional":
        if "radius" in kw:
            rest = {k: v for k, v in kw.items() if k != "radius"}
            return Polygon.regular_polygon(n, kw["radius"], **rest)
        rest = {k: v for k, v in kw.items() if k != "angle"}
        return Polygon.regular_polygon(n, None, kw["angle"], **rest)
    return Polygon.regular_polygon(n, kw.get("radius"), kw.get("angle"), kw.get("dimension", 2))


WORKLOADS = [
    Workload("point_along-histories", wl_point_along_histories, quick=72, thorough=2880),
    Workload("origin_to", wl_origin, quick=144, thorough=17280),
    Workload("tangent", wl_tangent, quick=144, thorough=17280),
    Workload("tangent-scales", wl_tangent_scales, quick=96, thorough=11520),
    Workload("towards-close", wl_towards_close, quick=64, thorough=5760),
    Workload("point_along", wl_point_along, quick=192, thorough=23040),
    Workload("broadcast", wl_broadcast, quick=100, thorough=8000),
    Workload("broadcast-polygon", wl_broadcast_polygon, quick=48, thorough=2880),
    Workload("towards", wl_towards, quick=96, thorough=11520),
    Workload("angle", wl_angle, quick=96, thorough=11520),
    Workload("polygon", wl_polygon, quick=132, thorough=9504),
    Workload("polygon-sweep", wl_polygon_sweep, quick=100, thorough=348),
    Workload("long-range", wl_long_range, quick=96, thorough=11520),
    Workload("polygon-extreme", wl_polygon_extreme, quick=96, thorough=5760),
    Workload("near-euclidean", wl_near_euclidean, quick=96, thorough=5760),
    Workload("formulas", wl_formulas, quick=66, thorough=4752),
]
