"""C01 -- hyperbolic model coordinates are mutually consistent and carry one metric.

Monitors
  chart-maps     (P) on hyperbolic.kleinian_to_poincare / poincare_to_kleinian /
                 poincare_to_halfspace / halfspace_to_poincare / hyperboloid_coords
                 and projective.affine_coords / projective_coords: every result is
                 the chart map of its *argument* (Klein<->Poincare, affine chart:
                 textbook formulas; hyperboloid: <h,h> = -1 and h || x; half-space:
                 convention-free -- height > 0 inside, ~0 on the boundary, and the
                 half-space metric of the images equals the Poincare metric of the
                 arguments, also across calls).  Fires on every internal call.
  distance       (P) on Point.distance: for operands the reference classifies as
                 interior the result is finite, >= 0 and equals the reference
                 distance (extended precision, Poincare arcsinh form).
  round-trip     (W) all 25 ordered model pairs: Point(X.coords(m), model=m)
                 .coords(m') == X.coords(m'); X.coords(m) against the truth the
                 generator started from.
  closed-form    (W) the five models' closed-form metrics evaluated on the
                 coordinates the library returned == reference distance ==
                 library distance.
  metric-laws    (W) d(x,x) = 0 (never NaN), symmetry, triangle inequality with
                 slack, finite and non-negative; identical / rescaled / nearly
                 coincident / collinear classes.
  construction   (W) the same point through Point(array|list|tuple|Point|list of
                 Points), get_point, Model enum / alias strings, integer-valued
                 coordinates: same coordinates, same distances.
"""
import math
import traceback
import numpy as np

from ..run import Workload
from .. import attach
from ..ref import hyp as rh
from ..ref import hyp2 as r2

ID = "C01"
MODELS = ("projective", "hyperboloid", "klein", "poincare", "halfspace")
RULE = ("cases = (dimension 1..6, composite shape in {(), (k,), (a,b), (a,1,c)}, "
        "radius class in {bulk r<=0.95, mid 1-r in [1e-4,5e-2], edge 1-r in "
        "[1e-8,1e-4], origin, ideal (round trips only, outside a cone of 3e-3 "
        "around Klein (1,0,..,0))} or half-space data class {bulk, low, far}, model "
        "of construction, construction route, pair class in {generic, "
        "near-coincident |x-y|~1e-12..1e-5 (1-r), identical, rescaled-identical, "
        "collinear}); non-trivial = the point is not the origin given in Klein "
        "coordinates and the pair of models differs or the pair of points is not "
        "a pair of origins; distinct = distinct (check, dimension, shape rank, "
        "class, model or model pair, route) signatures.  Residuals are absolute "
        "(Klein coordinates / distances); tolerances 1e-9 (round trips) and "
        "1e-7 + 1e-11/(1-r_max) (distances; square-root rule below d ~ 1e-2)")
ASSUMPTIONS = [
    "the half-space chart is judged convention-free (round trips, metric "
    "agreement, sign of the height); no particular Cayley transform is pinned; "
    "the height is the last coordinate",
    "ideal points: round trips only, outside a cone around the half-space "
    "point at infinity; points with 1 - r < 1e-8 are not generated",
    "negative representatives and per-point rescaling belong to C12; here "
    "projective input uses positive scales in [0.1, 10]",
    "extended-precision reference requires np.longdouble wider than float64 "
    "(x86); otherwise the float64 arcsinh form is used",
]
ANCHORS = [("geometry_tools/hyperbolic.py", q) for q in (
    "Point.__init__", "Point.coords", "HyperbolicObject.coords",
    "HyperbolicObject.kleinian_coords", "Point.hyperboloid_coords",
    "Point.poincare_coords", "Point.halfspace_coords", "Point.distance",
    "get_point", "hyperboloid_coords", "kleinian_to_poincare",
    "poincare_to_kleinian", "poincare_to_halfspace", "halfspace_to_poincare",
    "minkowski")] + [
    ("geometry_tools/projective.py", q) for q in (
        "affine_coords", "projective_coords", "ProjectiveObject.affine_coords",
        "ProjectiveObject.projective_coords", "ProjectiveObject.set",
        "ProjectiveObject._construct_from_object")] + [
    ("geometry_tools/utils/core.py", q) for q in ("apply_bilinear", "normalize")]
REQUIRED = [
    ("geometry_tools/hyperbolic.py", "Point.distance", "return np.arccosh("),
    ("geometry_tools/hyperbolic.py", "Point.poincare_coords", "klein = poincare_to_kleinian("),
    ("geometry_tools/hyperbolic.py", "Point.halfspace_coords", "poincare = halfspace_to_poincare("),
    ("geometry_tools/hyperbolic.py", "Point.halfspace_coords", "return poincare_to_halfspace("),
    ("geometry_tools/hyperbolic.py", "Point.hyperboloid_coords", "self.set(proj_data"),
    ("geometry_tools/hyperbolic.py", "poincare_to_halfspace", "halfspace_coords[..., -1] ="),
    ("geometry_tools/hyperbolic.py", "halfspace_to_poincare", "poincare_coords[..., 0] ="),
    ("geometry_tools/projective.py", "affine_coords", "affine = np.delete("),
    ("geometry_tools/projective.py", "projective_coords", "result[..., chart_index] = one"),
    ("geometry_tools/projective.py", "ProjectiveObject._construct_from_object",
     "hyp_array = np.array([obj.proj_data for obj in unrolled_obj])"),
]

RT_TOL = 1e-9
SHAPE_KINDS = ("()", "(k,)", "(a,b)", "(a,1,c)")
_state = {}


# ---------------------------------------------------------------------------
# helpers

def worst_row(err, tol, ok):
    """index (into the flattened rows) of the row to judge: first non-finite
    residual, else largest residual/tolerance; None if no row is in domain."""
    idx = np.flatnonzero(ok)
    if idx.size == 0:
        return None
    e = np.asarray(err, dtype=float)[idx]
    t = np.asarray(tol, dtype=float)[idx]
    bad = ~np.isfinite(e)
    if bad.any():
        return int(idx[np.flatnonzero(bad)[0]])
    return int(idx[int(np.argmax(e / t))])


def rowmax(a):
    a = np.abs(np.asarray(a, dtype=float))
    if a.shape[-1] == 0:
        return np.zeros(a.shape[:-1])
    with np.errstate(all="ignore"):
        m = np.max(a, axis=-1)
    return np.where(np.any(np.isnan(a), axis=-1), np.nan, m)


def rand_shape(rng, kind):
    if kind == "()":
        return ()
    if kind == "(k,)":
        return (int(rng.integers(1, 6)),)
    if kind == "(a,b)":
        return (int(rng.integers(1, 4)), int(rng.integers(2, 4)))
    return (int(rng.integers(2, 4)), 1, int(rng.integers(2, 4)))


def is_real(a):
    return isinstance(a, np.ndarray) and a.dtype.kind in "fiu"


# ---------------------------------------------------------------------------
# postconditions on the chart maps

def setup(run):
    r2.WILD_SCALES = True
    from geometry_tools import hyperbolic, projective
    mon = run.monitor("chart-maps", min_events=200)
    dmon = run.monitor("distance", min_events=100)
    run.monitor("round-trip", min_events=200)
    run.monitor("closed-form", min_events=100)
    run.monitor("metric-laws", min_events=100)
    run.monitor("construction", min_events=20)
    _state["buf"] = {}

    def amb():
        return run.current_case

    # -- Klein <-> Poincare: textbook maps of the argument
    def k2p(call):
        if call.exc is not None:
            return
        pts = np.asarray(call.args[0])
        res = np.asarray(call.result)
        if not is_real(pts) or pts.ndim < 1 or pts.size == 0:
            return mon.skip("kleinian_to_poincare: non-real or empty argument")
        if res.shape != pts.shape:
            return mon.fail("chart-maps/kleinian_to_poincare/shape",
                            "result shape %r != argument shape %r" % (res.shape, pts.shape),
                            {"argument": pts, "ambient": amb()})
        n = pts.shape[-1]
        x = pts.reshape(-1, n).astype(float)
        y = res.reshape(-1, n).astype(float)
        u = 1.0 - np.sum(x * x, axis=-1)
        # closed ball; |k|^2 may exceed 1 by rounding only (a few ulp)
        ok = np.isfinite(u) & (u >= -4e-15)
        exp = rh.klein_to_poincare(x)
        err = rowmax(y - exp)
        with np.errstate(all="ignore"):
            tol = 1e-9 + np.where(u < 0, 2e-6, np.minimum(
                2e-6, 2e-13 / np.sqrt(np.clip(u, 1e-300, None))))
        if (~ok).any():
            mon.skip("kleinian_to_poincare: point outside the closed ball")
        w = worst_row(err, tol, ok)
        if w is None:
            return
        cls = "interior" if u[w] > 1e-9 else "boundary"
        mon.judge(err[w], tol[w], "chart-maps/kleinian_to_poincare/value/" + cls,
                  "kleinian_to_poincare(k) != k/(1+sqrt(1-|k|^2))",
                  {"klein": x[w], "returned": y[w], "expected": exp[w], "ambient": amb()})

    def p2k(call):
        if call.exc is not None:
            return
        pts = np.asarray(call.args[0])
        res = np.asarray(call.result)
        if not is_real(pts) or pts.ndim < 1 or pts.size == 0:
            return mon.skip("poincare_to_kleinian: non-real or empty argument")
        if res.shape != pts.shape:
            return mon.fail("chart-maps/poincare_to_kleinian/shape",
                            "result shape %r != argument shape %r" % (res.shape, pts.shape),
                            {"argument": pts, "ambient": amb()})
        n = pts.shape[-1]
        x = pts.reshape(-1, n).astype(float)
        y = res.reshape(-1, n).astype(float)
        ok = np.all(np.isfinite(x), axis=-1) & (np.sum(x * x, axis=-1) < 1e12)
        exp = rh.poincare_to_klein(x)
        err = rowmax(y - exp)
        tol = 1e-12 * (1.0 + rowmax(x))
        if (~ok).any():
            mon.skip("poincare_to_kleinian: non-finite / huge argument")
        w = worst_row(err, tol, ok)
        if w is None:
            return
        mon.judge(err[w], tol[w], "chart-maps/poincare_to_kleinian/value",
                  "poincare_to_kleinian(p) != 2p/(1+|p|^2)",
                  {"poincare": x[w], "returned": y[w], "expected": exp[w], "ambient": amb()})

    # -- Poincare <-> half-space: convention-free
    def metric_pairs(which, n, ball, half, omr_like, kindname):
        """ball: (m,n) Poincare points, half: (m,n) half-space points, rows
        already restricted to well-inside points; compare consecutive pairs
        and one pair with the previous call's last point."""
        m = ball.shape[0]
        prev = _state["buf"].get((which, n, kindname))
        if prev is not None:
            ball = np.concatenate([prev[0][None], ball])
            half = np.concatenate([prev[1][None], half])
            omr_like = np.concatenate([[prev[2]], omr_like])
        if m > 0:
            _state["buf"][(which, n, kindname)] = (ball[-1].copy(), half[-1].copy(), float(omr_like[-1]))
        if m == 0 or ball.shape[0] < 2:
            return
        a, b = ball[:-1], ball[1:]
        ha, hb = half[:-1], half[1:]
        d_ball = rh.dist_poincare(a, b)
        d_half = r2.cf_halfspace(ha, hb)
        tol = 1e-7 + 1e-11 / np.minimum(omr_like[:-1], omr_like[1:])
        err = np.abs(d_ball - d_half)
        w = worst_row(err, tol, np.ones(err.shape, dtype=bool))
        mon.judge(err[w], tol[w], "chart-maps/%s/metric/%s-argument" % (which, kindname),
                  "%s is not an isometry between the Poincare ball metric and the "
                  "half-space metric (height = last coordinate)" % which,
                  {"poincare_pair": [a[w], b[w]], "halfspace_pair": [ha[w], hb[w]],
                   "d_ball": d_ball[w], "d_halfspace": d_half[w], "ambient": amb()})

    def p2h(call):
        if call.exc is not None:
            return
        pts = np.asarray(call.args[0])
        res = np.asarray(call.result)
        if not is_real(pts) or pts.ndim < 1 or pts.size == 0:
            return mon.skip("poincare_to_halfspace: non-real or empty argument")
        if res.shape != pts.shape:
            return mon.fail("chart-maps/poincare_to_halfspace/shape",
                            "result shape %r != argument shape %r" % (res.shape, pts.shape),
                            {"argument": pts, "ambient": amb()})
        n = pts.shape[-1]
        p = pts.reshape(-1, n).astype(float)
        X = res.reshape(-1, n).astype(float)
        u = 1.0 - np.sum(p * p, axis=-1)
        e0 = np.zeros(n)
        e0[0] = 1.0
        far = np.linalg.norm(p - e0, axis=-1) >= 1e-3
        h = X[:, -1]
        with np.errstate(all="ignore"):
            X2 = np.sum(X * X, axis=-1)
        inside = np.isfinite(u) & (u >= 1e-9)
        bdry = np.isfinite(u) & (np.abs(u) <= 1e-7) & far
        if (~(inside | bdry)).any():
            mon.skip("poincare_to_halfspace: exterior point / boundary point near infinity")
        if inside.any():
            good = inside & np.all(np.isfinite(X), axis=-1) & (h > 0)
            badrows = np.flatnonzero(inside & ~good)
            if badrows.size:
                w = int(badrows[0])
                mon.fail("chart-maps/poincare_to_halfspace/height-sign/interior",
                         "interior Poincare point mapped to non-positive or non-finite height",
                         {"poincare": p[w], "returned": X[w], "ambient": amb()})
            else:
                mon.ok()
            well = inside & good & (u >= 1e-7)
            metric_pairs("poincare_to_halfspace", n, p[well], X[well], u[well],
                         "float" if pts.dtype.kind == "f" else "integer")
        if bdry.any():
            with np.errstate(all="ignore"):
                err = np.abs(h) / (1.0 + X2)
            err = np.where(np.all(np.isfinite(X), axis=-1), err, np.nan)
            w = worst_row(err, np.full(err.shape, 1e-6), bdry)
            mon.judge(err[w], 1e-6, "chart-maps/poincare_to_halfspace/height/boundary",
                      "boundary point of the Poincare ball not mapped to height ~ 0 "
                      "(|h|/(1+|X|^2))", {"poincare": p[w], "returned": X[w], "ambient": amb()})

    def h2p(call):
        if call.exc is not None:
            return
        pts = np.asarray(call.args[0])
        res = np.asarray(call.result)
        if not is_real(pts) or pts.ndim < 1 or pts.size == 0:
            return mon.skip("halfspace_to_poincare: non-real or empty argument")
        if res.shape != pts.shape:
            return mon.fail("chart-maps/halfspace_to_poincare/shape",
                            "result shape %r != argument shape %r" % (res.shape, pts.shape),
                            {"argument": pts, "ambient": amb()})
        n = pts.shape[-1]
        X = pts.reshape(-1, n).astype(float)
        p = res.reshape(-1, n).astype(float)
        h = X[:, -1]
        with np.errstate(all="ignore"):
            ratio = h / (1.0 + np.sum(X * X, axis=-1))
        fin = np.all(np.isfinite(X), axis=-1) & (np.sum(X * X, axis=-1) < 1e24)
        inside = fin & (ratio >= 1e-9)
        bdry = fin & (h == 0)
        if (~(inside | bdry)).any():
            mon.skip("halfspace_to_poincare: negative / tiny height or non-finite")
        u = 1.0 - np.sum(p * p, axis=-1)
        if inside.any():
            good = inside & np.all(np.isfinite(p), axis=-1) & (u > 0)
            badrows = np.flatnonzero(inside & ~good)
            if badrows.size:
                w = int(badrows[0])
                mon.fail("chart-maps/halfspace_to_poincare/in-ball/interior",
                         "half-space point of positive height not mapped into the open ball",
                         {"halfspace": X[w], "returned": p[w], "ambient": amb()})
            else:
                mon.ok()
            well = inside & good & (ratio >= 1e-7)
            metric_pairs("halfspace_to_poincare", n, p[well], X[well], 2 * ratio[well],
                         "float" if pts.dtype.kind == "f" else "integer")
        if bdry.any():
            err = np.abs(u)
            w = worst_row(err, np.full(err.shape, 1e-12), bdry)
            mon.judge(err[w], 1e-12, "chart-maps/halfspace_to_poincare/on-sphere/boundary",
                      "half-space point of height 0 not mapped to the unit sphere",
                      {"halfspace": X[w], "returned": p[w], "ambient": amb()})

    # -- hyperboloid: <h,h> = -1, h || x   (normalize works in place: copy first)
    def hyp_pre(call):
        a = call.args[0] if call.args else call.kwargs.get("points")
        return np.array(a, copy=True) if isinstance(a, np.ndarray) else None

    def hyp_post(call, orig):
        if call.exc is not None:
            return
        if call.bound().get("column_vectors"):
            return mon.skip("hyperboloid_coords: column_vectors")
        if orig is None or not is_real(orig) or orig.ndim < 1 or orig.size == 0:
            return mon.skip("hyperboloid_coords: non-real or non-array argument")
        res = np.asarray(call.result)
        if res.shape != orig.shape:
            return mon.fail("chart-maps/hyperboloid_coords/shape",
                            "result shape %r != argument shape %r" % (res.shape, orig.shape),
                            {"argument": orig, "ambient": amb()})
        n1 = orig.shape[-1]
        x = orig.reshape(-1, n1).astype(float)
        hh = res.reshape(-1, n1).astype(float)
        ok = r2.interior_mask(x, 1e-9) & np.all(np.isfinite(x), axis=-1)
        if (~ok).any():
            mon.skip("hyperboloid_coords: not timelike (with margin)")
        if not ok.any():
            return
        with np.errstate(all="ignore"):
            e1 = np.abs(rh.mink_sq(hh) + 1.0) / np.sum(hh * hh, axis=-1)
            e2, lam = r2.proj_residual(hh, x)
        w = worst_row(e1, np.full(e1.shape, 1e-10), ok)
        mon.judge(e1[w], 1e-10, "chart-maps/hyperboloid_coords/norm",
                  "hyperboloid coordinates do not satisfy <h,h> = -1 (relative to |h|^2)",
                  {"argument": x[w], "returned": hh[w], "ambient": amb()})
        w = worst_row(e2, np.full(e2.shape, 1e-12), ok)
        mon.judge(e2[w], 1e-12, "chart-maps/hyperboloid_coords/parallel",
                  "hyperboloid coordinates are not a multiple of the projective coordinates",
                  {"argument": x[w], "returned": hh[w], "ambient": amb()})

    # -- affine charts
    def aff(call):
        if call.exc is not None:
            b = call.bound()
            pts = np.asarray(b.get("points"))
            ci = b.get("chart_index")
            if is_real(pts) and pts.ndim >= 1 and ci is not None and not b.get("column_vectors"):
                col = pts[..., ci]
                if np.all(np.isfinite(pts)) and np.all(np.abs(col) > 1e-9 * (1 + rowmax(pts))):
                    mon.fail("chart-maps/affine_coords/exception:%s" % type(call.exc).__name__,
                             "affine_coords raised %s although every point has a non-zero "
                             "chart coordinate" % type(call.exc).__name__,
                             {"points": pts, "chart_index": ci, "ambient": amb()})
            return
        b = call.bound()
        pts = np.asarray(b.get("points"))
        ci = b.get("chart_index")
        cv = bool(b.get("column_vectors"))
        if not is_real(pts) or pts.ndim < 1 or pts.size == 0:
            return mon.skip("affine_coords: non-real or empty argument")
        res = call.result
        if ci is None:
            if not (isinstance(res, tuple) and len(res) == 2):
                return mon.fail("chart-maps/affine_coords/auto-chart/result-type",
                                "affine_coords(chart_index=None) must return (affine, index)",
                                {"points": pts, "ambient": amb()})
            res, ci = res
            ci = int(ci)
        res = np.asarray(res)
        if cv:
            pts = np.swapaxes(pts, -1, -2)
            res = np.swapaxes(res, -1, -2)
        n1 = pts.shape[-1]
        if res.shape != pts.shape[:-1] + (n1 - 1,):
            return mon.fail("chart-maps/affine_coords/shape",
                            "result shape %r for argument shape %r" % (res.shape, pts.shape),
                            {"points": pts, "chart_index": ci, "ambient": amb()})
        x = pts.reshape(-1, n1).astype(float)
        y = res.reshape(-1, n1 - 1).astype(float)
        col = x[:, ci]
        ok = np.all(np.isfinite(x), axis=-1) & (np.abs(col) > 1e-200) & \
            (np.abs(col) >= 1e-150 * rowmax(x))
        if (~ok).any():
            mon.skip("affine_coords: chart coordinate (nearly) zero")
        with np.errstate(all="ignore"):
            exp = np.delete(x, ci, axis=-1) / col[:, None]
        err = rowmax(y - exp)
        tol = 1e-13 * (1.0 + rowmax(exp))
        w = worst_row(err, np.where(np.isfinite(tol), tol, 1.0), ok)
        if w is None:
            return
        mon.judge(err[w], tol[w], "chart-maps/affine_coords/value",
                  "affine_coords(x)[j] != x[j]/x[chart] with the chart coordinate deleted",
                  {"point": x[w], "chart_index": ci, "returned": y[w], "expected": exp[w],
                   "ambient": amb()})

    def proj(call):
        if call.exc is not None:
            return
        b = call.bound()
        pts = np.asarray(b.get("points"))
        ci = int(b.get("chart_index"))
        cv = bool(b.get("column_vectors"))
        if not is_real(pts) or pts.ndim < 1 or pts.size == 0:
            return mon.skip("projective_coords: non-real or empty argument")
        res = np.asarray(call.result)
        if cv:
            pts = np.swapaxes(pts, -1, -2)
            res = np.swapaxes(res, -1, -2)
        n = pts.shape[-1]
        if res.shape != pts.shape[:-1] + (n + 1,):
            return mon.fail("chart-maps/projective_coords/shape",
                            "result shape %r for argument shape %r" % (res.shape, pts.shape),
                            {"points": pts, "chart_index": ci, "ambient": amb()})
        if res.dtype == np.dtype("O"):
            return mon.fail("chart-maps/projective_coords/object-dtype",
                            "projective_coords of real data has generic-object dtype",
                            {"points": pts, "ambient": amb()})
        x = pts.reshape(-1, n).astype(float)
        y = res.reshape(-1, n + 1).astype(float)
        ok = np.all(np.isfinite(x), axis=-1)
        exp = np.insert(x, ci, 1.0, axis=-1)
        err = rowmax(y - exp)
        w = worst_row(err, np.full(err.shape, 1e-300), ok)
        if w is None:
            return
        mon.judge(err[w], 0.0, "chart-maps/projective_coords/value",
                  "projective_coords(a) is not a with a 1 inserted at the chart index",
                  {"affine": x[w], "chart_index": ci, "returned": y[w], "ambient": amb()})

    attach.wrap_everywhere(run, hyperbolic.kleinian_to_poincare, k2p)
    attach.wrap_everywhere(run, hyperbolic.poincare_to_kleinian, p2k)
    attach.wrap_everywhere(run, hyperbolic.poincare_to_halfspace, p2h)
    attach.wrap_everywhere(run, hyperbolic.halfspace_to_poincare, h2p)
    attach.wrap_everywhere(run, hyperbolic.hyperboloid_coords, hyp_post, pre=hyp_pre)
    attach.wrap_everywhere(run, projective.affine_coords, aff)
    attach.wrap_everywhere(run, projective.projective_coords, proj)

    # -- Point.distance (distance() normalises proj_data in place: copy first)
    def dist_pre(call):
        try:
            a = np.array(call.args[0].proj_data, dtype=float, copy=True)
            o = call.args[1] if len(call.args) > 1 else call.kwargs.get("other")
            b = np.array(o.proj_data, dtype=float, copy=True)
            return a, b
        except Exception:
            return None

    def dist_post(call, st):
        if call.exc is not None:
            return
        if st is None:
            return dmon.skip("operands without real projective data")
        a, b = st
        try:
            A, B = np.broadcast_arrays(a, b)
        except ValueError:
            return dmon.skip("operand shapes not broadcastable by numpy (C04)")
        res = np.asarray(call.result)
        if res.shape != A.shape[:-1]:
            return dmon.skip("result shape follows another broadcasting rule (C04)")
        n1 = A.shape[-1]
        x = A.reshape(-1, n1)
        y = B.reshape(-1, n1)
        d = np.asarray(res, dtype=float).reshape(-1)
        ok = r2.interior_mask(x, 1e-9) & r2.interior_mask(y, 1e-9) & (x[:, 0] != 0) & (y[:, 0] != 0)
        if (~ok).any():
            dmon.skip("operand not interior (with margin)")
        if not ok.any():
            return
        with np.errstate(all="ignore"):
            dref = r2.dist_proj_ref(x, y)
            omr = np.minimum(r2.one_minus_r_proj(x), r2.one_minus_r_proj(y))
        ok &= np.isfinite(dref) & (omr >= 1e-9)
        if not ok.any():
            return dmon.skip("operand closer to the boundary than 1e-9")
        tol = r2.dist_tol(dref, omr)
        coinc = r2.unresolved(dref, omr)
        for cls, mask in (("near-coincident", ok & coinc), ("separated", ok & ~coinc)):
            if not mask.any():
                continue
            nonfin = mask & ~np.isfinite(d)
            if nonfin.any():
                w = int(np.flatnonzero(nonfin)[0])
                dmon.fail("distance/not-finite/" + cls,
                          "Point.distance of two interior points is %r (reference distance %.3g)"
                          % (d[w], dref[w]),
                          {"x": x[w], "y": y[w], "library": d[w], "reference": dref[w],
                           "ambient": amb()})
                continue
            neg = mask & (d < 0)
            if neg.any():
                w = int(np.flatnonzero(neg)[0])
                dmon.fail("distance/negative/" + cls, "Point.distance is negative",
                          {"x": x[w], "y": y[w], "library": d[w], "ambient": amb()})
                continue
            err = np.abs(d - dref)
            w = worst_row(err, tol, mask)
            dmon.judge(err[w], tol[w], "distance/value/" + cls,
                       "Point.distance differs from the reference distance",
                       {"x": x[w], "y": y[w], "library": d[w], "reference": dref[w],
                        "one_minus_r": omr[w], "ambient": amb()})

    attach.wrap_attr(run, hyperbolic.Point, "distance", dist_post, pre=dist_pre)


# ---------------------------------------------------------------------------
# construction routes

ALIASES = {
    "klein": ("klein", "kleinian", "affine", "KLEIN", "Klein"),
    "poincare": ("poincare", "POINCARE", "Poincare"),
    "halfspace": ("halfspace", "halfplane", "HALFSPACE", "HalfPlane"),
    "hyperboloid": ("hyperboloid", "HYPERBOLOID"),
    "projective": ("projective", "PROJECTIVE"),
}
ROUTES = ("array", "list", "tuple", "get_point", "enum", "alias", "copy", "units",
          "fortran", "moved-axis-view", "strided-view")
# the last three hand the same numbers over in another memory layout (seeded
# change C01-r3-1: an in-place normalisation through reshape(-1, n) silently
# works on a temporary when the input is not C-contiguous)


def construct(coords, model, route, rng=None):
    """the library Point for `coords` read in `model`, built through `route`."""
    from geometry_tools import hyperbolic as H
    c = np.array(coords, dtype=float, copy=True)
    if route == "array":
        return H.Point(c, model=model)
    if route == "list":
        return H.Point(c.tolist(), model=model)
    if route == "tuple":
        def tup(a):
            return tuple(tup(v) for v in a) if isinstance(a, list) else a
        return H.Point(tup(c.tolist()), model=model)
    if route == "get_point":
        return H.get_point(c.tolist() if (rng is not None and rng.random() < 0.5) else c, model)
    if route == "enum":
        return H.Point(c, model=getattr(H.Model, model.upper()))
    if route == "alias":
        al = ALIASES[model]
        return H.Point(c, model=al[int(rng.integers(len(al))) if rng is not None else 0])
    if route == "copy":
        return H.Point(H.Point(c, model=model))
    if route == "fortran":
        return H.Point(np.asfortranarray(c), model=model)
    if route == "moved-axis-view":
        # composite axes reversed in memory (what np.array([T, X, Y]).T gives)
        perm = tuple(range(c.ndim - 1))[::-1] + (c.ndim - 1,)
        v = np.transpose(np.ascontiguousarray(np.transpose(c, perm)), perm)
        return H.Point(v, model=model)
    if route == "strided-view":
        big = np.zeros(c.shape[:-1] + (2 * c.shape[-1],))
        big[..., ::2] = c
        return H.Point(big[..., ::2], model=model)
    if route == "units":
        if c.ndim != 2:
            return H.Point(H.Point(c, model=model))
        return H.Point([H.Point(row, model=model) for row in c])
    raise ValueError(route)


def in_models(rng):
    return ("klein", "poincare", "projective", "hyperboloid")[int(rng.integers(4))]


# ---------------------------------------------------------------------------
# comparators for coordinates in a model (a: candidate, b: reference reading)

def compare_in_model(model, a, b, s, X2=None):
    """residual and tolerance arrays (per point) for two readings of the same
    point in `model`; s = sqrt(1-r^2) of the truth (0 for ideal points)."""
    a = np.asarray(a, dtype=float)
    b = np.asarray(b, dtype=float)
    if model in ("klein",):
        return rowmax(a - b), np.full(a.shape[:-1], RT_TOL)
    if model in ("projective", "hyperboloid"):
        with np.errstate(all="ignore"):
            ka = a[..., 1:] / a[..., :1]
            kb = b[..., 1:] / b[..., :1]
        return rowmax(ka - kb), np.full(a.shape[:-1], RT_TOL)
    if model == "poincare":
        e1 = rowmax(rh.poincare_to_klein(a) - rh.poincare_to_klein(b))
        e2 = rowmax(a - b)
        t2 = RT_TOL / np.maximum(s, 1e-4)
        # judge the worse of the two relative to its own tolerance
        worse = (e2 / t2) > (e1 / RT_TOL)
        return np.where(worse, e2, e1), np.where(worse, t2, RT_TOL)
    if model == "halfspace":
        with np.errstate(all="ignore"):
            scale = 1.0 + np.sum(b * b, axis=-1)
        scale = np.where(np.isfinite(scale), scale, 1.0)
        return rowmax(a - b), RT_TOL * scale / np.maximum(s, 1e-3)
    raise ValueError(model)


# ---------------------------------------------------------------------------
# workloads

CLASSES = ("bulk", "mid", "edge", "origin", "ideal", "deep-edge")


def wl_roundtrip(run, rng, idx):
    mon = run.monitor("round-trip")
    n = 1 + idx % 6
    kind = SHAPE_KINDS[(idx // 6) % 4]
    cls = CLASSES[(idx // 24) % len(CLASSES)]
    shape = rand_shape(rng, kind)
    if cls == "ideal":
        k = r2.rand_ideal(rng, n, shape)
    else:
        k = r2.rand_klein(rng, n, shape, cls)
    m_in = in_models(rng)
    route = ROUTES[int(rng.integers(len(ROUTES)))]
    if cls == "ideal" and m_in == "hyperboloid":
        m_in = "projective"
    exact_null = cls == "ideal" and idx % 3 == 0
    if exact_null:
        # axis-aligned ideal points: their stored vector (1, +-e_j) has Minkowski
        # norm EXACTLY 0, which random ideal points (norm ~1e-17) never have; the
        # hyperboloid reading of such a point cannot be normalised and comes back
        # as it is (seeded change C01-r6-3: the hyperboloid setter re-projecting it
        # into the interior; C01-r4-1: division by the zero norm)
        fk = k.reshape(-1, n)
        for row in range(0, fk.shape[0], 2):
            e = np.zeros(n)
            j = int(rng.integers(n))
            # (+e_1 is the half-space model's point at infinity: excluded, as in rand_ideal)
            e[j] = -1.0 if j == 0 else float(rng.choice([-1.0, 1.0]))
            fk[row] = e
        k = fk.reshape(k.shape)
        m_in = ("klein", "poincare")[idx % 2]
    cin = r2.klein_to_model(k, m_in, rng)
    case = {"dimension": n, "shape": list(shape), "class": cls, "input_model": m_in,
            "route": route, "klein_truth": k, "input_coords": cin, "exactly_null_rows": exact_null}
    run.current_case = case
    X = construct(cin, m_in, route, rng)
    flat_k = k.reshape(-1, n)
    s = np.sqrt(np.clip(1.0 - np.sum(flat_k * flat_k, axis=-1), 0.0, None))
    allrows = np.ones(flat_k.shape[0], dtype=bool)
    interior = cls != "ideal"
    e0 = np.zeros(n)
    e0[0] = 1.0

    got = {}
    for m in MODELS:
        c = np.array(X.coords(m), dtype=float, copy=True)
        got[m] = c
        width = n + 1 if m in ("projective", "hyperboloid") else n
        if not mon.require(c.shape == tuple(shape) + (width,),
                           "round-trip/coords-shape/%s" % m,
                           "coords(%r) has shape %r for a composite of shape %r in H^%d"
                           % (m, c.shape, shape, n), case):
            return
        fc = c.reshape(-1, width)
        if m != "halfspace":
            err = rowmax(r2.model_to_klein(fc, m) - flat_k)
            w = worst_row(err, np.full(err.shape, RT_TOL), allrows)
            mon.judge(err[w], RT_TOL, "round-trip/truth/%s->%s/%s" % (m_in, m, cls),
                      "Point built from %s coordinates read in %s is not the point it was built from "
                      "(Klein coordinates)" % (m_in, m),
                      dict(case, read_model=m, klein_truth_row=flat_k[w], read=fc[w]))
            run.note_class("truth", n, kind, cls, m_in, m, route)
        else:
            h = fc[:, -1]
            if interior:
                good = np.all(np.isfinite(fc), axis=-1) & (h > 0)
                if good.all():
                    mon.ok()
                else:
                    w = int(np.flatnonzero(~good)[0])
                    mon.fail("round-trip/halfspace-height/interior/" + cls,
                             "interior point read in the half-space model has non-positive or "
                             "non-finite height", dict(case, klein_truth_row=flat_k[w], read=fc[w]))
            else:
                with np.errstate(all="ignore"):
                    err = np.abs(h) / (1.0 + np.sum(fc * fc, axis=-1))
                err = np.where(np.all(np.isfinite(fc), axis=-1), err, np.nan)
                w = worst_row(err, np.full(err.shape, 1e-6), allrows)
                mon.judge(err[w], 1e-6, "round-trip/halfspace-height/ideal",
                          "ideal point read in the half-space model is not at height ~ 0",
                          dict(case, klein_truth_row=flat_k[w], read=fc[w]))
            run.note_class("truth-height", n, kind, cls, m_in, route)

    for m in MODELS:
        Y = construct(got[m], m, "array")
        for m2 in MODELS:
            c2 = np.asarray(Y.coords(m2), dtype=float)
            ref = got[m2]
            if c2.shape != ref.shape:
                mon.fail("round-trip/shape/%s->%s" % (m, m2),
                         "shape %r after the round trip, %r before" % (c2.shape, ref.shape), case)
                continue
            width = ref.shape[-1]
            err, tol = compare_in_model(m2, c2.reshape(-1, width), ref.reshape(-1, width), s)
            w = worst_row(err, tol, allrows)
            mon.judge(err[w], tol[w], "round-trip/%s->%s/%s" % (m, m2, cls),
                      "Point(X.coords(%r), model=%r).coords(%r) != X.coords(%r)" % (m, m, m2, m2),
                      dict(case, via=m, read_model=m2, before=ref.reshape(-1, width)[w],
                           after=c2.reshape(-1, width)[w], klein_truth_row=flat_k[w]))
            run.note_class("pair", n, kind, cls, m, m2)
    if idx < 3:
        run.sample({"check": "round-trip", "dimension": n, "shape": list(shape), "class": cls,
                    "input_model": m_in, "route": route, "klein": k})


HS_CLASSES = ("bulk", "low", "far")


def wl_roundtrip_halfspace(run, rng, idx):
    """points *given* in half-space coordinates: round trips through every
    model back to half-space coordinates, and the half-space metric of the
    data against the library distance / the other models' closed forms."""
    mon = run.monitor("round-trip")
    cmon = run.monitor("closed-form")
    n = 1 + idx % 6
    kind = SHAPE_KINDS[(idx // 6) % 4]
    cls = HS_CLASSES[(idx // 24) % 3]
    shape = rand_shape(rng, kind)
    route = ROUTES[int(rng.integers(len(ROUTES)))]
    A = r2.rand_halfspace(rng, n, shape, cls)
    B = r2.rand_halfspace(rng, n, shape, cls)
    case = {"dimension": n, "shape": list(shape), "class": "halfspace-" + cls, "route": route,
            "halfspace_A": A, "halfspace_B": B}
    run.current_case = case
    X = construct(A, "halfspace", route, rng)
    Y = construct(B, "halfspace", "array")
    fa = A.reshape(-1, n)
    scaleA = 1.0 + np.sum(fa * fa, axis=-1)
    omrA = r2.halfspace_omr(fa)
    allrows = np.ones(fa.shape[0], dtype=bool)
    # direct read-back and round trips through every model
    for m in MODELS:
        Z = construct(np.array(X.coords(m), copy=True), m, "array")
        back = np.asarray(Z.coords("halfspace"), dtype=float)
        if back.shape != A.shape:
            mon.fail("round-trip/shape/halfspace-data/%s" % m,
                     "shape %r after the round trip, %r before" % (back.shape, A.shape), case)
            continue
        err = rowmax(back.reshape(-1, n) - fa)
        # a displacement of 1e-9 in Klein coordinates: conformal factor
        # (1+|X|^2)/2 times the Klein->Poincare radial factor 1/(s(1+s)),
        # s ~ sqrt(2 omr)
        tol = RT_TOL * scaleA / np.maximum(np.sqrt(omrA), 1e-3)
        w = worst_row(err, tol, allrows)
        mon.judge(err[w], tol[w], "round-trip/halfspace-data/via:%s/%s" % (m, cls),
                  "half-space coordinates -> Point -> %s coordinates -> Point -> half-space "
                  "coordinates does not return the data" % m,
                  dict(case, via=m, before=fa[w], after=back.reshape(-1, n)[w]))
        run.note_class("hs-data", n, kind, cls, m, route)
    # metric
    dref = r2.cf_halfspace(A, B)
    omr = np.minimum(r2.halfspace_omr(A), r2.halfspace_omr(B))
    d = np.asarray(X.distance(Y), dtype=float)
    if d.shape != tuple(shape):
        cmon.fail("closed-form/distance-shape", "distance has shape %r for composites of shape %r"
                  % (d.shape, shape), case)
        return
    fin = np.isfinite(d)
    tol = r2.dist_tol(dref, omr).reshape(-1)
    err = np.abs(d - dref).reshape(-1)
    w = worst_row(err, tol, allrows)
    cmon.judge(err[w], tol[w], "closed-form/halfspace-data/library-distance/" + cls,
               "library distance differs from the half-space metric of the half-space data "
               "the points were built from",
               dict(case, A=fa[w], B=B.reshape(-1, n)[w], library=d.reshape(-1)[w],
                    halfspace_metric=dref.reshape(-1)[w]))
    for m in MODELS:
        dm = r2.CLOSED_FORMS[m](X.coords(m), Y.coords(m))
        err = np.abs(np.asarray(dm, dtype=float) - dref).reshape(-1)
        tolm = r2.coord_tol(omr).reshape(-1)
        w = worst_row(err, tolm, allrows)
        cmon.judge(err[w], tolm[w], "closed-form/halfspace-data/%s/%s" % (m, cls),
                   "closed-form %s metric of the returned coordinates differs from the "
                   "half-space metric of the data" % m,
                   dict(case, model=m, A=fa[w], B=B.reshape(-1, n)[w],
                        closed_form=np.asarray(dm).reshape(-1)[w], halfspace_metric=dref.reshape(-1)[w]))
        run.note_class("hs-metric", n, kind, cls, m)


PAIR_CLASSES = ("generic", "near-coincident", "identical", "rescaled-identical", "collinear")
MET_CLASSES = ("bulk", "mid", "edge", "origin")


def wl_metric(run, rng, idx):
    cmon = run.monitor("closed-form")
    lmon = run.monitor("metric-laws")
    n = 1 + idx % 6
    kind = SHAPE_KINDS[(idx // 6) % 4]
    pcls = PAIR_CLASSES[(idx // 24) % 5]
    cls = MET_CLASSES[(idx // 6 + idx // 24 + idx // 120) % 4]
    shape = rand_shape(rng, kind)
    k1 = r2.rand_klein(rng, n, shape, cls)
    if cls == "origin" and pcls in ("near-coincident", "generic"):
        k1 = r2.rand_klein(rng, n, shape, "bulk") * (rng.random(size=tuple(shape) + (1,)) < 0.5)
    k3 = r2.rand_klein(rng, n, shape, cls if cls != "origin" else "bulk")
    if pcls == "generic":
        k2 = r2.rand_klein(rng, n, shape, cls if cls != "origin" else "bulk")
    elif pcls == "near-coincident":
        eps = np.exp(rng.uniform(np.log(1e-12), np.log(1e-5), size=tuple(shape) + (1,)))
        k2 = r2.near_point(rng, k1, eps)
    elif pcls in ("identical", "rescaled-identical"):
        k2 = k1.copy()
    else:   # collinear: k2 strictly between k1 and k3 on the Klein chord
        t = rng.uniform(0.05, 0.95, size=tuple(shape) + (1,))
        k2 = k1 + t * (k3 - k1)
    m1, m2, m3 = in_models(rng), in_models(rng), in_models(rng)
    if pcls == "identical":
        m2 = m1
    if pcls == "rescaled-identical":
        m1 = m2 = "projective"
    route = ROUTES[int(rng.integers(len(ROUTES)))]
    c1 = r2.klein_to_model(k1, m1, rng)
    c2 = c1.copy() if pcls == "identical" else r2.klein_to_model(k2, m2, rng)
    c3 = r2.klein_to_model(k3, m3, rng)
    case = {"dimension": n, "shape": list(shape), "class": cls, "pair_class": pcls,
            "models": [m1, m2, m3], "route": route, "klein_1": k1, "klein_2": k2, "klein_3": k3}
    run.current_case = case
    X1 = construct(c1, m1, route, rng)
    X2 = construct(c2, m2, "array")
    X3 = construct(c3, m3, "array")
    sig = (n, kind, cls, pcls)

    f1, f2, f3 = (k.reshape(-1, n) for k in (k1, k2, k3))
    o1, o2, o3 = (r2.one_minus_r_klein(f) for f in (f1, f2, f3))
    d12r = r2.dist_klein_ref(f1, f2)
    d23r = r2.dist_klein_ref(f2, f3)
    d13r = r2.dist_klein_ref(f1, f3)
    allrows = np.ones(f1.shape[0], dtype=bool)

    def lib(P, Q, label):
        d = np.asarray(P.distance(Q), dtype=float)
        if d.shape != tuple(shape):
            lmon.fail("metric-laws/distance-shape",
                      "distance has shape %r for composites of shape %r" % (d.shape, shape), case)
            return None
        return d.reshape(-1)

    d12 = lib(X1, X2, "12")
    d21 = lib(X2, X1, "21")
    d23 = lib(X2, X3, "23")
    d13 = lib(X1, X3, "13")
    d11 = lib(X1, X1, "11")
    d11c = lib(X1, construct(np.array(X1.coords("projective"), copy=True), "projective", "array"), "11c")
    if any(v is None for v in (d12, d21, d23, d13, d11, d11c)):
        return

    def finite_nonneg(d, dref, omr, label, klass):
        bad = ~np.isfinite(d)
        if bad.any():
            w = int(np.flatnonzero(bad)[0])
            klass = "near-coincident" if r2.unresolved(dref[w], omr[w]) else "separated"
            lmon.fail("metric-laws/not-finite/" + klass,
                      "distance %s between interior points is %r (reference %.3g)"
                      % (label, d[w], dref[w]),
                      dict(case, which=label, row=w, reference=dref[w]))
            return False
        if (d < 0).any():
            lmon.fail("metric-laws/negative/" + klass, "distance %s is negative" % label, case)
            return False
        lmon.ok()
        return True

    ok12 = finite_nonneg(d12, d12r, np.minimum(o1, o2), "d(x,y)", pcls)
    ok21 = finite_nonneg(d21, d12r, np.minimum(o1, o2), "d(y,x)", pcls)
    ok23 = finite_nonneg(d23, d23r, np.minimum(o2, o3), "d(y,z)", "generic" if pcls != "collinear" else pcls)
    ok13 = finite_nonneg(d13, d13r, np.minimum(o1, o3), "d(x,z)", "generic" if pcls != "collinear" else pcls)
    ok11 = finite_nonneg(d11, np.zeros_like(d11), o1, "d(x,x) [same object]", "self")
    ok11c = finite_nonneg(d11c, np.zeros_like(d11c), o1, "d(x,x') [x' rebuilt from x's coordinates]", "self")
    run.note_class("laws", *sig)

    # d(x,x) = 0
    for okf, d, label in ((ok11, d11, "same-object"), (ok11c, d11c, "rebuilt")):
        if okf:
            tol = r2.dist_tol(np.zeros_like(d), o1)
            w = worst_row(d, tol, allrows)
            lmon.judge(d[w], tol[w], "metric-laws/self-distance-nonzero/" + label,
                       "d(x,x) is not 0 within the square-root rule", dict(case, row=w, klein=f1[w]))
    # value, symmetry
    om12 = np.minimum(o1, o2)
    if ok12:
        tol = r2.dist_tol(d12r, om12)
        err = np.abs(d12 - d12r)
        w = worst_row(err, tol, allrows)
        lmon.judge(err[w], tol[w], "metric-laws/value/" + pcls,
                   "library distance differs from the reference distance",
                   dict(case, row=w, library=d12[w], reference=d12r[w], x=f1[w], y=f2[w]))
    if ok12 and ok21:
        tol = r2.dist_tol(d12r, om12)
        err = np.abs(d12 - d21)
        w = worst_row(err, tol, allrows)
        lmon.judge(err[w], tol[w], "metric-laws/symmetry/" + pcls,
                   "d(x,y) != d(y,x)", dict(case, row=w, dxy=d12[w], dyx=d21[w]))
    # triangle inequality with slack
    if ok12 and ok23 and ok13:
        slack = 1e-9 * (1 + d12 + d23 + d13) + r2.dist_tol(d12r, om12) + \
            r2.dist_tol(d23r, np.minimum(o2, o3)) + r2.dist_tol(d13r, np.minimum(o1, o3))
        for a, b, c, lab in ((d13, d12, d23, "xz<=xy+yz"), (d12, d13, d23, "xy<=xz+zy"),
                             (d23, d12, d13, "yz<=yx+xz")):
            exc = np.clip(a - b - c, 0.0, None)
            w = worst_row(exc, slack, allrows)
            lmon.judge(exc[w], slack[w], "metric-laws/triangle/" + pcls,
                       "triangle inequality violated (%s)" % lab,
                       dict(case, row=w, sides=[a[w], b[w], c[w]]))
        if pcls == "collinear":
            # equality case: y on the segment xz
            err = np.abs(d12 + d23 - d13)
            w = worst_row(err, slack, allrows)
            lmon.judge(err[w], slack[w], "metric-laws/additivity-on-geodesic",
                       "d(x,y)+d(y,z) != d(x,z) for y on the segment xz",
                       dict(case, row=w, sides=[d12[w], d23[w], d13[w]]))

    # one point against a composite (numpy-style broadcasting of the units)
    if shape:
        kz = r2.rand_klein(rng, n, (), cls if cls != "origin" else "bulk")
        Z = construct(r2.klein_to_model(kz, m3, rng), m3, "array")
        case_b = dict(case, klein_single=kz)
        run.current_case = case_b
        dzr = r2.dist_klein_ref(f1, kz)
        omz = np.minimum(o1, r2.one_minus_r_klein(kz))
        for lab, dz in (("d(X,z)", X1.distance(Z)), ("d(z,X)", Z.distance(X1))):
            dz = np.asarray(dz, dtype=float)
            if dz.shape != tuple(shape):
                lmon.fail("metric-laws/distance-shape/broadcast",
                          "%s has shape %r for a composite of shape %r and a single point"
                          % (lab, dz.shape, shape), case_b)
                continue
            dz = dz.reshape(-1)
            if finite_nonneg(dz, dzr, omz, lab, "broadcast"):
                tol = r2.dist_tol(dzr, omz)
                err = np.abs(dz - dzr)
                w = worst_row(err, tol, allrows)
                lmon.judge(err[w], tol[w], "metric-laws/value/broadcast",
                           "distance between a composite and a single point differs from the "
                           "reference", dict(case_b, row=w, library=dz[w], reference=dzr[w]))
        run.note_class("broadcast", *sig)
        run.current_case = case

    # closed forms on returned coordinates
    ctol = r2.coord_tol(om12)
    dtol = r2.dist_tol(d12r, om12)
    for m in MODELS:
        a = np.array(X1.coords(m), dtype=float, copy=True)
        b = np.array(X2.coords(m), dtype=float, copy=True)
        dm = np.asarray(r2.CLOSED_FORMS[m](a, b), dtype=float).reshape(-1)
        err = np.abs(dm - d12r)
        w = worst_row(err, ctol, allrows)
        cmon.judge(err[w], ctol[w], "closed-form/%s/vs-reference/%s" % (m, pcls),
                   "closed-form %s metric of the returned coordinates differs from the reference "
                   "distance" % m,
                   dict(case, model=m, row=w, closed_form=dm[w], reference=d12r[w],
                        coords_x=a.reshape(-1, a.shape[-1])[w], coords_y=b.reshape(-1, b.shape[-1])[w]))
        if ok12:
            err = np.abs(dm - d12)
            w = worst_row(err, dtol + ctol, allrows)
            cmon.judge(err[w], (dtol + ctol)[w], "closed-form/%s/vs-library/%s" % (m, pcls),
                       "closed-form %s metric of the returned coordinates differs from the "
                       "library distance" % m,
                       dict(case, model=m, row=w, closed_form=dm[w], library=d12[w]))
        run.note_class("closed-form", m, *sig)
    if idx < 3:
        run.sample({"check": "metric", "dimension": n, "shape": list(shape), "class": cls,
                    "pair_class": pcls, "klein_1": k1, "klein_2": k2})


def wl_construction(run, rng, idx):
    """all construction routes of one point give one point; integer-valued
    coordinates (exact inputs) behave like the same numbers as floats."""
    from geometry_tools import hyperbolic as H
    mon = run.monitor("construction")
    n = 1 + idx % 6
    model = MODELS[(idx // 6) % 5]
    k = (2,) if idx % 2 else (int(rng.integers(1, 5)),)
    if model == "halfspace":
        c = r2.rand_halfspace(rng, n, k, "bulk")
    else:
        c = r2.klein_to_model(r2.rand_klein(rng, n, k, "bulk"), model, rng)
    case = {"dimension": n, "model": model, "coords": c}
    run.current_case = case
    base = construct(c, model, "array")
    kb = np.array(base.coords("klein"), dtype=float, copy=True)
    if model == "halfspace":
        co = r2.rand_halfspace(rng, n, k, "bulk")
    else:
        co = r2.klein_to_model(r2.rand_klein(rng, n, k, "bulk"), model, rng)
    other = construct(co, model, "array")
    db = np.asarray(base.distance(other), dtype=float)
    for route in ROUTES[1:]:
        P = construct(c, model, route, rng)
        kp = np.asarray(P.coords("klein"), dtype=float)
        if kp.shape != kb.shape:
            mon.fail("construction/shape/%s" % route,
                     "route %s gives shape %r, ndarray route %r" % (route, kp.shape, kb.shape), case)
            continue
        err = float(np.max(np.abs(kp - kb)))
        mon.judge(err, 1e-12, "construction/coords/%s" % route,
                  "construction route %s gives another point than Point(ndarray, model)" % route,
                  dict(case, route=route))
        dp = np.asarray(P.distance(other), dtype=float)
        both_nan = np.isnan(dp) & np.isnan(db)
        errd = float(np.max(np.where(both_nan, 0.0, np.abs(dp - db))))
        mon.judge(errd, 1e-9, "construction/distance/%s" % route,
                  "distances from a point built through route %s differ" % route,
                  dict(case, route=route))
        run.note_class("route", n, model, route)

    # exact class: integer-valued coordinates, as ints and as floats
    if model == "halfspace":
        ci = np.concatenate([rng.integers(-3, 4, size=k + (n - 1,)),
                             rng.integers(1, 4, size=k + (1,))], axis=-1)
    elif model in ("klein", "poincare"):
        ci = np.zeros(k + (n,), dtype=int)      # the only integer point of the open ball
    else:
        sp = rng.integers(-2, 3, size=k + (n,))
        x0 = np.floor(np.sqrt(np.sum(sp * sp, axis=-1, keepdims=True))).astype(int) + \
            rng.integers(1, 3, size=k + (1,))
        ci = np.concatenate([x0, sp], axis=-1)
        if model == "hyperboloid":
            ci = np.concatenate([np.ones(k + (1,), dtype=int), np.zeros(k + (n,), dtype=int)], axis=-1)
    case_i = {"dimension": n, "model": model, "integer_coords": ci}
    run.current_case = case_i
    Pf = H.Point(ci.astype(float), model=model)
    ref_coords = {m: np.array(Pf.coords(m), dtype=float, copy=True) for m in MODELS}
    ref_d = np.asarray(Pf.distance(other), dtype=float)
    for pack, data in (("int-ndarray", ci.copy()), ("int-list", ci.tolist())):
        try:
            Pi = H.Point(data, model=model)
            got = {m: np.asarray(Pi.coords(m), dtype=float) for m in MODELS}
            di = np.asarray(Pi.distance(other), dtype=float)
        except Exception as e:
            mon.fail("construction/integer-coordinates/exception:%s" % type(e).__name__,
                     "Point(<integer-valued %s coordinates, %s>) : reading coordinates / distance "
                     "raised %s: %s" % (model, pack, type(e).__name__, str(e)[:160]),
                     dict(case_i, packaging=pack), tb=traceback.format_exc())
            continue
        err = 0.0
        for m in MODELS:
            if m in ("projective", "hyperboloid"):
                with np.errstate(all="ignore"):
                    e_ = np.abs(got[m][..., 1:] / got[m][..., :1] -
                                ref_coords[m][..., 1:] / ref_coords[m][..., :1])
            else:
                e_ = np.abs(got[m] - ref_coords[m]) / (1 + np.abs(ref_coords[m]))
            err = max(err, float(np.max(e_)) if e_.size else 0.0)
        mon.judge(err, 1e-12, "construction/integer-coordinates/coords/%s" % model,
                  "integer-valued coordinates read differently from the same numbers as floats",
                  dict(case_i, packaging=pack))
        both_nan = np.isnan(di) & np.isnan(ref_d)
        mon.judge(float(np.max(np.where(both_nan, 0.0, np.abs(di - ref_d)))), 1e-9,
                  "construction/integer-coordinates/distance/%s" % model,
                  "distance between integer-valued points differs from the float packaging",
                  dict(case_i, packaging=pack))
        run.note_class("integer", n, model, pack)


def wl_ambient(run, rng, idx):
    """other objects that read model coordinates (segments with their ideal
    endpoints, geodesics, polygons): more call sites for the chart-map and
    distance postconditions.  Nothing is judged here besides those."""
    from geometry_tools import hyperbolic as H
    mon = run.monitor("chart-maps")
    n = 2 + idx % 3
    shape = rand_shape(rng, SHAPE_KINDS[idx % 3])
    kp = rh.rand_ball(rng, n, shape, rmax=0.9)
    kq = rh.rand_ball(rng, n, shape, rmax=0.9)
    run.current_case = {"dimension": n, "shape": list(shape), "klein_p": kp, "klein_q": kq,
                        "workload": "ambient"}
    try:
        seg = H.Segment(H.Point(kp, model="klein"), H.Point(kq, model="klein"))
        for m in ("klein", "poincare", "halfspace"):
            seg.endpoint_coords(m)
            seg.ideal_endpoint_coords(m)
        ends = seg.get_endpoints()
        for m in MODELS:
            ends.coords(m)
        a, b = seg.get_end_pair(as_points=True)
        a.distance(b)
        if n == 2:
            seg.circle_parameters(model="poincare")
            poly = H.Polygon(H.Point(rh.rand_ball(rng, 2, (4,), rmax=0.9), model="klein"))
            poly.coords("poincare")
            poly.coords("halfspace")
        run.note_class("ambient", n, len(shape))
    except Exception as e:      # not C01's business (C11/C14): recorded only
        mon.diag("ambient workload: %s in %s" % (type(e).__name__, "segment/polygon calls"))


WORKLOADS = [
    Workload("round-trip", wl_roundtrip, quick=240, thorough=14400),
    Workload("round-trip-halfspace-data", wl_roundtrip_halfspace, quick=72, thorough=5184),
    Workload("metric", wl_metric, quick=360, thorough=28800),
    Workload("construction", wl_construction, quick=60, thorough=1728),
    Workload("ambient", wl_ambient, quick=24, thorough=576),
]
