"""C14 -- circle and sphere parameters describe the true geodesic, segment, horosphere.

Monitors (P = postcondition attached to the real function; every internal call
is judged too).  Residuals reported by these monitors are *normalised by the
tolerance of the case* (max_residual 0.03 = a 30-fold margin), because the
tolerance is scaled by the conditioning of each input (DESIGN 2.4).

  ideal-endpoints   P Segment._compute_aux_data, Segment.ideal_endpoint_coords:
                    finite, lightlike, on the Klein line of the endpoints, equal
                    (unordered) to the reference ideal points of the chord.
  segment-circle    P Segment.circle_parameters: centre/radius give a circle
                    through both endpoints, orthogonal to the boundary, in the
                    plane of the geodesic, equal to the reference pole circle.
  segment-arc       same call, dimension 2: the two angles are the endpoints and
                    the ccw arc between them lies inside the model on the
                    hyperbolic segment (reference betweenness d(p,x)+d(x,q)=d(p,q)
                    with the distances of ref.hyp).
  geodesic-circle / geodesic-arc   P Geodesic.circle_parameters (ideal endpoints).
  subspace-sphere   P Subspace.sphere_parameters (also reached through every
                    circle_parameters): contains the ideal basis and further ideal
                    points of the subspace, orthogonal to the boundary, equal to
                    the reference (pole of the affine span / circumsphere).
  boundary-sphere   P Subspace.boundary_sphere_parameters.
  horosphere        P Horosphere.sphere_parameters: through the reference point,
                    tangent to the boundary at the centre.
  horoarc           P HorosphereArc.circle_parameters: horocycle, angles are the
                    two endpoints, ccw arc avoids the ideal centre; W: a unit
                    horoarc gives what the composite gives at that index.
  arc-utils         P utils.circle_angles / short_arc / right_to_left /
                    arc_include / sphere_inversion / sphere_through contracts.
  units             W degrees == radians * 180/pi.
  (histories)       workload only: objects derived from a composite (flatten_to_unit,
                    reshape, Class(obj), astype, obj[:]) stay alive while items are
                    assigned into one of them; every live object is queried before
                    and after, and the postconditions above judge each answer
                    against the data of the object that gave it.
  arm/...           branch counters (short_arc flip/keep, right_to_left flip/keep,
                    arc_include swap/keep): each arm must be observed.
"""
import math
import traceback
import numpy as np

from ..run import Workload
from .. import attach
from ..ref import hyp as rh
from ..ref import circles as rc

ID = "C14"
RULE = ("cases = (object kind, dimension 2..4, composite shape, model, degrees/"
        "radians, conditioning class): segments by hyperbolic length class 1e-3..8 "
        "and Klein radius class, segments with one/two ideal endpoints, geodesics, "
        "chords through / near the origin (|foot| 0, 1e-14..1e-2), half-space "
        "classes by distance >= 0.3 / 0.1 / 0.03 of every endpoint and ideal "
        "endpoint from the point at infinity, rescaled representatives incl. "
        "lightlike differences, horospheres at all centres, horoarcs (unit and "
        "composite), subspaces of dimension 1..n-1 from ideal bases (generic and "
        "symmetric) and hyperplanes from normals; Hyperplane objects by "
        "representation class (integer normals, explicit (n+1)x(n+1) data with "
        "rescaled dual / ideal rows, images under Isometry(lambda*M) for lambda "
        "!= +-1 incl. negative, float32 normals), unit and composite, with further "
        "ideal points of the normal's orthogonal complement; histories: relatives of a "
        "composite segment / geodesic / horosphere kept alive across item "
        "assignments (index, row / slice, mask keys; object or array values) into "
        "the original or a relative, all live objects re-queried; "
        "non-trivial = distinct points, "
        "affinely independent basis (sigma_min >= 1e-3); distinct = distinct "
        "(kind, dimension, shape, model, class, branch arm) signatures")
ASSUMPTIONS = [
    "angles are a dimension-2 notion (circle_angles reads two coordinates): arc "
    "checks run in dimension 2, centre/radius checks in dimensions 2..4",
    "the library's half-space (and Poincare horosphere) coordinates of ideal "
    "points pass through sqrt(|1-|k|^2|) and carry ~1e-8 relative error; "
    "tolerances there follow the square-root rule (1e-5 bulk, + 3e-7/|kp-kq|)",
    "residuals are relative to the radius; a non-finite or > 1e12 radius is the "
    "accepted straight-line marker when the reference chord passes within 1e-12 "
    "of the origin (Poincare) ",
    "half-space cases in which an endpoint, ideal endpoint or basis point is "
    "closer than 0.02 (Klein, Euclidean) to the point at infinity are out of domain",
    "the order of the two ideal endpoints is not geometric (compared unordered)",
]
HYP = "geometry_tools/hyperbolic.py"
UC = "geometry_tools/utils/core.py"
ANCHORS = [(HYP, q) for q in (
    "Segment._compute_aux_data", "Segment.ideal_endpoint_coords",
    "Segment.circle_parameters", "Geodesic.circle_parameters",
    "Subspace.sphere_parameters", "Subspace.boundary_sphere_parameters",
    "Subspace.ideal_basis_coords", "Horosphere.sphere_parameters",
    "HorosphereArc.circle_parameters", "Hyperplane._compute_ideal_basis")] + [
    (UC, q) for q in ("circle_angles", "short_arc", "right_to_left", "arc_include",
                      "sphere_inversion", "sphere_through")]
REQUIRED = [
    (HYP, "Segment._compute_aux_data", "mu1 = (-b + np.sqrt(b * b - 4 * a * c)) / (2*a)"),
    (HYP, "Segment.circle_parameters", "thetas = utils.short_arc(thetas)"),
    (HYP, "Segment.circle_parameters", "thetas = utils.right_to_left(thetas)"),
    (HYP, "Geodesic.circle_parameters", "thetas = utils.short_arc(thetas)"),
    (HYP, "Geodesic.circle_parameters", "thetas = utils.right_to_left(thetas)"),
    (HYP, "Subspace.sphere_parameters", "poincare_extreme = utils.sphere_inversion(poincare_midpoint)"),
    (HYP, "Subspace.sphere_parameters", "halfspace_basis = self.ideal_basis_coords(model=Model.HALFSPACE)"),
    (HYP, "Subspace.boundary_sphere_parameters", "return utils.sphere_through(sphere_pt_coords)"),
    (HYP, "Horosphere.sphere_parameters", "model_center = ideal_coords * (1 - model_radius[..., np.newaxis])"),
    (HYP, "Horosphere.sphere_parameters", "model_center[..., -1] = model_radius"),
    (HYP, "HorosphereArc.circle_parameters", "thetas = np.flip(utils.arc_include(thetas, center_theta), axis=-1)"),
    (UC, "arc_include", "s_thetas[to_swap] = np.flip(s_thetas[to_swap], axis=-1)"),
]

INF_MARGIN = 0.02          # out of domain below this distance from infinity
LIMIT_FOOT = 1e-12         # chord foot closer to the origin: straight-line limit
FRACS = np.array([0.02, 0.15, 0.3, 0.5, 0.7, 0.85, 0.98])
F9_KEY = "C14/subspace-sphere/ideal-basis>=3"

import os
DEBUG = bool(os.environ.get("GTMON_C14_DEBUG"))
_ctx = {}                  # set by workloads: extra information for the hooks


# ---------------------------------------------------------------------------
# helpers

def model_name(model):
    v = getattr(model, "value", model)
    try:
        v = str(v).lower()
    except Exception:
        return None
    return {"halfplane": "halfspace", "kleinian": "klein", "affine": "klein"}.get(v, v)


def finite(*arrs):
    return all(np.all(np.isfinite(np.asarray(a, dtype=float))) for a in arrs)


def as_float(a):
    try:
        a = np.asarray(a)
        if a.dtype == object or np.iscomplexobj(a):
            return None
        return a.astype(float)
    except Exception:
        return None


def units_note(run, mon, n):
    d = run.extra.setdefault("units_judged", {})
    d[mon] = d.get(mon, 0) + int(n)


def arm(run, name, count):
    if count > 0:
        run.monitor("arm/" + name, min_events=1).ok()
        d = run.extra.setdefault("branch_arms", {})
        d[name] = d.get(name, 0) + int(count)


def judge_units(mon, res, tol, key, what, case_of, mask=None):
    """res, tol: arrays over units.  One judged event on the worst unit."""
    res = np.asarray(res, dtype=float)
    tol = np.broadcast_to(np.asarray(tol, dtype=float), res.shape)
    with np.errstate(all="ignore"):
        ratio = np.where(np.isfinite(res), res / tol, np.inf)
    if mask is not None:
        mask = np.broadcast_to(mask, res.shape)
        if not np.any(mask):
            return True
        ratio = np.where(mask, ratio, -1.0)
    idx = np.unravel_index(int(np.argmax(ratio)), ratio.shape) if ratio.ndim else ()
    worst = float(ratio[idx]) if ratio.ndim else float(ratio)
    if DEBUG and 0.05 < worst <= 1.0:
        print("DEBUG", key, "%.3g" % worst, mon.run.current, "res %.3g tol %.3g"
              % (float(res[idx]), float(tol[idx])), {k: v for k, v in case_of(idx).items()
                                                     if k in ("P", "Q", "radius", "ideal_basis")})
    if worst <= 1.0:
        d = mon.run.extra.setdefault("max_ratio_by_check", {})
        old = d.get(key)
        if old is None or worst > old[0]:
            d[key] = [float("%.3g" % worst)]
    if worst <= 1.0:
        return mon.judge(worst, 1.0, key, what, suspicious=0.2)
    return mon.judge(worst, 1.0, key,
                     "%s [residual %.3g, tolerance %.3g]"
                     % (what, float(np.asarray(res)[idx]), float(tol[idx])),
                     case_of(idx), suspicious=0.2)


def classify_points(X, margin=1e-6):
    """'interior'/'ideal'/'exterior'/'bad' per homogeneous vector."""
    X = np.asarray(X, dtype=float)
    with np.errstate(all="ignore"):
        k = rh.kind(X, margin)
    bad = ~np.all(np.isfinite(X), axis=-1) | (X[..., 0] == 0)
    return np.where(bad, "bad", k)


def classify_endpoints(X):
    """as classify_points but for user-given endpoints: 'ideal' only when
    lightlike to rounding (|q| <= 1e-13), 'interior' when clearly timelike
    (q < -1e-11), the band in between is 'bad' (not classifiable: a point at
    distance > 12 from the origin or a sloppy ideal point)."""
    X = np.asarray(X, dtype=float)
    with np.errstate(all="ignore"):
        q = rh.mink_sq(X) / np.sum(X * X, axis=-1)
    out = np.where(q < -1e-11, "interior", np.where(np.abs(q) <= 1e-13, "ideal",
                   np.where(q > 1e-6, "exterior", "bad")))
    bad = ~np.all(np.isfinite(X), axis=-1) | (X[..., 0] == 0)
    return np.where(bad, "bad", out)


def klein_unit(X, kinds):
    """Klein coordinates; ideal vectors are put exactly on the unit sphere."""
    with np.errstate(all="ignore"):
        k = rc.klein_of_proj(X)
        nk = np.linalg.norm(k, axis=-1, keepdims=True)
        return np.where((kinds == "ideal")[..., None], k / nk, k)


def safe_basis(E, ok):
    """E (..., k, n) with the units where ~ok replaced by a fixed independent
    set of unit vectors (-e_1, e_2, ..) so that SVD-based helpers never see NaN."""
    E = np.asarray(E, dtype=float)
    k, n = E.shape[-2:]
    std = np.eye(n)[:k].copy()
    std[0] = -std[0]
    okb = np.asarray(ok, dtype=bool)[..., None, None]
    return np.where(okb & np.isfinite(E), E, std)


def model_pts(X, kinds, model):
    """reference model coordinates of homogeneous points (ideal ones exactly)."""
    k = klein_unit(X, kinds)
    ideal = (kinds == "ideal")
    a = rc.model_of_klein(np.where(ideal[..., None], k, 0 * k), model, ideal=True) \
        if np.any(ideal) else None
    b = rc.model_of_proj(X, model)
    if a is None:
        return b
    return np.where(ideal[..., None], a, b)


# ---------------------------------------------------------------------------
# segment / geodesic judgement

def seg_domain(P, Q, model):
    """-> (ok mask, reason array, dict of reference data) per unit."""
    kp_kind = classify_endpoints(P)
    kq_kind = classify_endpoints(Q)
    ok = np.isin(kp_kind, ("interior", "ideal")) & np.isin(kq_kind, ("interior", "ideal"))
    kp = klein_unit(P, kp_kind)
    kq = klein_unit(Q, kq_kind)
    with np.errstate(all="ignore"):
        sep = np.linalg.norm(kp - kq, axis=-1)
        ok = ok & np.isfinite(sep) & (sep >= 1e-6)
        E = rc.ideal_endpoints(kp, kq)
        u, tm, m, _ = rc.chord(kp, kq)
        foot = np.linalg.norm(m, axis=-1)
    with np.errstate(all="ignore"):
        sp = np.linalg.norm(P, axis=-1)
        sq = np.linalg.norm(Q, axis=-1)
        rep_ratio = np.maximum(sp, sq) / np.minimum(sp, sq)
        a_rel = np.abs(rh.mink_sq(P - Q)) / (sp * sp + sq * sq)
    ref = {"kp": kp, "kq": kq, "sep": sep, "E": E, "foot": foot,
           "pkind": kp_kind, "qkind": kq_kind, "rep_ratio": rep_ratio, "a_rel": a_rel}
    if model == "halfspace":
        with np.errstate(all="ignore"):
            dinf = np.minimum(np.minimum(rc.inf_distance(kp), rc.inf_distance(kq)),
                              np.min(rc.inf_distance(E), axis=-1))
        ref["dinf"] = dinf
        ref["near_inf"] = ok & ~(dinf >= INF_MARGIN)
        ok = ok & (dinf >= INF_MARGIN)
    return ok, ref


def circle_tols(ref, model, r_ref):
    """(tol_on, tol_centre) relative to r, per unit."""
    sep = ref["sep"]
    with np.errstate(all="ignore"):
        if model == "poincare":
            t_on = 1e-7 + 1e-13 / sep ** 2
            t_c = t_on * np.maximum(1.0, r_ref) * 10.0
        else:
            amp = np.maximum(1.0, 0.3 / ref["dinf"]) ** 2 * np.maximum(1.0, ref["rep_ratio"] / 3.0)
            t_on = (3e-5 + 3e-7 / sep) * amp
            t_c = t_on * 2.0
    return t_on, t_c


def judge_circle(run, kind, P, Q, model, degrees, c, r, th, obj_desc):
    """common judgement for Segment / Geodesic circle_parameters."""
    mon_c = run.monitor(kind + "-circle")
    mon_a = run.monitor(kind + "-arc")
    if model not in ("poincare", "halfspace"):
        return mon_c.skip("model without circle parameters")
    c = as_float(c)
    r = as_float(r)
    th = as_float(th)
    if c is None or r is None or th is None or not finite(P, Q):
        return mon_c.skip("non-numeric or non-finite data")
    n = P.shape[-1] - 1
    shp = P.shape[:-1]
    if c.shape != shp + (n,) or r.shape != shp or th.shape != shp + (2,):
        return mon_c.fail("%s-circle/result-shape/%s" % (kind, model),
                          "shapes of (centre, radius, thetas) %r %r %r do not match "
                          "the object's shape %r" % (c.shape, r.shape, th.shape, shp),
                          obj_desc(()))
    ok, ref = seg_domain(P, Q, model)
    if kind == "geodesic":
        ok = ok & (ref["pkind"] == "ideal") & (ref["qkind"] == "ideal")
    nskip = int(np.sum(~ok))
    if nskip:
        mon_c.skip("out of domain (exterior / coincident / near infinity)")
    if not np.any(ok):
        return
    kp, kq, E = ref["kp"], ref["kq"], ref["E"]
    if degrees:
        th = th * (math.pi / 180.0)

    def case_of(idx):
        d = obj_desc(idx)
        d.update({"model": model, "degrees": bool(degrees), "centre": c[idx],
                  "radius": r[idx], "thetas_rad": th[idx]})
        return d

    with np.errstate(all="ignore"):
        c_ref, r_ref = rc.geodesic_circle(kp, kq, model)
    # --- straight-line limit (Poincare, chord through the origin)
    limit = np.zeros(shp, dtype=bool)
    if model == "poincare":
        limit = ok & (ref["foot"] <= LIMIT_FOOT)
        if np.any(limit):
            # 1e12, lowered by the conditioning of the ideal endpoints (short
            # chord / nearly lightlike difference of the representatives)
            with np.errstate(all="ignore"):
                thr = 1e12 / np.maximum(1.0, 1e-2 / ref["a_rel"])
            marker = ~np.isfinite(r) | (np.abs(r) > thr)
            bad = limit & ~marker
            run.note_class(kind, "straight-line-limit", n)
            if np.any(bad):
                idx = tuple(np.argwhere(bad)[0])
                mon_c.fail("%s-circle/finite-radius-in-straight-limit/poincare" % kind,
                           "chord through the origin but radius %r is neither "
                           "non-finite nor > %.3g" % (float(r[idx]), float(thr[idx])), case_of(idx))
            else:
                mon_c.ok()
            arm(run, "straight-limit-marker", int(np.sum(limit)))
    live = ok & ~limit
    if not np.any(live):
        return
    units_note(run, mon_c.name, np.sum(live))
    nonfin = live & ~(np.isfinite(r) & np.all(np.isfinite(c), axis=-1)
                      & np.all(np.isfinite(th), axis=-1))
    if np.any(nonfin):
        idx = tuple(np.argwhere(nonfin)[0])
        mon_c.fail("%s-circle/non-finite/%s" % (kind, model),
                   "non-finite circle parameters for an in-domain %s" % kind,
                   case_of(idx))
        live = live & ~nonfin
        if not np.any(live):
            return
    t_on, t_c = circle_tols(ref, model, r_ref)
    pk, qk = ref["pkind"], ref["qkind"]
    pm = model_pts(P, pk, model)
    qm = model_pts(Q, qk, model)
    with np.errstate(all="ignore"):
        rr = np.abs(r)
        on = np.maximum(np.abs(np.linalg.norm(pm - c, axis=-1) - rr),
                        np.abs(np.linalg.norm(qm - c, axis=-1) - rr)) / rr
        if model == "poincare":
            orth = np.abs(np.sum(c * c, axis=-1) - 1.0 - rr * rr) / (1.0 + rr * rr)
        else:
            orth = np.abs(c[..., -1]) / rr
        cen = np.linalg.norm(c - c_ref, axis=-1) / r_ref
        rad = np.abs(rr - r_ref) / r_ref
    judge_units(mon_c, on, t_on, "%s-circle/misses-endpoint/%s" % (kind, model),
                "the reported circle misses an endpoint of the %s" % kind, case_of, live)
    judge_units(mon_c, orth, t_on * 2, "%s-circle/not-orthogonal-to-boundary/%s" % (kind, model),
                "the reported circle does not meet the boundary at right angles",
                case_of, live)
    wellc = live & (t_c <= 1e-2)
    if np.any(live & ~wellc):
        mon_c.skip("centre comparison ill-conditioned (tolerance > 1e-2)")
    judge_units(mon_c, cen, t_c, "%s-circle/centre-differs-from-reference/%s" % (kind, model),
                "centre is not the reference centre of the geodesic's circle",
                case_of, wellc)
    judge_units(mon_c, rad, t_c, "%s-circle/radius-differs-from-reference/%s" % (kind, model),
                "radius is not the reference radius of the geodesic's circle",
                case_of, wellc)
    # --- arcs (dimension 2)
    if n != 2:
        return
    with np.errstate(all="ignore"):
        lam_p = 2.0 / np.clip(1.0 - np.sum(pm * pm, axis=-1), 1e-300, None) \
            if model == "poincare" else 1.0 / np.clip(pm[..., -1], 1e-300, None)
        lam_q = 2.0 / np.clip(1.0 - np.sum(qm * qm, axis=-1), 1e-300, None) \
            if model == "poincare" else 1.0 / np.clip(qm[..., -1], 1e-300, None)
        ends = rc.arc_points(c, rr, th, [0.0, 1.0])
        e_err = rc.unordered_pair_error(ends, np.stack([pm, qm], axis=-2)) / np.maximum(rr, 1e-300)
        X = rc.arc_points(c, rr, th, FRACS)
        span = rc.arc_span(th)
    # the library's Poincare / half-space coordinates of an *ideal* endpoint
    # carry sqrt(eps) ~ 1.5e-8 absolute error (square-root rule)
    anyideal = (pk == "ideal") | (qk == "ideal")
    with np.errstate(all="ignore"):
        t_ang = t_on * 4 + 1e-9 + np.where(anyideal, 1e-6 / np.maximum(rr, 1e-300), 0.0)
    arcs = live & (t_ang * rr < 0.05)
    if np.any(live & ~arcs):
        mon_a.skip("arc check ill-conditioned (nearly straight and short)")
    if not np.any(arcs):
        return
    units_note(run, mon_a.name, np.sum(arcs))
    judge_units(mon_a, e_err, t_ang, "%s-arc/angles-are-not-the-endpoints/%s" % (kind, model),
                "the points at the two reported angles are not the two endpoints",
                case_of, arcs)
    interior = arcs & (pk == "interior") & (qk == "interior")
    if np.any(interior):
        with np.errstate(all="ignore"):
            bd = np.max(rc.between_defect(pm, qm, X, model), axis=-1)
            t_b = 1e-6 + 2.5 * t_on * rr * np.maximum(lam_p, lam_q)
        wellb = interior & (t_b <= 0.02)
        if np.any(interior & ~wellb):
            mon_a.skip("betweenness ill-conditioned (tolerance > 0.02)")
        judge_units(mon_a, bd, t_b, "%s-arc/ccw-arc-not-on-segment/%s" % (kind, model),
                    "a point of the counter-clockwise arc between the reported angles "
                    "is outside the model or off the hyperbolic segment "
                    "(d(p,x)+d(x,q)-d(p,q))", case_of, wellb)
    withideal = arcs & ~((pk == "interior") & (qk == "interior"))
    if np.any(withideal):
        with np.errstate(all="ignore"):
            inside = np.all(rc.inside_model(X, model), axis=-1)
            tau, off = rc.chord_position(kp, kq, X, model)
            lo = np.min(tau, axis=-1)
            hi = np.max(tau, axis=-1)
            # position inside [0,1] (ideal ends are the chord's ends)
            out = np.maximum(np.maximum(-lo, hi - 1.0), 0.0) + np.max(off, axis=-1)
        bad = withideal & ~inside
        if np.any(bad):
            idx = tuple(np.argwhere(bad)[0])
            mon_a.fail("%s-arc/ccw-arc-outside-model/%s" % (kind, model),
                       "the counter-clockwise arc between the reported angles leaves "
                       "the model", case_of(idx))
        judge_units(mon_a, out, 1e-6 + 10 * t_on * np.maximum(1.0, rr),
                    "%s-arc/ccw-arc-not-on-geodesic/%s" % (kind, model),
                    "a point of the counter-clockwise arc is not on the Klein chord "
                    "between the endpoints", case_of, withideal & inside)
    run.note_class(kind + "-arc", model, "deg" if degrees else "rad",
                   "span>pi/2" if np.any(span[arcs] > math.pi / 2) else "span<=pi/2")


# ---------------------------------------------------------------------------
# setup: attach

def setup(run):
    from geometry_tools import hyperbolic as H
    from geometry_tools.utils import core as ucore

    m_ideal = run.monitor("ideal-endpoints", min_events=20)
    run.monitor("segment-circle", min_events=20)
    run.monitor("segment-arc", min_events=20)
    run.monitor("geodesic-circle", min_events=10)
    run.monitor("geodesic-arc", min_events=10)
    m_sub = run.monitor("subspace-sphere", min_events=20)
    m_bnd = run.monitor("boundary-sphere", min_events=5)
    m_horo = run.monitor("horosphere", min_events=10)
    m_harc = run.monitor("horoarc", min_events=5)
    m_util = run.monitor("arc-utils", min_events=20)
    run.monitor("units", min_events=5)
    for a in ("short_arc/flip", "short_arc/keep", "right_to_left/flip",
              "right_to_left/keep", "arc_include/swap", "arc_include/keep",
              "straight-limit-marker"):
        run.monitor("arm/" + a, min_events=1)

    # ---- ideal endpoints ---------------------------------------------------
    def judge_ideal(P, Q, N, what_fn, coords_model=None):
        """N: homogeneous ideal basis (..., 2, n+1) or model coords when
        coords_model is given."""
        if not finite(P, Q):
            return m_ideal.skip("non-finite endpoint data")
        pk = classify_endpoints(P)
        qk = classify_endpoints(Q)
        ok = np.isin(pk, ("interior", "ideal")) & np.isin(qk, ("interior", "ideal"))
        kp = klein_unit(P, pk)
        kq = klein_unit(Q, qk)
        with np.errstate(all="ignore"):
            sep = np.linalg.norm(kp - kq, axis=-1)
            ok = ok & (sep >= 1e-6)
        if coords_model == "halfspace":
            with np.errstate(all="ignore"):
                Eref = rc.ideal_endpoints(kp, kq)
                dinf = np.min(rc.inf_distance(Eref), axis=-1)
            ok = ok & (dinf >= INF_MARGIN)
        if np.any(~ok):
            m_ideal.skip("out of domain (exterior / coincident / near infinity)")
        if not np.any(ok):
            return
        units_note(run, m_ideal.name, np.sum(ok))
        with np.errstate(all="ignore"):
            D = P - Q
            a_rel = np.abs(rh.mink_sq(D)) / (np.sum(P * P, axis=-1) + np.sum(Q * Q, axis=-1))
        lightlike_diff = a_rel < 1e-9

        def case_of(idx):
            return {"function": what_fn, "P": P[idx], "Q": Q[idx],
                    "result": np.asarray(N)[idx], "klein_P": kp[idx], "klein_Q": kq[idx],
                    "minkowski_norm_of_P_minus_Q_rel": float(a_rel[idx])}
        Nf = as_float(N)
        if Nf is None:
            return m_ideal.skip("non-numeric result")
        fin = np.all(np.isfinite(Nf), axis=(-1, -2))
        bad = ok & ~fin
        if np.any(bad):
            idx = tuple(np.argwhere(bad)[0])
            cls = "lightlike-difference-of-representatives" if lightlike_diff[idx] else "generic"
            m_ideal.fail("ideal-endpoints/non-finite/" + cls,
                         "%s: non-finite ideal endpoints for two distinct points of "
                         "the closed ball (Minkowski norm of P-Q relative: %.3g)"
                         % (what_fn, float(a_rel[idx])), case_of(idx))
        ok = ok & fin
        if not np.any(ok):
            return
        with np.errstate(all="ignore"):
            tol = 1e-7 + 3e-13 / sep ** 2
            Eref = rc.ideal_endpoints(kp, kq)
        if coords_model is None:
            with np.errstate(all="ignore"):
                nullness = np.max(np.abs(rh.mink_sq(Nf)) / np.sum(Nf * Nf, axis=-1), axis=-1)
                kN = rc.klein_of_proj(Nf)
            judge_units(m_ideal, nullness, tol, "ideal-endpoints/not-lightlike",
                        "%s: an ideal endpoint is not lightlike (|<v,v>|/|v|^2)" % what_fn,
                        case_of, ok)
        else:
            kN = rc.model_to_klein(Nf, coords_model) if coords_model != "klein" else Nf
            if coords_model == "halfspace":
                tol = (1e-5 + 3e-7 / sep) * np.maximum(1.0, 0.3 / dinf) ** 2
            elif coords_model == "poincare":
                tol = 1e-5 + 3e-7 / sep
        with np.errstate(all="ignore"):
            tau, off = rc.chord_position(kp, kq, kN, "klein")
            coll = np.max(off, axis=-1)
            err = rc.unordered_pair_error(kN, Eref)
        judge_units(m_ideal, coll, tol, "ideal-endpoints/not-on-the-klein-line",
                    "%s: an ideal endpoint is not on the Klein line through the endpoints"
                    % what_fn, case_of, ok)
        judge_units(m_ideal, err, tol * 2, "ideal-endpoints/differ-from-reference",
                    "%s: ideal endpoints are not the two ideal points of the chord" % what_fn,
                    case_of, ok)

    def h_aux(call):
        if call.exc is not None:
            return
        end = as_float(call.args[1] if len(call.args) > 1 else call.kwargs.get("end_data"))
        if end is None or end.ndim < 2 or end.shape[-2] != 2:
            return m_ideal.skip("unexpected end_data")
        judge_ideal(end[..., 0, :], end[..., 1, :], call.result, "Segment._compute_aux_data")
    attach.wrap_attr(run, H.Segment, "_compute_aux_data", h_aux)

    def h_iec(call):
        if call.exc is not None:
            return
        self = call.args[0]
        model = model_name(call.bound().get("model"))
        if model not in ("klein", "poincare", "halfspace"):
            return m_ideal.skip("model %s" % model)
        end = as_float(self.proj_data)
        if end is None:
            return
        judge_ideal(end[..., 0, :], end[..., 1, :], call.result,
                    "Segment.ideal_endpoint_coords(%s)" % model, coords_model=model)
    attach.wrap_attr(run, H.Segment, "ideal_endpoint_coords", h_iec)

    # ---- circle parameters ----------------------------------------------------
    def h_segcirc(kind):
        def hook(call):
            if call.exc is not None:
                return
            self = call.args[0]
            b = call.bound()
            data = as_float(self.proj_data)
            if data is None or data.ndim < 2 or data.shape[-2] < 2:
                return
            P = data[..., 0, :]
            Q = data[..., 1, :]
            c, r, th = call.result

            def desc(idx):
                return {"object": type(self).__name__, "P": P[idx], "Q": Q[idx]}
            judge_circle(run, kind, P, Q, model_name(b.get("model")),
                         bool(b.get("degrees")), c, r, th, desc)
        return hook
    attach.wrap_attr(run, H.Segment, "circle_parameters", h_segcirc("segment"))
    attach.wrap_attr(run, H.Geodesic, "circle_parameters", h_segcirc("geodesic"))

    # ---- subspace spheres --------------------------------------------------------
    def h_sphere(call):
        if call.exc is not None:
            return
        self = call.args[0]
        model = model_name(call.bound().get("model"))
        if model not in ("poincare", "halfspace"):
            return m_sub.skip("model without sphere parameters")
        B = as_float(self.ideal_basis)
        if B is None or B.ndim < 2:
            return m_sub.skip("no numeric ideal basis")
        k = B.shape[-2]
        n = B.shape[-1] - 1
        if k < 2:
            return m_sub.skip("fewer than two ideal basis points")
        c = as_float(call.result[0])
        r = as_float(call.result[1])
        if c is None or r is None:
            return m_sub.skip("non-numeric result")
        shp = B.shape[:-2]
        if k > n:
            return m_sub.skip("more ideal points than a proper subspace has")
        kinds = classify_points(B)
        ok = np.all(kinds == "ideal", axis=-1)
        E = klein_unit(B, kinds)
        with np.errstate(all="ignore"):
            sig = rc.affine_independence(safe_basis(E, ok))
            ok = ok & (sig >= 1e-3)
            null_defect = np.max(np.abs(rh.mink_sq(B)) / np.sum(B * B, axis=-1), axis=-1)
        if model == "halfspace":
            with np.errstate(all="ignore"):
                dinf = np.min(rc.inf_distance(E), axis=-1)
            ok = ok & (dinf >= INF_MARGIN)
        if np.any(~ok):
            m_sub.skip("out of domain (basis not ideal / dependent / near infinity)")
        if not np.any(ok):
            return
        if c.shape != shp + (n,) or r.shape != shp:
            return m_sub.fail("subspace-sphere/result-shape/%s" % model,
                              "centre %r / radius %r shapes do not match %r"
                              % (c.shape, r.shape, shp))
        with np.errstate(all="ignore"):
            Es = safe_basis(E, ok)
            c_ref, r_ref = rc.subspace_sphere(Es, model)
            foot = np.linalg.norm(rc.affine_foot(Es), axis=-1)
        if model == "halfspace":
            # the subspace's ideal boundary as a whole must stay away from the
            # point at infinity (for two points 2/r >= their own distance)
            with np.errstate(all="ignore"):
                dinf = np.minimum(dinf, 2.0 / r_ref)
            far = ok & (dinf >= INF_MARGIN)
            if np.any(ok & ~far):
                m_sub.skip("ideal boundary passes near the point at infinity")
            ok = far
            if not np.any(ok):
                return
        cls = "ideal-basis=2" if k == 2 else "ideal-basis>=3"

        def key(what):
            if k >= 3:
                return F9_KEY
            return "subspace-sphere/%s/%s/%s" % (what, cls, model)

        def case_of(idx):
            return {"object": type(self).__name__, "model": model, "dimension": n,
                    "ideal_basis": B[idx], "centre": c[idx], "radius": r[idx],
                    "reference_centre": c_ref[idx], "reference_radius": r_ref[idx]}
        limit = np.zeros(shp, dtype=bool)
        if model == "poincare":
            limit = ok & (foot <= LIMIT_FOOT)
            if np.any(limit):
                with np.errstate(all="ignore"):
                    thr = np.minimum(1e12 * np.minimum(1.0, sig) ** 2,
                                     0.1 / np.maximum(null_defect, 1e-300))
                marker = ~np.isfinite(r) | (np.abs(r) > thr)
                bad = limit & ~marker
                if np.any(bad):
                    idx = tuple(np.argwhere(bad)[0])
                    m_sub.fail(key("finite-radius-in-flat-limit"),
                               "subspace through the origin but the radius %r is neither "
                               "non-finite nor > 1e12" % float(r[idx]), case_of(idx))
                else:
                    m_sub.ok()
        live = ok & ~limit
        if not np.any(live):
            return
        units_note(run, m_sub.name, np.sum(live))
        run.note_class("subspace-sphere", type(self).__name__, n, k, model)
        nonfin = live & ~(np.isfinite(r) & np.all(np.isfinite(c), axis=-1))
        if np.any(nonfin):
            idx = tuple(np.argwhere(nonfin)[0])
            m_sub.fail(key("non-finite"), "non-finite sphere parameters for an in-domain "
                       "subspace", case_of(idx))
            live = live & ~nonfin
            if not np.any(live):
                return
        Em = rc.model_of_klein(safe_basis(E, live), model, ideal=True)
        with np.errstate(all="ignore"):
            rr = np.abs(r)
            on = np.max(np.abs(np.linalg.norm(Em - c[..., None, :], axis=-1)
                               - rr[..., None]), axis=-1) / rr
            if model == "poincare":
                orth = np.abs(np.sum(c * c, axis=-1) - 1.0 - rr * rr) / (1.0 + rr * rr)
                base = 1e-7 + 30 * np.sqrt(null_defect)
                t_on = base
                t_c = base * np.maximum(1.0, r_ref) * 10 / np.minimum(1.0, sig)
            else:
                orth = np.abs(c[..., -1]) / rr
                amp = np.maximum(1.0, 0.3 / dinf) ** 2
                t_on = (1e-5 + 30 * np.sqrt(null_defect)) * amp / np.minimum(1.0, sig)
                t_c = t_on * 2
            cen = np.linalg.norm(c - c_ref, axis=-1) / r_ref
            rad = np.abs(rr - r_ref) / r_ref
        what = "Subspace.sphere_parameters (%d ideal basis points, H^%d, %s)" % (k, n, model)
        judge_units(m_sub, on, t_on, key("misses-ideal-point"),
                    what + ": the sphere misses an ideal point of the subspace's basis",
                    case_of, live)
        judge_units(m_sub, orth, t_on * 2, key("not-orthogonal-to-boundary"),
                    what + ": the sphere does not meet the boundary at right angles",
                    case_of, live)
        wellc = live & (t_c <= 1e-2)
        judge_units(m_sub, np.maximum(cen, rad), t_c, key("differs-from-reference"),
                    what + ": centre/radius are not those of the reference sphere "
                    "(pole of the affine span / circumsphere)", case_of, wellc)
        # further ideal points of the subspace (unit objects only, k >= 3 matters)
        extra = _ctx.get("extra_ideal")
        if extra is not None and shp == () and live:
            Xm = rc.model_of_klein(extra, model, ideal=True)
            with np.errstate(all="ignore"):
                miss = np.max(np.abs(np.linalg.norm(Xm - c, axis=-1) - rr)) / rr
            judge_units(m_sub, np.asarray(miss), np.asarray(t_on * 3), key("misses-ideal-point"),
                        what + ": the sphere misses a further ideal point of the subspace",
                        lambda idx: dict(case_of(()), extra_ideal_points=extra))
    # overrides=True: a subclass that answers sphere_parameters itself (seeded
    # change C14-r5-1: a closed-form Hyperplane.sphere_parameters) stays under
    # the same contract -- the sphere is judged against the object's ideal basis
    attach.wrap_attr(run, H.Subspace, "sphere_parameters", h_sphere, overrides=True)

    def h_bsphere(call):
        if call.exc is not None:
            return
        self = call.args[0]
        B = as_float(self.ideal_basis)
        if B is None or B.ndim < 2:
            return m_bnd.skip("no numeric ideal basis")
        c = as_float(call.result[0])
        r = as_float(call.result[1])
        if B.shape[-2] > B.shape[-1] - 1:
            return m_bnd.skip("more ideal points than a proper subspace has")
        kinds = classify_points(B)
        ok = np.all(kinds == "ideal", axis=-1)
        E = safe_basis(klein_unit(B, kinds), ok)
        with np.errstate(all="ignore"):
            sig = rc.affine_independence(E)
            dinf = np.min(rc.inf_distance(E), axis=-1)
            ok = ok & (sig >= 1e-3) & (dinf >= INF_MARGIN)
            nd = np.max(np.abs(rh.mink_sq(B)) / np.sum(B * B, axis=-1), axis=-1)
        if np.any(~ok):
            m_bnd.skip("out of domain")
        if not np.any(ok) or c is None or r is None:
            return
        Hb = rc.model_of_klein(E, "halfspace", ideal=True)[..., :-1]
        with np.errstate(all="ignore"):
            _, rb = rc.circumsphere(Hb)
            dinf = np.minimum(dinf, 2.0 / rb)
            ok = ok & (dinf >= INF_MARGIN)
        if not np.any(ok):
            return m_bnd.skip("ideal boundary passes near the point at infinity")
        with np.errstate(all="ignore"):
            on = np.max(np.abs(np.linalg.norm(Hb - c[..., None, :], axis=-1) - r[..., None]),
                        axis=-1) / np.abs(r)
            tol = (1e-5 + 30 * np.sqrt(nd)) * np.maximum(1.0, 0.3 / dinf) ** 2 / np.minimum(1.0, sig)
        units_note(run, m_bnd.name, np.sum(ok))
        run.note_class("boundary-sphere", B.shape[-1] - 1, B.shape[-2])
        judge_units(m_bnd, on, tol, "boundary-sphere/misses-ideal-point",
                    "boundary_sphere_parameters: the sphere in the boundary of the "
                    "half-space model misses an ideal basis point",
                    lambda idx: {"ideal_basis": B[idx], "centre": c[idx], "radius": r[idx]}, ok)
    attach.wrap_attr(run, H.Subspace, "boundary_sphere_parameters", h_bsphere, overrides=True)

    # ---- horospheres ----------------------------------------------------------------
    def horo_ref(self, model):
        data = as_float(self.proj_data)
        if data is None or data.ndim < 2 or data.shape[-2] < 2:
            return None
        Cv = data[..., 0, :]
        Rv = data[..., 1, :]
        ck = classify_endpoints(Cv)
        rk = classify_endpoints(Rv)
        ok = (ck == "ideal") & (rk == "interior")
        e = klein_unit(Cv, ck)
        kref = rc.klein_of_proj(Rv)
        dinf = None
        if model == "halfspace":
            with np.errstate(all="ignore"):
                dinf = np.minimum(rc.inf_distance(e), rc.inf_distance(kref))
            ok = ok & (dinf >= INF_MARGIN)
        return data, Cv, Rv, e, ok, dinf

    def judge_horo(mon, self, model, c, r, prefix):
        got = horo_ref(self, model)
        if got is None:
            mon.skip("no numeric data")
            return None
        data, Cv, Rv, e, ok, dinf = got
        c = as_float(c)
        r = as_float(r)
        if np.any(~ok):
            mon.skip("out of domain (centre not ideal / reference not interior / near infinity)")
        if not np.any(ok) or c is None or r is None:
            return None
        shp = ok.shape
        n = data.shape[-1] - 1
        if c.shape != shp + (n,) or r.shape != shp:
            mon.fail(prefix + "/result-shape/" + model, "centre %r / radius %r shapes do not "
                     "match %r" % (c.shape, r.shape, shp))
            return None
        safeR = np.where(ok[..., None], Rv, np.eye(n + 1)[0])
        safee = np.where(ok[..., None], e, np.eye(n)[-1])
        with np.errstate(all="ignore"):
            c_ref, r_ref = rc.horosphere_sphere(safee, safeR, model)
            pm = rc.model_of_proj(safeR, model)
            em = rc.model_of_klein(safee, model, ideal=True)
            on = np.abs(np.linalg.norm(pm - c, axis=-1) - r) / np.abs(r)
            at = np.abs(np.linalg.norm(em - c, axis=-1) - r) / np.abs(r)
            if model == "poincare":
                tang = np.abs(np.linalg.norm(c, axis=-1) + r - 1.0) / np.abs(r)
                amp = 1.0 / np.clip(1.0 - np.sum(safee * pm, axis=-1), 1e-300, None)
                tol = 2e-5 * np.maximum(1.0, amp * 0.3)
            else:
                tang = (np.abs(c[..., -1] - r) + np.linalg.norm(c[..., :-1] - em[..., :-1], axis=-1)) / np.abs(r)
                tol = 1e-5 * np.maximum(1.0, 0.3 / dinf) ** 2 * np.ones(shp)
            cen = np.maximum(np.linalg.norm(c - c_ref, axis=-1), np.abs(r - r_ref)) / r_ref

        def case_of(idx):
            return {"object": type(self).__name__, "model": model, "centre_vector": Cv[idx],
                    "reference_vector": Rv[idx], "sphere_centre": c[idx], "sphere_radius": r[idx],
                    "reference_sphere_centre": c_ref[idx], "reference_sphere_radius": r_ref[idx]}
        fin = np.isfinite(r) & np.all(np.isfinite(c), axis=-1)
        bad = ok & ~fin
        if np.any(bad):
            idx = tuple(np.argwhere(bad)[0])
            mon.fail(prefix + "/non-finite/" + model, "non-finite sphere for an in-domain "
                     "horosphere", case_of(idx))
        live = ok & fin
        if not np.any(live):
            return None
        units_note(run, mon.name, np.sum(live))
        judge_units(mon, on, tol, prefix + "/misses-reference-point/" + model,
                    "the horosphere's sphere misses its reference point", case_of, live)
        judge_units(mon, np.maximum(at, tang), tol, prefix + "/not-tangent-at-centre/" + model,
                    "the horosphere's sphere is not tangent to the boundary at the ideal centre",
                    case_of, live)
        judge_units(mon, cen, tol * 2, prefix + "/differs-from-reference/" + model,
                    "centre/radius differ from the reference horosphere (Busemann value)",
                    case_of, live)
        return data, e, live, tol, case_of

    def h_horo(call):
        if call.exc is not None:
            return
        self = call.args[0]
        model = model_name(call.bound().get("model"))
        if model not in ("poincare", "halfspace"):
            return m_horo.skip("model")
        c, r = call.result
        if judge_horo(m_horo, self, model, c, r, "horosphere") is not None:
            run.note_class("horosphere", np.asarray(self.proj_data).shape[-1] - 1, model,
                           type(self).__name__)
    attach.wrap_attr(run, H.Horosphere, "sphere_parameters", h_horo, overrides=True)

    def h_harc(call):
        self = call.args[0]
        b = call.bound()
        model = model_name(b.get("model"))
        if call.exc is not None or model not in ("poincare", "halfspace"):
            return
        c, r, th = call.result
        got = judge_horo(m_harc, self, model, c, r, "horoarc")
        if got is None:
            return
        data, e, live, tol, case_of0 = got
        if data.shape[-1] != 3 or data.shape[-2] < 3:
            return
        th = as_float(th)
        if th is None or th.shape != live.shape + (2,):
            return m_harc.fail("horoarc/result-shape/" + model, "thetas shape %r"
                               % (getattr(th, "shape", None),))
        if b.get("degrees"):
            th = th * (math.pi / 180.0)
        c = as_float(c)
        r = as_float(r)
        P1 = data[..., 1, :]
        P2 = data[..., 2, :]
        k2 = classify_endpoints(P2)
        live = live & (k2 == "interior")
        if model == "halfspace":
            with np.errstate(all="ignore"):
                live = live & (rc.inf_distance(rc.klein_of_proj(P2)) >= INF_MARGIN)
        if not np.any(live):
            return
        with np.errstate(all="ignore"):
            p1 = rc.model_of_proj(P1, model)
            p2 = rc.model_of_proj(P2, model)
            em = rc.model_of_klein(np.where(live[..., None], e, np.eye(2)[-1]), model, ideal=True)
            on2 = np.abs(np.linalg.norm(p2 - c, axis=-1) - r) / np.abs(r)
            ends = rc.arc_points(c, np.abs(r), th, [0.0, 1.0])
            e_err = rc.unordered_pair_error(ends, np.stack([p1, p2], axis=-2)) / np.abs(r)
            phi = np.arctan2(em[..., 1] - c[..., 1], em[..., 0] - c[..., 0])
            frac = rc.angle_in_ccw_arc(th, phi)
            a1 = np.arctan2(p1[..., 1] - c[..., 1], p1[..., 0] - c[..., 0])
            a2 = np.arctan2(p2[..., 1] - c[..., 1], p2[..., 0] - c[..., 0])
            gap = np.minimum(np.abs(np.angle(np.exp(1j * (a1 - phi)))),
                             np.abs(np.angle(np.exp(1j * (a2 - phi)))))
            sepang = np.abs(np.angle(np.exp(1j * (a1 - a2))))

        def case_of(idx):
            d = case_of0(idx)
            d.update({"endpoint_2_vector": P2[idx], "thetas_rad": th[idx],
                      "angle_of_ideal_centre": float(phi[idx])})
            return d
        # second endpoint must be on the same horosphere to be in domain
        live = live & (on2 <= 1e-4) & (gap >= 1e-3) & (sepang >= 1e-3)
        if not np.any(live):
            return m_harc.skip("endpoints not on one horosphere / too close to the centre")
        judge_units(m_harc, e_err, tol * 4 + 2e-4 * 0 + on2 * 2,
                    "horoarc/angles-are-not-the-endpoints/" + model,
                    "the points at the two reported angles are not the two endpoints",
                    case_of, live)
        shape_cls = "unit" if live.shape == () else ("single" if live.size == 1 else "composite")
        bad = live & (frac > 0.0) & (frac < 1.0)
        if np.any(bad):
            idx = tuple(np.argwhere(bad)[0])
            m_harc.fail("horoarc/ccw-arc-contains-ideal-centre/%s/%s" % (shape_cls, model),
                        "the counter-clockwise arc between the reported angles passes "
                        "through the horosphere's ideal centre (the complementary arc "
                        "of the horospherical arc between the endpoints); %d of %d units"
                        % (int(np.sum(bad)), int(np.sum(live))), case_of(idx))
        else:
            m_harc.ok()
        run.note_class("horoarc", model, shape_cls)
    attach.wrap_attr(run, H.HorosphereArc, "circle_parameters", h_harc)

    # ---- utils contracts + branch arms ----------------------------------------------------
    def angles_equal_as_sets(a, b):
        a = np.asarray(a, dtype=float)
        b = np.asarray(b, dtype=float)
        za, zb = np.exp(1j * a), np.exp(1j * b)
        d = np.max(np.abs(za - zb), axis=-1)
        s = np.max(np.abs(za - zb[..., ::-1]), axis=-1)
        return np.minimum(d, s), (s < d)

    def numeric_pairs(x):
        x = as_float(x)
        if x is None or x.ndim < 1 or x.shape[-1] != 2 or not finite(x):
            return None
        return x

    def h_short(call):
        if call.exc is not None:
            return
        th = numeric_pairs(call.args[0] if call.args else call.kwargs.get("thetas"))
        out = numeric_pairs(call.result)
        if th is None or out is None or out.shape != th.shape:
            return m_util.skip("short_arc: non-numeric")
        dev, swapped = angles_equal_as_sets(th, out)
        span = rc.arc_span(out)
        s = np.sort(np.mod(th, rc.TWO_PI), axis=-1)
        flip = (s[..., 1] - s[..., 0]) > math.pi
        arm(run, "short_arc/flip", int(np.sum(flip)))
        arm(run, "short_arc/keep", int(np.sum(~flip)))
        case = lambda idx: {"function": "short_arc", "thetas": th[idx], "result": out[idx]}
        judge_units(m_util, dev, 1e-9, "arc-utils/short_arc/angles-changed",
                    "short_arc returned angles that are not the input angles", case)
        judge_units(m_util, np.maximum(span - math.pi, 0.0), 1e-9,
                    "arc-utils/short_arc/ccw-arc-longer-than-pi",
                    "short_arc: the counter-clockwise arc of the result is the long one", case)
    attach.wrap_everywhere(run, ucore.short_arc, h_short)

    def h_r2l(call):
        if call.exc is not None:
            return
        th = numeric_pairs(call.args[0] if call.args else call.kwargs.get("thetas"))
        out = numeric_pairs(call.result)
        if th is None or out is None or out.shape != th.shape:
            return m_util.skip("right_to_left: non-numeric")
        dev, _ = angles_equal_as_sets(th, out)
        flip = np.cos(th[..., 0]) < np.cos(th[..., 1])
        arm(run, "right_to_left/flip", int(np.sum(flip)))
        arm(run, "right_to_left/keep", int(np.sum(~flip)))
        case = lambda idx: {"function": "right_to_left", "thetas": th[idx], "result": out[idx]}
        judge_units(m_util, dev, 1e-9, "arc-utils/right_to_left/angles-changed",
                    "right_to_left returned angles that are not the input angles", case)
        judge_units(m_util, np.maximum(np.cos(out[..., 1]) - np.cos(out[..., 0]), 0.0), 1e-12,
                    "arc-utils/right_to_left/not-right-to-left",
                    "right_to_left: the result does not go from the right angle to the left one",
                    case)
    attach.wrap_everywhere(run, ucore.right_to_left, h_r2l)

    def h_inc(call):
        b = call.bound()
        th = numeric_pairs(b.get("thetas"))
        ref = as_float(b.get("reference_theta"))
        if th is None or ref is None or not finite(ref) or ref.shape != th.shape[:-1]:
            return m_util.skip("arc_include: non-numeric or shape mismatch")
        if call.exc is not None:
            cls = "single-angle-pair" if th.ndim == 1 else "array"
            return m_util.fail("arc-utils/arc_include/exception:%s/%s"
                               % (type(call.exc).__name__, cls),
                               "arc_include raised %s: %s for %s" % (
                                   type(call.exc).__name__, str(call.exc)[:120],
                                   "one pair of angles and one reference angle"
                                   if th.ndim == 1 else "arrays of angle pairs"),
                               {"function": "arc_include", "thetas": th, "reference_theta": ref},
                               tb="".join(traceback.format_exception(
                                   type(call.exc), call.exc, call.exc.__traceback__)))
        out = numeric_pairs(call.result)
        if out is None or out.shape != th.shape:
            return m_util.skip("arc_include: non-numeric result")
        dev, _ = angles_equal_as_sets(th, out)
        frac = rc.angle_in_ccw_arc(out, ref)
        # general position: reference away from both ends, ends distinct
        z = np.exp(1j * th)
        gp = np.all(np.abs(th) <= math.pi + 1e-12, axis=-1) & (np.abs(ref) <= math.pi + 1e-12) & \
             (np.abs(z[..., 0] - z[..., 1]) > 1e-6) & \
             (np.abs(np.exp(1j * ref) - z[..., 0]) > 1e-6) & \
             (np.abs(np.exp(1j * ref) - z[..., 1]) > 1e-6)
        swapped = np.abs(np.exp(1j * out[..., 0]) - z[..., 0]) > 1e-7
        arm(run, "arc_include/swap", int(np.sum(gp & swapped)))
        arm(run, "arc_include/keep", int(np.sum(gp & ~swapped)))
        case = lambda idx: {"function": "arc_include", "thetas": th[idx],
                            "reference_theta": ref[idx], "result": out[idx]}
        judge_units(m_util, dev, 1e-9, "arc-utils/arc_include/angles-changed",
                    "arc_include returned angles that are not the input angles", case)
        if np.any(gp):
            bad = gp & ~(frac < 1.0)
            if np.any(bad):
                idx = tuple(np.argwhere(bad)[0])
                m_util.fail("arc-utils/arc_include/reference-not-in-ccw-arc",
                            "arc_include: the reference angle is not inside the "
                            "counter-clockwise arc of the result", case(idx))
            else:
                m_util.ok()
    attach.wrap_everywhere(run, ucore.arc_include, h_inc)

    def h_angles(call):
        if call.exc is not None:
            return
        b = call.bound()
        cen = as_float(b.get("center"))
        co = as_float(b.get("coords"))
        out = as_float(call.result)
        if cen is None or co is None or out is None or not finite(cen, co):
            return m_util.skip("circle_angles: non-numeric")
        if cen.shape[-1:] != (2,) or co.shape[-1:] != (2,):
            return m_util.skip("circle_angles: dimension other than 2")
        if co.ndim != cen.ndim + 1 \
                or co.shape[:-2] != cen.shape[:-1] or out.shape != co.shape[:-1]:
            m_util.diag("circle_angles called without a unit axis on coords "
                        "(centre %r, coords %r)" % (cen.shape, co.shape))
            return m_util.skip("circle_angles: coords lack the unit axis")
        d = co - cen[..., None, :]
        rad = np.linalg.norm(d, axis=-1)
        if np.any(rad == 0):
            return m_util.skip("circle_angles: point at the centre")
        rec = rad[..., None] * np.stack([np.cos(out), np.sin(out)], axis=-1)
        err = np.max(np.linalg.norm(rec - d, axis=-1) / rad, axis=-1)
        judge_units(m_util, err, 1e-9, "arc-utils/circle_angles/wrong-angle",
                    "circle_angles: centre + |d|(cos t, sin t) is not the point",
                    lambda idx: {"function": "circle_angles", "center": cen[idx],
                                 "coords": co[idx], "result": out[idx]})
    attach.wrap_everywhere(run, ucore.circle_angles, h_angles)

    def h_inv(call):
        if call.exc is not None:
            return
        p = as_float(call.args[0] if call.args else call.kwargs.get("points"))
        out = as_float(call.result)
        if p is None or out is None or not finite(p) or out.shape != p.shape:
            return m_util.skip("sphere_inversion: non-numeric")
        nn = np.sum(p * p, axis=-1)
        okm = nn > 1e-24
        if not np.any(okm):
            return m_util.skip("sphere_inversion: at the origin")
        with np.errstate(all="ignore"):
            err = np.linalg.norm(out * nn[..., None] - p, axis=-1) / np.sqrt(nn)
        judge_units(m_util, err, 1e-9, "arc-utils/sphere_inversion/not-v-over-norm-squared",
                    "sphere_inversion(v) * |v|^2 is not v",
                    lambda idx: {"function": "sphere_inversion", "points": p[idx],
                                 "result": out[idx]}, okm)
    attach.wrap_everywhere(run, ucore.sphere_inversion, h_inv)

    def h_through(call):
        if call.exc is not None:
            return
        p = as_float(call.args[0] if call.args else call.kwargs.get("points"))
        if p is None or not finite(p) or p.ndim < 2:
            return m_util.skip("sphere_through: non-numeric")
        c = as_float(call.result[0])
        r = as_float(call.result[1])
        if c is None or r is None:
            return m_util.skip("sphere_through: non-numeric result")
        D = p[..., 1:, :] - p[..., :1, :]
        with np.errstate(all="ignore"):
            sv = np.linalg.svd(D, compute_uv=False)
            cond = sv[..., 0] / sv[..., -1]
        okm = np.isfinite(cond) & (cond < 1e4) & np.isfinite(r)
        if not np.any(okm):
            return m_util.skip("sphere_through: dependent points")
        with np.errstate(all="ignore"):
            err = np.max(np.abs(np.linalg.norm(p - c[..., None, :], axis=-1) - r[..., None]),
                         axis=-1) / np.abs(r)
        judge_units(m_util, err, 1e-9 * np.maximum(1.0, cond) ** 2,
                    "arc-utils/sphere_through/misses-a-point",
                    "sphere_through: a given point is not on the returned sphere",
                    lambda idx: {"function": "sphere_through", "points": p[idx],
                                 "centre": c[idx], "radius": r[idx]}, okm)
    attach.wrap_everywhere(run, ucore.sphere_through, h_through)


from .c14_workloads import WORKLOADS  # noqa: E402  (workloads live in a sibling file)
