"""C18 -- the indefinite linear-algebra helpers meet their stated contracts.

All monitors are postconditions attached *directly on the utils functions*
(attach.wrap_everywhere rebinding every alias), so they judge the workload's
explicit calls and the thousands of internal calls made by higher-level
library code (origin_to, spacelike_to, reflections, circle parameters, drawn
arcs).  Every call is first classified by an independent predicate
(gtmon.ref.lin) and judged only if in-domain.

Monitors (one per function)
  indefinite_orthogonalize  rows mutually form-orthogonal, square-norm +-1 with
                            the sign pattern predicted by Jacobi's rule, same flag
  find_isometry             (..,n,n), rows form-orthonormal with the form's
                            signature, det>0 on request, leading rows span the flag
  find_definite_isometry    documented contract: (..,k,n) -> (..,n,n) orthogonal,
                            det>0 on request, leading rows span the flag
  orthogonal_complement     n-k independent rows, form-orthogonal to the input,
                            +-1 orthonormal when normalize='form'
  diagonalize_form          W^T B W = diag(+-1) in the requested order (either
                            order on a minkowski tie), right signature, W Winv = I
  kernel                    (utils.kernel and numerical.svd_kernel, all return
                            layouts) annihilated, orthonormal, right dimension
  sphere_through / circle_through   every given point is on the sphere
  short_arc / right_to_left / arc_include   same two angles, right order
"""
import math
import traceback

import numpy as np

from ..run import Workload
from .. import attach
from ..ref import lin
from ..ref import hyp as rh

ID = "C18"
RULE = ("cases = (helper, signature (p,q) with p+q<=6 as Q^T D Q with cond(Q)<=50 "
        "or Minkowski/exact integer forms, k=1..n rows, batch shape in "
        "{(),(3,),(2,2),(1,2)}, conditioning class {bulk: Gram pivots>=0.05, "
        "stressed: pivots in [1e-3,0.05], exact}); kernels of m x n for all "
        "m,n<=6 and every rank; spheres through k+2 points in R^(k+1), k=0..4; "
        "angle pairs incl. boundary values and ties in batch shapes (),(k,),(a,b); "
        "ambient = the same monitors judging the internal calls of hyperbolic "
        "constructions and drawings; non-trivial = in-domain by the independent "
        "predicate; distinct = distinct (helper, signature or m x n x rank, k, "
        "batch shape, class, option) signatures")
ASSUMPTIONS = [
    "in-domain = form symmetric and non-degenerate (|eigenvalues| >= 1e-3*max), "
    "leading Gram minors/pivots of the normalised rows >= 1e-3, singular values "
    "either < 1e-2*tolerance or > 1e2*tolerance, simplex edge matrix with "
    "smallest singular value >= 1e-3, angles finite and in (-2pi,2pi) "
    "(short_arc) resp. [-pi,pi] (right_to_left, arc_include); everything else "
    "is counted as out of domain and not judged",
    "diagonalize_form(order_eigenvalues='minkowski') on a signature tie may put "
    "either sign first (the statement leaves ties open; code and docstring differ)",
    "find_isometry / orthogonal_complement(normalize='form') orthogonalise an "
    "SVD basis of the complement; when that *internal* call is out of domain "
    "(a nearly null basis vector of an indefinite complement) the outer call is "
    "judged only for shape and for orthogonality to the input",
    "real forms and rows only (C18 quantifies over real symmetric forms); kernels "
    "are judged for real and complex matrices",
    "at most 48 units of a batched call are judged (evenly spaced)",
    "angle ties (arcs of length pi, equal cosines, reference on an endpoint) "
    "within 1e-9 accept either order",
]
_CORE = "geometry_tools/utils/core.py"
ANCHORS = [(_CORE, q) for q in (
    "projection", "indefinite_orthogonalize", "find_isometry",
    "find_definite_isometry", "make_orientation_preserving",
    "orthogonal_complement", "diagonalize_form", "permute_along_axis",
    "construct_diagonal", "kernel", "circle_through", "sphere_through",
    "circle_angles", "short_arc", "right_to_left", "arc_include", "normalize")] + [
    ("geometry_tools/utils/numerical.py", "svd_kernel")]
REQUIRED = [
    (_CORE, "indefinite_orthogonalize", "row -= projection(row, result[..., j, :], form)"),
    (_CORE, "indefinite_orthogonalize", "return normalize(matrices, form)"),
    (_CORE, "find_isometry", "iso = make_orientation_preserving(iso)"),
    (_CORE, "find_isometry", "orth_partial = np.expand_dims(orth_partial, axis=0)"),
    (_CORE, "find_definite_isometry", "iso = make_orientation_preserving(iso)"),
    (_CORE, "make_orientation_preserving", "preserved[det(preserved) < 0, -1, :] *= -1"),
    (_CORE, "orthogonal_complement", "return indefinite_orthogonalize(form, kernel_basis)"),
    (_CORE, "orthogonal_complement", "return kernel_basis"),
    (_CORE, "diagonalize_form", "flip[num_negative < num_positive] = -1"),
    (_CORE, "diagonalize_form", "order = np.flip(order)"),
    (_CORE, "diagonalize_form", "return W"),
    (_CORE, "short_arc", "shifted_thetas[to_flip] = np.flip(shifted_thetas[to_flip], axis=-1)"),
    (_CORE, "right_to_left", "flipped_thetas[to_flip] = np.flip(thetas[to_flip], axis=-1)"),
    (_CORE, "arc_include", "s_thetas[to_swap] = np.flip(s_thetas[to_swap], axis=-1)"),
    ("geometry_tools/utils/numerical.py", "svd_kernel", "kernel_dim = min_kernel_dim"),
    ("geometry_tools/utils/numerical.py", "svd_kernel", "return (possible_dims, tuple(kernel_bases), tuple(kernel_dim_loc))"),
]

TOL_G = 1e-8        # scaled Gram residuals (pinned tree: <= 3e-13 down to pivots 1e-4)
TOL_FLAG = 1e-7     # out-of-span components (pinned tree: <= 4e-13)
PIV = 1e-3          # general-position margin on Gram pivots / minors
EIG = 1e-3          # non-degeneracy margin on form eigenvalues
MAX_UNITS = 48
TIE = 1e-9

_trace = []         # verdicts of indefinite_orthogonalize calls, newest last
_state = {"run": None}


# ---------------------------------------------------------------------------
# helpers

def _units(batch):
    """evenly spaced sample of at most MAX_UNITS indices of a batch shape."""
    total = int(np.prod(batch)) if len(batch) else 1
    idxs = list(np.ndindex(*batch)) if len(batch) else [()]
    if total <= MAX_UNITS:
        return idxs
    step = total / float(MAX_UNITS)
    return [idxs[int(i * step)] for i in range(MAX_UNITS)]


def _real_array(x):
    try:
        a = np.asarray(x)
    except Exception:
        return None
    if a.dtype.kind not in "biuf":
        return None
    return a


def _form_class(F, n):
    """-> (Fmat or None, reason, n_pos, n_neg)."""
    if F is None:
        return np.eye(n), None, n, 0
    Fa = _real_array(F)
    if Fa is None:
        return None, "form not real-numeric", 0, 0
    if Fa.ndim != 2 or Fa.shape != (n, n):
        return None, "form is not a single n x n matrix", 0, 0
    if not np.all(np.isfinite(Fa)):
        return None, "form not finite", 0, 0
    Fa = Fa.astype(float)
    if lin.sym_defect(Fa) > 1e-9:
        return None, "form not symmetric", 0, 0
    p, q, ok = lin.signature(Fa, EIG)
    if not ok:
        return None, "form degenerate (|eigenvalue| < 1e-3 max)", p, q
    return Fa, None, p, q


def _scaled_gram_residual(rows, F):
    """max |G - diag(sign diag G)| / max(1, |r_i||r_j||F|) with G = rows F rows^T;
    returns (residual, signs of the diagonal)."""
    G = rows @ F @ rows.T
    nr = np.linalg.norm(rows, axis=-1)
    sc = np.maximum(1.0, np.outer(nr, nr) * lin.spectral_norm(F))
    sg = np.sign(np.diag(G))
    if G.size == 0:
        return 0.0, sg
    return float(np.max(np.abs(G - np.diag(sg)) / sc)), sg


def _copy_args(call):
    out = []
    for a in call.args:
        out.append(a.copy() if isinstance(a, np.ndarray) else a)
    kw = {k: (v.copy() if isinstance(v, np.ndarray) else v)
          for k, v in call.kwargs.items()}
    return out, kw, len(_trace)


def _bind(call, state):
    """argument dict with the *pre-call copies* of array arguments."""
    import inspect
    args, kw, mark = state
    try:
        ba = inspect.signature(call.func).bind(*args, **kw)
        ba.apply_defaults()
        return dict(ba.arguments), mark
    except Exception:
        return {}, mark


def _exc_key(name, exc, cls):
    return "%s/exception:%s/%s" % (name, type(exc).__name__, cls)


def _first_sight(exc):
    """an exception propagating through nested monitored helpers is judged
    once, by the innermost one."""
    if getattr(exc, "_gtmon_seen", False):
        return False
    try:
        exc._gtmon_seen = True
    except Exception:
        pass
    return True


def _tb(exc):
    return "".join(traceback.format_exception(type(exc), exc, exc.__traceback__))[-3000:]


# ---------------------------------------------------------------------------
# hooks

def hook_indefinite_orthogonalize(call, state):
    run = _state["run"]
    mon = run.monitor("indefinite_orthogonalize")
    b, _ = _bind(call, state)
    M = _real_array(b.get("matrices"))
    verdict = {"in_domain": False}
    _trace.append(verdict)
    if M is None or M.ndim < 1:
        return mon.skip("rows not real-numeric")
    n = M.shape[-1]
    F, why, p, q = _form_class(b.get("form"), n)
    if F is None:
        return mon.skip(why)
    if not np.all(np.isfinite(M)):
        return mon.skip("rows not finite")
    M = M.astype(float)
    case = {"function": "indefinite_orthogonalize", "form": F, "rows": M if M.size <= 200 else M.shape}
    one_d = M.ndim < 2
    rows_all = M[None, :] if one_d else M
    k = rows_all.shape[-2]
    batch = rows_all.shape[:-2]
    if k > n:
        return mon.skip("more rows than dimensions")
    # classify every judged unit
    units = _units(batch)
    ok_units = []
    for ix in units:
        minors, piv = lin.pivots(rows_all[ix], F)
        if k == 0 or (np.min(np.abs(piv)) >= PIV and np.min(np.abs(minors)) >= PIV ** k):
            ok_units.append((ix, piv))
    all_units_ok = len(ok_units) == len(units)
    verdict["in_domain"] = all_units_ok
    if not ok_units:
        return mon.skip("rows not in general position (Gram pivot < 1e-3)")
    cls = "1-d" if one_d else ("batch" if batch else "unit")
    if call.exc is not None and not _first_sight(call.exc):
        return mon.skip("exception already judged at an inner monitored call")
    if call.exc is not None:
        if all_units_ok:
            mon.fail(_exc_key("indefinite_orthogonalize", call.exc, cls),
                     "indefinite_orthogonalize raised %s: %s on an in-domain input"
                     % (type(call.exc).__name__, str(call.exc)[:160]), case, tb=_tb(call.exc))
        return
    out = _real_array(call.result)
    if out is None or out.shape != M.shape:
        return mon.fail("indefinite_orthogonalize/shape/%s" % cls,
                        "result shape %r != input shape %r"
                        % (getattr(call.result, "shape", None), M.shape), case)
    out_all = out[None, :] if one_d else out
    for ix, piv in ok_units:
        o = out_all[ix].astype(float)
        r = rows_all[ix]
        c = dict(case, unit=list(ix), rows=r, result=o)
        if not np.all(np.isfinite(o)):
            mon.fail("indefinite_orthogonalize/non-finite/%s" % cls,
                     "non-finite output for rows in general position", c)
            continue
        res, sg = _scaled_gram_residual(o, F)
        if not mon.judge(res, TOL_G, "indefinite_orthogonalize/not-orthonormal/%s" % cls,
                         "output rows are not mutually form-orthogonal with square-norm +-1", c):
            continue
        if not mon.require(np.array_equal(sg, np.sign(piv)),
                           "indefinite_orthogonalize/norm-signs/%s" % cls,
                           "signs of the output square-norms %r differ from the signs "
                           "forced by the leading Gram minors %r" % (sg.tolist(), np.sign(piv).tolist()), c):
            continue
        fl = max([lin.out_of_span(o[j:j + 1], r[:j + 1]) for j in range(k)] or [0.0])
        mon.judge(fl, TOL_FLAG, "indefinite_orthogonalize/flag/%s" % cls,
                  "first j output rows do not span the first j input rows", c)


def hook_find_isometry(call, state):
    run = _state["run"]
    mon = run.monitor("find_isometry")
    b, mark = _bind(call, state)
    inner = _trace[mark:]
    M = _real_array(b.get("partial_map"))
    if M is None or M.ndim < 1:
        return mon.skip("rows not real-numeric")
    n = M.shape[-1]
    F, why, p, q = _form_class(b.get("form"), n)
    if F is None:
        return mon.skip(why)
    if not np.all(np.isfinite(M)):
        return mon.skip("rows not finite")
    M = M.astype(float)
    fo = bool(b.get("force_oriented"))
    rows_all = M[None, :] if M.ndim < 2 else M
    k = rows_all.shape[-2]
    batch = rows_all.shape[:-2]
    if k > n or k == 0:
        return mon.skip("k = 0 or more rows than dimensions")
    units = _units(batch)
    ok_units = []
    for ix in units:
        minors, piv = lin.pivots(rows_all[ix], F)
        if np.min(np.abs(piv)) >= PIV and np.min(np.abs(minors)) >= PIV ** k:
            ok_units.append(ix)
    if len(ok_units) < len(units):
        return mon.skip("rows not in general position (Gram pivot < 1e-3)")
    cls = "k=n" if k == n else ("1-d" if M.ndim < 2 else ("batch" if batch else "unit"))
    case = {"function": "find_isometry", "form": F,
            "partial_map": M if M.size <= 200 else M.shape, "force_oriented": fo}
    if call.exc is not None and not _first_sight(call.exc):
        return mon.skip("exception already judged at an inner monitored call")
    if call.exc is not None:
        return mon.fail(_exc_key("find_isometry", call.exc, cls),
                        "find_isometry raised %s: %s on an in-domain input"
                        % (type(call.exc).__name__, str(call.exc)[:160]), case, tb=_tb(call.exc))
    out = _real_array(call.result)
    want = batch + (n, n)
    if out is None or out.shape != want:
        return mon.fail("find_isometry/shape/%s" % cls,
                        "result shape %r, expected %r (k=%d rows given in R^%d)"
                        % (getattr(call.result, "shape", None), want, k, n), case)
    inner_ok = len(inner) >= 1 and all(v["in_domain"] for v in inner)
    for ix in ok_units:
        iso = out[ix].astype(float)
        r = rows_all[ix]
        c = dict(case, unit=list(ix), partial_map=r, result=iso)
        fl = max(lin.out_of_span(iso[j:j + 1], r[:j + 1]) for j in range(k))
        if not np.all(np.isfinite(iso)):
            if inner_ok:
                mon.fail("find_isometry/non-finite/%s" % cls, "non-finite output", c)
            else:
                mon.skip("internal orthogonalisation of the complement out of domain")
            continue
        if not mon.judge(fl, TOL_FLAG, "find_isometry/flag/%s" % cls,
                         "leading rows of the result do not span the given flag", c):
            continue
        if not inner_ok:
            mon.skip("internal orthogonalisation of the complement out of domain")
            continue
        res, sg = _scaled_gram_residual(iso, F)
        if not mon.judge(res, TOL_G, "find_isometry/not-form-orthonormal/%s" % cls,
                         "rows of the result are not orthonormal (+-1) for the form", c):
            continue
        if not mon.require(int(np.sum(sg > 0)) == p and int(np.sum(sg < 0)) == q,
                           "find_isometry/signature/%s" % cls,
                           "row square-norm signs %r do not have the form's signature (%d,%d)"
                           % (sg.tolist(), p, q), c):
            continue
        if fo:
            d = float(np.linalg.det(iso))
            mon.require(d > 0, "find_isometry/orientation/%s" % cls,
                        "force_oriented=True but det = %g" % d, c)


def hook_find_definite_isometry(call, state):
    run = _state["run"]
    mon = run.monitor("find_definite_isometry")
    b, _ = _bind(call, state)
    M = _real_array(b.get("partial_map"))
    if M is None or M.ndim < 1 or M.size == 0:
        return mon.skip("rows not real-numeric")
    if not np.all(np.isfinite(M)):
        return mon.skip("rows not finite")
    M = M.astype(float)
    fo = bool(b.get("force_oriented"))
    n = M.shape[-1]
    one_d = M.ndim < 2
    rows_all = M[None, :] if one_d else M
    k = rows_all.shape[-2]
    batch = rows_all.shape[:-2]
    if k > n:
        return mon.skip("column-vector layout (h > w) is not documented")
    units = _units(batch)
    for ix in units:
        minors, piv = lin.pivots(rows_all[ix], None)
        if np.min(np.abs(piv)) < PIV or np.min(np.abs(minors)) < PIV ** k:
            return mon.skip("rows not in general position (Gram pivot < 1e-3)")
    cls = "1-d" if one_d else ("batch" if batch else ("k=n" if k == n else "k<n"))
    case = {"function": "find_definite_isometry",
            "partial_map": M if M.size <= 200 else M.shape, "force_oriented": fo}
    if call.exc is not None and not _first_sight(call.exc):
        return mon.skip("exception already judged at an inner monitored call")
    if call.exc is not None:
        return mon.fail(_exc_key("find_definite_isometry", call.exc, cls),
                        "find_definite_isometry raised %s: %s on a documented (...,k,n) input"
                        % (type(call.exc).__name__, str(call.exc)[:160]), case, tb=_tb(call.exc))
    out = _real_array(call.result)
    want = batch + (n, n)
    if out is None or out.shape != want:
        return mon.fail("find_definite_isometry/shape/%s" % cls,
                        "result shape %r, expected %r" % (getattr(call.result, "shape", None), want), case)
    for ix in units:
        iso = out[ix].astype(float)
        r = rows_all[ix]
        c = dict(case, unit=list(ix), partial_map=r, result=iso)
        res = float(np.max(np.abs(iso @ iso.T - np.eye(n))))
        if not mon.judge(res, TOL_G, "find_definite_isometry/not-orthogonal/%s" % cls,
                         "result is not an orthogonal matrix", c):
            continue
        if fo:
            d = float(np.linalg.det(iso))
            if not mon.require(d > 0, "find_definite_isometry/orientation/%s" % cls,
                               "force_oriented=True but det = %g" % d, c):
                continue
        fl_rows = max(lin.out_of_span(iso[j:j + 1], r[:j + 1]) for j in range(k))
        fl_cols = max(lin.out_of_span(iso.T[j:j + 1], r[:j + 1]) for j in range(k))
        if one_d:
            # a single vector is reshaped to a column by the function itself
            # (undocumented): accept the frame in rows or in columns
            mon.judge(min(fl_rows, fl_cols), TOL_FLAG,
                      "find_definite_isometry/flag/%s%s" % (cls, "/force_oriented" if fo else ""),
                      "the given vector spans neither the first row nor the first "
                      "column of the result", c)
        else:
            mon.judge(fl_rows, TOL_FLAG, "find_definite_isometry/flag-not-in-leading-rows/%s" % cls,
                      "first j rows of the result do not span the first j given rows "
                      "(the leading *columns* %s)" % ("do" if fl_cols <= TOL_FLAG else "do not either"), c)


def hook_orthogonal_complement(call, state):
    run = _state["run"]
    mon = run.monitor("orthogonal_complement")
    b, mark = _bind(call, state)
    inner = _trace[mark:]
    M = _real_array(b.get("vectors"))
    if M is None or M.ndim < 2:
        return mon.skip("vectors not a real (...,k,n) array")
    n = M.shape[-1]
    k = M.shape[-2]
    batch = M.shape[:-2]
    F, why, p, q = _form_class(b.get("form"), n)
    if F is None:
        return mon.skip(why)
    if not np.all(np.isfinite(M)) or k == 0 or k > n:
        return mon.skip("vectors not finite / k = 0 / k > n")
    M = M.astype(float)
    nm = b.get("normalize")
    units = _units(batch)
    for ix in units:
        # independent rows (Euclidean) and non-degenerate Gram matrix
        s = lin.sing(M[ix] / np.maximum(np.linalg.norm(M[ix], axis=-1, keepdims=True), 1e-300))
        minors, piv = lin.pivots(M[ix], F)
        if s[-1] < PIV or abs(minors[-1]) < PIV ** k:
            return mon.skip("vectors dependent or span degenerate for the form")
        # the complement is read off kernel(vectors @ form), whose rank decision
        # uses the documented absolute tolerance 1e-8: same margin as for the
        # kernel contract itself (ASSUMPTIONS)
        if lin.sing(M[ix] @ F)[-1] < 1e2 * 1e-8:
            return mon.skip("singular values of vectors@form within 1e2 of the kernel tolerance")
    cls = "%s/%s" % (nm, "batch" if batch else "unit")
    case = {"function": "orthogonal_complement", "form": F,
            "vectors": M if M.size <= 200 else M.shape, "normalize": nm}
    inner_ok = all(v["in_domain"] for v in inner)
    if call.exc is not None and not _first_sight(call.exc):
        return mon.skip("exception already judged at an inner monitored call")
    if call.exc is not None:
        if nm == "form" and not inner_ok:
            return mon.skip("internal orthogonalisation out of domain")
        return mon.fail(_exc_key("orthogonal_complement", call.exc, cls),
                        "orthogonal_complement raised %s: %s" % (type(call.exc).__name__, str(call.exc)[:160]),
                        case, tb=_tb(call.exc))
    out = _real_array(call.result)
    want = batch + (n - k, n)
    if out is None or out.shape != want:
        return mon.fail("orthogonal_complement/shape/%s" % cls,
                        "result shape %r, expected %r" % (getattr(call.result, "shape", None), want), case)
    if nm == "form" and not inner_ok:
        return mon.skip("internal orthogonalisation out of domain")
    fn = lin.spectral_norm(F)
    for ix in units:
        o = out[ix].astype(float)
        v = M[ix]
        c = dict(case, unit=list(ix), vectors=v, result=o)
        if not np.all(np.isfinite(o)):
            mon.fail("orthogonal_complement/non-finite/%s" % cls, "non-finite output", c)
            continue
        if n - k == 0:
            mon.ok()
            continue
        cross = v @ F @ o.T
        sc = np.maximum(np.outer(np.linalg.norm(v, axis=-1), np.linalg.norm(o, axis=-1)) * fn, 1e-300)
        if not mon.judge(float(np.max(np.abs(cross) / sc)), TOL_G,
                         "orthogonal_complement/not-orthogonal/%s" % cls,
                         "a returned row is not form-orthogonal to a given row", c):
            continue
        if not mon.require(lin.rank(o, 1e-7) == n - k, "orthogonal_complement/rank/%s" % cls,
                           "the %d returned rows are not linearly independent" % (n - k), c):
            continue
        if nm == "form":
            res, sg = _scaled_gram_residual(o, F)
            if not mon.judge(res, TOL_G, "orthogonal_complement/not-orthonormal/%s" % cls,
                             "normalize='form' but rows are not +-1 orthonormal for the form", c):
                continue
            # signature of the complement = signature(form) - signature(span)
            gp, gq, _ = lin.signature(v @ F @ v.T, 0.0)
            mon.require(int(np.sum(sg > 0)) == p - gp and int(np.sum(sg < 0)) == q - gq,
                        "orthogonal_complement/signature/%s" % cls,
                        "complement signature %r, expected (%d,%d)" % (sg.tolist(), p - gp, q - gq), c)


def hook_diagonalize_form(call):
    run = _state["run"]
    mon = run.monitor("diagonalize_form")
    b = call.bound()
    B = _real_array(b.get("bilinear_form"))
    if B is None or B.ndim < 2 or B.shape[-1] != B.shape[-2]:
        return mon.skip("form not a real (...,n,n) array")
    if not np.all(np.isfinite(B)):
        return mon.skip("form not finite")
    B = B.astype(float)
    n = B.shape[-1]
    batch = B.shape[:-2]
    order = b.get("order_eigenvalues")
    reverse = bool(b.get("reverse"))
    with_inv = bool(b.get("with_inverse"))
    units = _units(batch)
    sigs = {}
    wide = False
    for ix in units:
        if lin.sym_defect(B[ix]) > 1e-9:
            return mon.skip("form not symmetric")
        p, q, ok = lin.signature(B[ix], EIG)
        if not ok:
            # eigenvalues bounded away from zero but spread over many orders of
            # magnitude (coordinates with very different units per axis): still a
            # non-degenerate form; judged with an eps-based tolerance relative to
            # the sizes involved (seeded change C18-r5-3: eigenvalues below
            # 1e-8 max treated as vanishing)
            p, q, ok = lin.signature(B[ix], 1e-11)
            if not ok:
                return mon.skip("form degenerate (|eigenvalue| < 1e-11 max)")
            wide = True
        sigs[ix] = (p, q)
    if reverse and batch and order:
        # np.flip(order) without an axis also reverses the batch axes
        if len(set(sigs.values())) > 1:
            return mon.skip("reverse=True on a batch of forms of different signature")
    cls = "%s%s/%s/%s%s" % (order if order else "unordered", "+reverse" if reverse else "",
                            "with_inverse" if with_inv else "W-only", "batch" if batch else "unit",
                            "/wide-spectrum" if wide else "")
    case = {"function": "diagonalize_form", "form": B if B.size <= 200 else B.shape,
            "order_eigenvalues": order, "reverse": reverse, "with_inverse": with_inv}
    if call.exc is not None and not _first_sight(call.exc):
        return mon.skip("exception already judged at an inner monitored call")
    if call.exc is not None:
        return mon.fail(_exc_key("diagonalize_form", call.exc, cls),
                        "diagonalize_form raised %s: %s" % (type(call.exc).__name__, str(call.exc)[:160]),
                        case, tb=_tb(call.exc))
    res = call.result
    if with_inv:
        if not (isinstance(res, tuple) and len(res) == 2):
            return mon.fail("diagonalize_form/return-type/%s" % cls, "expected the pair (W, Winv)", case)
        W, Wi = _real_array(res[0]), _real_array(res[1])
    else:
        W, Wi = _real_array(res), None
    if W is None or W.shape != B.shape or (with_inv and (Wi is None or Wi.shape != B.shape)):
        return mon.fail("diagonalize_form/shape/%s" % cls,
                        "W has shape %r for a form of shape %r" % (getattr(W, "shape", None), B.shape), case)
    for ix in units:
        w = W[ix].astype(float)
        Bi = B[ix]
        p, q = sigs[ix]
        c = dict(case, unit=list(ix), form=Bi, W=w)
        D = w.T @ Bi @ w
        nw = np.linalg.norm(w, axis=0)
        sc = np.maximum(1.0, np.outer(nw, nw) * lin.spectral_norm(Bi))
        sg = np.sign(np.diag(D))
        r = float(np.max(np.abs(D - np.diag(sg)) / sc))
        if not mon.judge(r, 2e-12 if wide else TOL_G, "diagonalize_form/not-diagonal-pm1/%s" % cls,
                         "W^T B W is not diagonal with entries +-1", c):
            continue
        if not mon.require(int(np.sum(sg > 0)) == p and int(np.sum(sg < 0)) == q,
                           "diagonalize_form/signature/%s" % cls,
                           "diagonal signs %r do not have the signature (%d,%d) of B" % (sg.tolist(), p, q), c):
            continue
        if order in ("signed", "minkowski"):
            seq = sg[::-1] if reverse else sg
            ok, tie = lin.sign_order_ok(seq, order, p, q)
            if tie:
                run.note_class("diagonalize_form", "minkowski-tie", n)
            if not mon.require(ok, "diagonalize_form/order/%s" % cls,
                               "diagonal signs %r are not in '%s'%s order for signature (+%d,-%d)"
                               % (sg.tolist(), order, " reversed" if reverse else "", p, q), c):
                continue
        if with_inv:
            wi = Wi[ix].astype(float)
            ri = float(np.max(np.abs(w @ wi - np.eye(n))) /
                       max(1.0, np.linalg.norm(w, 2) * np.linalg.norm(wi, 2)))
            mon.judge(ri, TOL_G, "diagonalize_form/inverse/%s" % cls,
                      "the second returned matrix is not the inverse of W", dict(c, Winv=wi))


def _kernel_unit_class(m, tol):
    """-> (expected kernel dimension or None, reason)."""
    s = lin.sing(m)
    n = m.shape[-1]
    if s.size and s[0] > 1e6:
        return None, "matrix scale > 1e6"
    if np.any((s >= 1e-2 * tol) & (s <= 1e2 * tol)):
        return None, "a singular value within 1e+-2 of the rank tolerance"
    big = s[s > 1e2 * tol]
    if big.size and big[-1] / big[0] < 1e-6:
        return None, "condition number of the non-singular part > 1e6"
    return n - int(big.size), None


def _judge_kernel_basis(mon, name, cls, mats, K, kd_expected, case):
    """mats (N,m,n), K (N,n,kd): annihilated, orthonormal, right dimension."""
    N, m, n = mats.shape
    if K.ndim != 3 or K.shape[0] != N or K.shape[1] != n:
        return mon.fail("%s/shape/%s" % (name, cls),
                        "kernel basis has shape %r for matrices of shape %r" % (K.shape, mats.shape), case)
    if K.shape[-1] != kd_expected:
        return mon.fail("%s/dimension/%s" % (name, cls),
                        "kernel basis has %d columns, the kernel has dimension %d (m=%d, n=%d)"
                        % (K.shape[-1], kd_expected, m, n), case)
    step = max(1, N // MAX_UNITS)
    for i in range(0, N, step):
        Mi, Ki = mats[i], K[i]
        c = dict(case, unit=i, matrix=Mi, kernel=Ki)
        if kd_expected == 0:
            mon.ok()
            continue
        sm = lin.spectral_norm(Mi)
        r = float(np.max(np.abs(Mi @ Ki))) / max(sm, 1e-300) if sm > 0 else 0.0
        if not mon.judge(r, 1e-7, "%s/not-annihilated/%s" % (name, cls),
                         "M @ K != 0 for the returned kernel basis K", c):
            continue
        o = float(np.max(np.abs(Ki.conj().T @ Ki - np.eye(kd_expected))))
        mon.judge(o, TOL_G, "%s/not-orthonormal/%s" % (name, cls),
                  "the kernel basis is not orthonormal", c)


def make_kernel_hook(name):
    def hook(call):
        run = _state["run"]
        mon = run.monitor("kernel")
        b = call.bound()
        if name == "kernel":
            # utils.kernel is the matrix_func wrapper: (*args, **kwargs)
            mat = call.args[0] if call.args else call.kwargs.get("mat")
            opts = {}
        else:
            mat = b.get("mat")
            opts = b
        M = _real_array(mat)
        if M is None:
            # complex matrices: the same contract (M K = 0, K^H K = 1, right
            # dimension).  Seeded change C18-r4-2: the basis returned unconjugated.
            try:
                Mc = np.asarray(mat)
            except Exception:
                Mc = None
            if Mc is None or Mc.dtype.kind != "c":
                return mon.skip("matrix not numeric")
            M = Mc.astype(complex)
        else:
            M = M.astype(float)
        if M.ndim < 2 or M.size == 0 or not np.all(np.isfinite(M)):
            return mon.skip("matrix empty / not finite / not 2-d")
        tol = float(opts.get("tolerance", 1e-8))
        afr = bool(opts.get("assume_full_rank", False))
        mr = bool(opts.get("matching_rank", True))
        wd = bool(opts.get("with_dimensions", False))
        wl = bool(opts.get("with_loc", False))
        m, n = M.shape[-2:]
        batch = M.shape[:-2]
        flat = M.reshape((-1, m, n))
        if flat.shape[0] > 4 * MAX_UNITS:
            return mon.skip("batch larger than 192 matrices")
        dims = []
        for i in range(flat.shape[0]):
            kd, why = _kernel_unit_class(flat[i], tol)
            if kd is None:
                return mon.skip(why)
            dims.append(kd)
        dims = np.array(dims)
        shape_kind = "square" if m == n else ("tall" if m > n else "wide")
        cls = "%s/%s/%s%s" % (shape_kind,
                              "zero-dimensional-kernel" if np.all(dims == 0) else "kernel-dimension>0",
                              "batch" if batch else "unit",
                              "/assume_full_rank" if afr else ("" if mr else "/matching_rank=False"))
        case = {"function": name, "matrix": M if M.size <= 200 else M.shape, "options":
                {"assume_full_rank": afr, "matching_rank": mr, "with_dimensions": wd, "with_loc": wl}}
        if afr and not mr:
            return mon.skip("contradictory options (documented ValueError)")
        if afr and np.any(dims != max(n - m, 0)):
            return mon.skip("assume_full_rank=True on a rank-deficient matrix")
        if mr and np.any(dims != dims[0]):
            if call.exc is not None and isinstance(call.exc, ValueError):
                return mon.ok()
            return mon.skip("ranks differ inside the batch (matching_rank=True)")
        if call.exc is not None and not _first_sight(call.exc):
            return mon.skip("exception already judged at an inner monitored call")
        if call.exc is not None:
            return mon.fail(_exc_key(name, call.exc, cls),
                            "%s raised %s: %s" % (name, type(call.exc).__name__, str(call.exc)[:160]),
                            case, tb=_tb(call.exc))
        res = call.result
        if mr:
            K = np.asarray(res)
            if K.shape[:-2] != batch:
                return mon.fail("%s/shape/%s" % (name, cls),
                                "kernel basis has shape %r for matrices of shape %r" % (K.shape, M.shape), case)
            return _judge_kernel_basis(mon, name, cls, flat, K.reshape((flat.shape[0],) + K.shape[-2:]),
                                       int(dims[0]), case)
        # matching_rank=False: tuple layouts
        try:
            if wd and wl:
                pdims, bases, locs = res
            elif wd:
                (pdims, bases), locs = res, None
            elif wl:
                (bases, locs), pdims = res, None
            else:
                bases, pdims, locs = res, None, None
            bases = tuple(bases)
        except Exception:
            return mon.fail("%s/return-layout/%s" % (name, cls), "unexpected return layout", case)
        udims = np.unique(dims)
        if len(bases) != len(udims) or (pdims is not None and not np.array_equal(np.asarray(pdims), udims)):
            return mon.fail("%s/dimension/%s" % (name, cls),
                            "reported kernel dimensions %r, expected %r"
                            % (None if pdims is None else np.asarray(pdims).tolist(), udims.tolist()), case)
        dims_b = dims.reshape(batch) if batch else dims.reshape(())
        for j, kd in enumerate(udims):
            where = (dims_b == kd)
            if locs is not None and not np.array_equal(np.asarray(locs[j]), where):
                mon.fail("%s/location/%s" % (name, cls),
                         "location mask of the dimension-%d kernels is wrong" % kd, case)
                continue
            sel = M[where] if batch else M[None]
            Kj = np.asarray(bases[j])
            if not batch:
                Kj = Kj.reshape((1,) + Kj.shape[-2:])
            _judge_kernel_basis(mon, name, cls, sel.reshape((-1, m, n)), Kj, int(kd), case)
    return hook


def _sphere_judge(mon, name, P, center, radius, case):
    """P (...,N,d); center (...,d); radius (...)."""
    batch = P.shape[:-2]
    N, d = P.shape[-2:]
    c = np.asarray(center)
    r = np.asarray(radius)
    cls = "%d-points-R%d/%s" % (N, d, "batch" if batch else "unit")
    if c.shape != batch + (d,) or r.shape != batch:
        return mon.fail("%s/shape/%s" % (name, cls),
                        "centre shape %r radius shape %r for points of shape %r" % (c.shape, r.shape, P.shape), case)
    for ix in _units(batch):
        pts = P[ix]
        mg = lin.simplex_margin(pts)
        if mg < PIV:
            mon.skip("points not in general position (simplex margin < 1e-3)")
            continue
        cc = dict(case, unit=list(ix), points=pts, center=c[ix], radius=r[ix])
        if not (np.all(np.isfinite(c[ix])) and np.isfinite(r[ix])):
            mon.fail("%s/non-finite/%s" % (name, cls), "non-finite sphere for points in general position", cc)
            continue
        res = lin.sphere_residual(pts, c[ix], float(r[ix]))
        # |c - p0| ~ diam / margin: relative error grows like eps / margin^2.
        # Points far from the origin carry an absolute rounding eps*|p| in their
        # own coordinates (and so does the returned centre): that much, relative
        # to the size of the sphere, is the floor for ANY algorithm; a method that
        # cancels |p_i|^2 - |p_0|^2 in absolute coordinates loses eps*|p|^2/r
        # instead (seeded change C18-r5-2)
        far = float(np.max(np.linalg.norm(pts, axis=-1)))
        sc = max(float(abs(r[ix])), float(np.max(np.linalg.norm(pts - pts[:1], axis=-1))), 1e-300)
        floor = 64.0 * np.finfo(float).eps * far / sc
        mon.judge(res, (1e-9 + floor) / mg ** 2, "%s/point-not-on-sphere/%s" % (name, cls),
                  "a given point is not at distance `radius` from `center`", cc)


def hook_sphere_through(call):
    run = _state["run"]
    mon = run.monitor("sphere_through")
    P = _real_array(call.bound().get("points"))
    if P is None or P.ndim < 2 or not np.all(np.isfinite(P)):
        return mon.skip("points not a finite real (...,N,d) array")
    if P.shape[-1] != P.shape[-2] - 1:
        return mon.skip("not k+2 points in R^(k+1) (documented GeometryError)")
    if P.shape[-1] == 0:
        return mon.skip("zero-dimensional")
    P = P.astype(float)
    case = {"function": "sphere_through", "points": P if P.size <= 200 else P.shape}
    if call.exc is not None and not _first_sight(call.exc):
        return mon.skip("exception already judged at an inner monitored call")
    if call.exc is not None:
        if all(lin.simplex_margin(P[ix]) >= PIV for ix in _units(P.shape[:-2])):
            mon.fail(_exc_key("sphere_through", call.exc, "%d-points" % P.shape[-2]),
                     "sphere_through raised %s: %s" % (type(call.exc).__name__, str(call.exc)[:160]),
                     case, tb=_tb(call.exc))
        return
    res = call.result
    if not (isinstance(res, tuple) and len(res) == 2):
        return mon.fail("sphere_through/return-type", "expected (center, radius)", case)
    _sphere_judge(mon, "sphere_through", P, res[0], res[1], case)


def hook_circle_through(call):
    run = _state["run"]
    mon = run.monitor("circle_through")
    b = call.bound()
    ps = [_real_array(b.get(k)) for k in ("p1", "p2", "p3")]
    if any(p is None or p.ndim < 1 or p.shape[-1] != 2 for p in ps):
        return mon.skip("points not real (...,2) arrays")
    try:
        P = np.stack(np.broadcast_arrays(*ps), axis=-2).astype(float)
    except Exception:
        return mon.skip("points do not broadcast")
    if not np.all(np.isfinite(P)):
        return mon.skip("points not finite")
    case = {"function": "circle_through", "points": P if P.size <= 200 else P.shape}
    if call.exc is not None and not _first_sight(call.exc):
        return mon.skip("exception already judged at an inner monitored call")
    if call.exc is not None:
        if all(lin.simplex_margin(P[ix]) >= PIV for ix in _units(P.shape[:-2])):
            mon.fail(_exc_key("circle_through", call.exc, "3-points"),
                     "circle_through raised %s: %s" % (type(call.exc).__name__, str(call.exc)[:160]),
                     case, tb=_tb(call.exc))
        return
    res = call.result
    if not (isinstance(res, tuple) and len(res) == 2):
        return mon.fail("circle_through/return-type", "expected (center, radius)", case)
    _sphere_judge(mon, "circle_through", P, res[0], res[1], case)


def _angle_hook(name, lo, hi, lo_open):
    def hook(call):
        run = _state["run"]
        mon = run.monitor(name)
        b = call.bound()
        th = _real_array(b.get("thetas"))
        if th is None or th.ndim < 1 or th.shape[-1] != 2:
            return mon.skip("thetas not a real (...,2) array")
        th = th.astype(float)
        batch = th.shape[:-1]
        ref = None
        if name == "arc_include":
            ref = _real_array(b.get("reference_theta"))
            if ref is None:
                return mon.skip("reference not real-numeric")
            try:
                ref = np.broadcast_to(ref.astype(float), batch)
            except Exception:
                return mon.skip("reference does not broadcast against the pairs")
        cls = "batch-shape:%s" % ("()" if not batch else "(%s)" % ",".join("k" for _ in batch))
        case = {"function": name, "thetas": th if th.size <= 200 else th.shape}
        if ref is not None:
            case["reference_theta"] = ref if ref.size <= 100 else ref.shape

        def in_range(x):
            x = np.asarray(x)
            if not np.all(np.isfinite(x)):
                return False
            if lo_open:
                return bool(np.all((x > lo) & (x < hi)))
            return bool(np.all((x >= lo) & (x <= hi)))
        if call.exc is not None and not _first_sight(call.exc):
            return mon.skip("exception already judged at an inner monitored call")
        if call.exc is not None:
            if in_range(th) and (ref is None or in_range(ref)):
                mon.fail(_exc_key(name, call.exc, cls),
                         "%s raised %s: %s on angles inside the documented range"
                         % (name, type(call.exc).__name__, str(call.exc)[:160]), case, tb=_tb(call.exc))
            return
        out = _real_array(call.result)
        if out is None or out.shape != th.shape:
            return mon.fail("%s/shape/%s" % (name, cls),
                            "result shape %r != input shape %r" % (getattr(call.result, "shape", None), th.shape), case)
        for ix in _units(batch):
            a = th[ix]
            o = out[ix].astype(float)
            r0 = None if ref is None else float(ref[ix])
            if not in_range(a) or (r0 is not None and not in_range(r0)):
                mon.skip("angle outside the documented range / not finite")
                continue
            c = dict(case, unit=list(ix), thetas=a, result=o)
            if r0 is not None:
                c["reference_theta"] = r0
            same = lin.same_angle_pair(o, a, mod_2pi=(name == "short_arc"))
            if not mon.judge(same, 1e-12, "%s/different-angles/%s" % (name, cls),
                             "the result is not the same pair of angles%s"
                             % (" modulo 2pi" if name == "short_arc" else ""), c):
                continue
            if name == "short_arc":
                ln = lin.ccw(o[0], o[1])
                if abs(ln - np.pi) <= TIE:
                    mon.skip("tie: both arcs have length pi")
                    continue
                mon.require(ln < np.pi, "short_arc/long-arc/%s" % cls,
                            "counter-clockwise arc from result[0] to result[1] has length %.12g > pi" % ln, c)
            elif name == "right_to_left":
                d = math.cos(o[1]) - math.cos(o[0])
                if abs(d) <= TIE:
                    mon.skip("tie: equal cosines")
                    continue
                mon.require(d < 0, "right_to_left/left-to-right/%s" % cls,
                            "cos(result[1]) > cos(result[0]): the counter-clockwise arc does not go right to left", c)
            else:
                arc = lin.ccw(o[0], o[1])
                pos = lin.ccw(o[0], r0)
                if min(lin.ang_dist(r0, o[0]), lin.ang_dist(r0, o[1]), lin.ang_dist(o[0], o[1])) <= TIE:
                    mon.skip("tie: reference on an endpoint / equal endpoints")
                    continue
                mon.require(pos < arc, "arc_include/reference-excluded/%s" % cls,
                            "the counter-clockwise arc from result[0] to result[1] (length %.12g) does "
                            "not contain the reference angle (at %.12g)" % (arc, pos), c)
    return hook


def setup(run):
    from geometry_tools.utils import core as ucore, numerical
    _state["run"] = run
    del _trace[:]
    mins = {"indefinite_orthogonalize": 200, "find_isometry": 200, "find_definite_isometry": 20,
            "orthogonal_complement": 50, "diagonalize_form": 100, "kernel": 200,
            "sphere_through": 100, "circle_through": 50, "short_arc": 200,
            "right_to_left": 200, "arc_include": 200}
    for k, v in mins.items():
        run.monitor(k, min_events=v)
    W = attach.wrap_everywhere
    W(run, ucore.indefinite_orthogonalize, hook_indefinite_orthogonalize, pre=_copy_args)
    W(run, ucore.find_isometry, hook_find_isometry, pre=_copy_args)
    W(run, ucore.find_definite_isometry, hook_find_definite_isometry, pre=_copy_args)
    W(run, ucore.orthogonal_complement, hook_orthogonal_complement, pre=_copy_args)
    W(run, ucore.diagonalize_form, hook_diagonalize_form)
    W(run, ucore.kernel, make_kernel_hook("kernel"), label="core.kernel")
    W(run, numerical.svd_kernel, make_kernel_hook("svd_kernel"))
    W(run, ucore.sphere_through, hook_sphere_through)
    W(run, ucore.circle_through, hook_circle_through)
    W(run, ucore.short_arc, _angle_hook("short_arc", -2 * np.pi, 2 * np.pi, True))
    W(run, ucore.right_to_left, _angle_hook("right_to_left", -np.pi, np.pi, False))
    W(run, ucore.arc_include, _angle_hook("arc_include", -np.pi, np.pi, False))


# ---------------------------------------------------------------------------
# workloads

SIGNATURES = [(p, n - p) for n in range(1, 7) for p in range(0, n + 1)]   # 27
BATCHES = [(), (3,), (2, 2), (1, 2)]
ROW_SCALES = [1.0, 1e-5, 1.0, 1e6, 1e-8]


def _lib_exc_from(e, funcname):
    """True when the innermost library frame of the traceback is `funcname`."""
    from .. import core
    return core.lib_frame_of(e.__traceback__) == funcname


def form_in_domain(rng, p, q):
    """Q^T D Q with cond(Q) <= 50 and |eigenvalues| >= 2e-3 * max (rejection)."""
    while True:
        F = lin.rand_form(rng, p, q)
        if lin.signature(F, 2 * EIG)[2]:
            return F


def sparse_form(rng, p, q):
    """Permutation conjugate of (hyperbolic planes) + (diagonal +-c), signature
    (p, q); for a definite signature one dense block [[2,1],[1,2]] instead."""
    n = p + q
    B = np.zeros((n, n))
    scales = (1.0, 0.5, 2.0)
    h = int(rng.integers(1, min(p, q) + 1)) if min(p, q) >= 1 else 0
    pos = 0
    for _ in range(h):
        c = scales[int(rng.integers(0, 3))] * (1 if rng.integers(0, 2) else -1)
        B[pos, pos + 1] = B[pos + 1, pos] = c
        pos += 2
    signs = [1.0] * (p - h) + [-1.0] * (q - h)
    if h == 0:
        s = signs[0]
        B[0, 0] = B[1, 1] = 2.0 * s
        B[0, 1] = B[1, 0] = 1.0 * s
        pos = 2
        signs = signs[2:]
    for s in signs:
        B[pos, pos] = s * scales[int(rng.integers(0, 3))]
        pos += 1
    perm = rng.permutation(n)
    return B[np.ix_(perm, perm)]


def rows_in_class(rng, F, k, batch, cls):
    """k rows per unit with all Gram pivots >= 0.05 (bulk) or the smallest in
    [2e-3, 0.05] (stressed), by rejection."""
    n = F.shape[-1] if F is not None else None
    out = np.empty(batch + (k, n))
    for ix in (np.ndindex(*batch) if batch else [()]):
        for attempt in range(400):
            r = rng.normal(size=(k, n))
            if cls == "stressed" and k >= 1:
                j = int(rng.integers(0, k))
                eps = 10 ** rng.uniform(-2.3, -0.8)
                if j > 0:
                    r[j] = r[:j].T @ rng.normal(size=j) + eps * rng.normal(size=n)
            minors, piv = lin.pivots(r, F)
            mp = float(np.min(np.abs(piv)))
            if np.min(np.abs(minors)) < (2 * PIV) ** k:
                continue
            if cls == "bulk" and mp >= 0.05:
                break
            if cls == "stressed" and 2e-3 <= mp < 0.05:
                break
        else:
            return None
        out[ix] = r
    return out


def wl_frames(run, rng, idx):
    """indefinite_orthogonalize / find_isometry / orthogonal_complement over all
    signatures, k, batch shapes and conditioning classes."""
    from geometry_tools import utils
    p, q = SIGNATURES[idx % len(SIGNATURES)]
    n = p + q
    batch = BATCHES[(idx // len(SIGNATURES)) % len(BATCHES)]
    cls = "bulk" if (idx // (len(SIGNATURES) * len(BATCHES))) % 3 != 2 else "stressed"
    kind = int(rng.integers(0, 4))
    if idx % 5 == 4 and n >= 2:
        # sparse, exactly-zero-patterned but NOT diagonal forms: hyperbolic
        # planes [[0,c],[c,0]] (the light-cone / anti-diagonal forms of the
        # half-space model), one dense 2x2 block when the signature is definite,
        # +-c on the rest, conjugated by a permutation.  A form with exactly n
        # non-zero entries is not thereby diagonal (seeded change C18-r7-1: a
        # "diagonal form" fast path of apply_bilinear keyed on count_nonzero).
        F = sparse_form(rng, p, q)
        fkind = "sparse"
    elif kind == 0:
        F = np.diag([-1.0] * q + [1.0] * p)          # standard (Minkowski-like) form
        fkind = "diagonal"
    elif kind == 1:
        # exact: integer symmetric congruence of the diagonal form
        U = np.eye(n)
        for _ in range(n):
            i, j = rng.integers(0, n, size=2)
            if i != j:
                E = np.eye(n)
                E[i, j] = float(rng.integers(-2, 3))
                U = U @ E
        F = U.T @ np.diag([1.0] * p + [-1.0] * q) @ U
        if not lin.signature(F, 2 * EIG)[2]:
            F = np.diag([1.0] * p + [-1.0] * q)      # keep the form in-domain
        fkind = "integer"
    else:
        F = form_in_domain(rng, p, q)
        fkind = "QtDQ"
    for k in range(1, n + 1):
        rows = rows_in_class(rng, F, k, batch, cls)
        if rows is None:
            run.monitor("indefinite_orthogonalize").diag("generator found no rows in class %s" % cls)
            continue
        rscale = ROW_SCALES[(idx // 3 + k) % len(ROW_SCALES)]
        if fkind == "integer" and cls == "bulk":
            # exact class: integer rows, kept only if still in general position
            r_int = np.round(rows * 4)
            ok = True
            for ix in (np.ndindex(*batch) if batch else [()]):
                minors, piv = lin.pivots(r_int[ix], F)
                if not (np.all(np.isfinite(piv)) and np.min(np.abs(piv)) >= 0.02
                        and np.min(np.abs(minors)) >= (2 * PIV) ** k):
                    ok = False
            if ok:
                rows = r_int
                rscale = 1.0
        # the contracts are homogeneous in the rows: the same rows at overall
        # scale 1e-8 .. 1e6 are as much "in general position with bounded
        # condition number" as at scale 1 (seeded change C18-r3-3: an absolute
        # np.isclose(<v,v>, 0) guard treats small rows as lightlike)
        rows = rows * rscale
        run.current_case = {"workload": "frames", "signature": [p, q], "k": k,
                            "batch": list(batch), "class": cls, "form": F, "rows": rows,
                            "row_scale": rscale}
        run.note_class("frames", (p, q), k, batch, cls, fkind, "scale:%g" % rscale)
        utils.indefinite_orthogonalize(F, rows.copy())
        for fo in (False, True):
            utils.find_isometry(F, rows.copy(), force_oriented=fo)
        if k < n or True:
            # (kernel's absolute rank tolerance puts tiny rows outside the
            # domain of orthogonal_complement: unscaled rows there)
            oc_rows = rows if rscale >= 1e-3 else rows / rscale
            for nm in ("form", "euclidean", None):
                utils.orthogonal_complement(oc_rows.copy(), F, normalize=nm)
        if not batch and k == 1:
            utils.indefinite_orthogonalize(F, rows[0].copy())            # 1-d input
            utils.find_isometry(F, rows[0].copy(), force_oriented=True)
    if idx < 2:
        run.sample({"signature": [p, q], "batch": list(batch), "class": cls, "form": F})


def wl_definite(run, rng, idx):
    """find_definite_isometry and the Euclidean default of orthogonal_complement."""
    from geometry_tools import utils
    n = 1 + idx % 6
    batch = BATCHES[(idx // 6) % len(BATCHES)]
    mon = run.monitor("find_definite_isometry")
    E = None
    for k in range(1, n + 1):
        rows = rows_in_class(rng, np.eye(n), k, batch, "bulk")
        if rows is None:
            continue
        for fo in (False, True):
            run.current_case = {"workload": "definite", "n": n, "k": k, "batch": list(batch),
                                "rows": rows, "force_oriented": fo}
            run.note_class("definite", n, k, batch, fo)
            try:
                utils.find_definite_isometry(rows.copy(), force_oriented=fo)
            except Exception as e:
                if not _lib_exc_from(e, "core.find_definite_isometry"):
                    raise
        utils.orthogonal_complement(rows.copy())
        utils.orthogonal_complement(rows.copy(), normalize="euclidean")
    v = rng.normal(size=n)
    for fo in (False, True):
        run.current_case = {"workload": "definite", "n": n, "vector": v, "force_oriented": fo}
        run.note_class("definite-1d", n, fo)
        utils.find_definite_isometry(v.copy(), force_oriented=fo)


def coxeter_form(rng, n):
    labels = [2, 3, 4, 5, 6, 7, 0]
    C = np.eye(n)
    for i in range(n):
        for j in range(i + 1, n):
            m = labels[int(rng.integers(0, len(labels)))]
            C[i, j] = C[j, i] = -1.0 if m == 0 else -math.cos(math.pi / m)
    return C


def wl_diagonalize(run, rng, idx):
    from geometry_tools import utils
    p, q = SIGNATURES[idx % len(SIGNATURES)]
    n = p + q
    variant = (idx // len(SIGNATURES)) % 6
    if idx % 7 == 3 and n >= 2:
        variant = 6
    if variant == 0:
        B = form_in_domain(rng, p, q)
        kind = "QtDQ"
    elif variant == 1:
        d = np.array([1.0] * p + [-1.0] * q) * np.exp(rng.uniform(-2, 2, size=n))
        P = np.eye(n)[rng.permutation(n)]
        B = P.T @ np.diag(d) @ P
        kind = "permuted-diagonal"
    elif variant == 2:
        Q = rh.rand_orth(rng, n)
        d = np.array([1.0] * p + [-1.0] * q) * np.exp(rng.uniform(np.log(4e-3), 0, size=n))
        B = Q.T @ np.diag(d) @ Q
        B = (B + B.T) / 2
        kind = "spread-eigenvalues"
    elif variant == 6:
        # |eigenvalues| from 1 to 1e9 in one form (A^T J A in coordinates with very
        # different units per axis)
        Q = rh.rand_orth(rng, n)
        mags = 10.0 ** rng.uniform(0, 9, size=n)
        mags[int(rng.integers(n))] = 10.0 ** rng.uniform(8.5, 9.5)
        mags[int(rng.integers(n))] = float(rng.uniform(1, 5))
        d = np.array([1.0] * p + [-1.0] * q)[rng.permutation(n)] * mags
        B = Q.T @ np.diag(d) @ Q
        B = (B + B.T) / 2
        kind = "wide-spectrum"
    elif variant == 3:
        B = coxeter_form(rng, max(n, 2))
        kind = "coxeter"
    elif variant == 4:
        B = np.stack([form_in_domain(rng, p, q) for _ in range(3)])      # same signature
        kind = "batch-same-signature"
    else:
        p2 = int(rng.integers(0, n + 1))
        B = np.stack([form_in_domain(rng, p, q), form_in_domain(rng, p2, n - p2)]).reshape((2, 1, n, n))
        kind = "batch-mixed-signature"
    run.note_class("diagonalize", (p, q), kind)
    for order in ("signed", "minkowski", None):
        for reverse in (False, True):
            if reverse and kind == "batch-mixed-signature":
                continue
            for wi in (True, False):
                run.current_case = {"workload": "diagonalize", "form": B, "order": order,
                                    "reverse": reverse, "with_inverse": wi}
                utils.diagonalize_form(B.copy(), order_eigenvalues=order, reverse=reverse,
                                       with_inverse=wi)
    utils.diagonalize_form(B.copy())
    if idx < 2:
        run.sample({"signature": [p, q], "kind": kind, "form": B})


MN = [(m, n) for m in range(1, 7) for n in range(1, 7)]


def wl_kernel(run, rng, idx):
    from geometry_tools import utils
    from geometry_tools.utils import numerical
    m, n = MN[idx % len(MN)]
    batch = BATCHES[(idx // len(MN)) % len(BATCHES)]
    cplx = idx % 3 == 2

    def rank_matrix(r):
        if not cplx:
            return lin.rand_rank_matrix(rng, m, n, r)
        qu, _ = np.linalg.qr(rng.normal(size=(m, m)) + 1j * rng.normal(size=(m, m)))
        qv, _ = np.linalg.qr(rng.normal(size=(n, n)) + 1j * rng.normal(size=(n, n)))
        sv = np.zeros((m, n))
        for k in range(r):
            sv[k, k] = float(np.exp(rng.uniform(np.log(0.5), np.log(2.0))))
        return qu @ sv @ qv.conj().T

    for r in range(0, min(m, n) + 1):
        M = np.empty(batch + (m, n), dtype=complex if cplx else float)
        for ix in (np.ndindex(*batch) if batch else [()]):
            M[ix] = rank_matrix(r)
        run.current_case = {"workload": "kernel", "m": m, "n": n, "rank": r, "batch": list(batch), "matrix": M}
        run.note_class("kernel", m, n, r, batch, "complex" if cplx else "real")
        utils.kernel(M.copy())
        if r == min(m, n):
            numerical.svd_kernel(M.copy(), assume_full_rank=True)
    # mixed ranks in one batch, every return layout
    if batch:
        ranks = rng.integers(0, min(m, n) + 1, size=batch)
        M = np.empty(batch + (m, n), dtype=complex if cplx else float)
        for ix in np.ndindex(*batch):
            M[ix] = rank_matrix(int(ranks[ix]))
        run.current_case = {"workload": "kernel", "m": m, "n": n, "ranks": ranks, "matrix": M}
        run.note_class("kernel-mixed", m, n, batch)
        for wd in (False, True):
            for wl in (False, True):
                numerical.svd_kernel(M.copy(), matching_rank=False, with_dimensions=wd, with_loc=wl)
        try:
            numerical.svd_kernel(M.copy())
        except ValueError:
            pass


def _sphere_points(rng, d, cls):
    if cls == "lattice":
        return rng.integers(-6, 7, size=(d + 1, d)).astype(float)
    c = rng.normal(size=d) * 10 ** rng.uniform(-1, 1)
    r = 10 ** rng.uniform(-2, 2)
    if cls == "far-from-origin":
        # a sphere of moderate size at distance 1e3 .. 3e7 from the origin (the
        # half-space circle of a geodesic between x = 1e6 and x = 1e6 + 1, say)
        c = rh.rand_sphere(rng, d, ()) * 10 ** rng.uniform(3, 7.5)
        r = 10 ** rng.uniform(-0.5, 1)
    u = rh.rand_sphere(rng, d, (d + 1,))
    if cls == "near-degenerate" and d >= 1:
        u[-1] = u[0] + 10 ** rng.uniform(-2.0, -1) * rng.normal(size=d)
        u[-1] /= np.linalg.norm(u[-1])
    if cls == "large-radius" and d >= 2:
        # points inside a small cap of a big sphere (nearly flat)
        cap = 10 ** rng.uniform(-1.5, -0.5)
        u = u * cap
        u[:, 0] = np.sqrt(1 - np.sum(u[:, 1:] ** 2, axis=-1))
    return c + r * u


def wl_spheres(run, rng, idx):
    from geometry_tools import utils
    d = 1 + idx % 5                      # points in R^d, d+1 of them
    batch = BATCHES[(idx // 25) % len(BATCHES)]
    cls = ["bulk", "near-degenerate", "lattice", "large-radius", "far-from-origin"][(idx // 5) % 5]
    P = np.empty(batch + (d + 1, d))
    for ix in (np.ndindex(*batch) if batch else [()]):
        for attempt in range(200):
            pts = _sphere_points(rng, d, cls)
            mg = lin.simplex_margin(pts)
            if mg >= (0.05 if cls in ("bulk", "lattice", "far-from-origin") else 3e-3):
                break
        else:
            while True:
                pts = _sphere_points(rng, d, "bulk")
                if lin.simplex_margin(pts) >= 0.05:
                    break
        P[ix] = pts
    run.current_case = {"workload": "spheres", "dimension": d, "batch": list(batch), "class": cls, "points": P}
    run.note_class("spheres", d, batch, cls)
    utils.sphere_through(P.copy())
    if d == 2:
        utils.circle_through(P[..., 0, :].copy(), P[..., 1, :].copy(), P[..., 2, :].copy())
    if idx < 2:
        run.sample({"dimension": d, "class": cls, "points": P})


ANGLE_BATCHES = [(), (7,), (3, 4), (1,), (2, 1, 3)]
SPECIAL = [0.0, np.pi, -np.pi, np.pi / 2, -np.pi / 2, np.nextafter(np.pi, 0), -np.nextafter(np.pi, 0)]


def wl_angles(run, rng, idx):
    from geometry_tools import utils
    batch = ANGLE_BATCHES[idx % len(ANGLE_BATCHES)]
    cls = ["uniform", "special-values", "close-pairs", "near-antipodal"][(idx // len(ANGLE_BATCHES)) % 4]

    def pairs(lo, hi):
        th = rng.uniform(lo, hi, size=batch + (2,))
        if cls == "special-values":
            sp = rng.choice(SPECIAL, size=batch + (2,))
            th = np.where(rng.random(size=batch + (2,)) < 0.6, sp, th)
        elif cls == "close-pairs":
            th[..., 1] = np.clip(th[..., 0] + rng.normal(size=batch) * 10 ** rng.uniform(-9, -2), lo, hi)
        elif cls == "near-antipodal":
            d = np.pi * rng.choice([-1.0, 1.0], size=batch) + rng.normal(size=batch) * 10 ** rng.uniform(-9, -2)
            t1 = th[..., 0] + d
            t1 = np.where(t1 > hi, t1 - 2 * np.pi, t1)
            t1 = np.where(t1 < lo, t1 + 2 * np.pi, t1)
            th[..., 1] = np.clip(t1, lo, hi)
        return th
    eps = 1e-9
    th = pairs(-2 * np.pi + eps, 2 * np.pi - eps)
    run.current_case = {"workload": "angles", "helper": "short_arc", "class": cls, "thetas": th}
    run.note_class("angles", "short_arc", batch, cls)
    utils.short_arc(th.copy())
    th = pairs(-np.pi, np.pi)
    run.current_case = {"workload": "angles", "helper": "right_to_left", "class": cls, "thetas": th}
    run.note_class("angles", "right_to_left", batch, cls)
    utils.right_to_left(th.copy())
    th = pairs(-np.pi, np.pi)
    ref = rng.uniform(-np.pi, np.pi, size=batch)
    if cls == "special-values":
        ref = np.where(rng.random(size=batch) < 0.5, rng.choice(SPECIAL, size=batch), ref)
    run.current_case = {"workload": "angles", "helper": "arc_include", "class": cls, "thetas": th,
                        "reference_theta": ref}
    run.note_class("angles", "arc_include", batch, cls)
    try:
        utils.arc_include(th.copy(), ref.copy() if batch else float(ref))
    except Exception as e:
        # recorded by the postcondition hook (in-domain exception); anything
        # raised elsewhere is re-raised
        if not _lib_exc_from(e, "core.arc_include"):
            raise
    if idx < 2:
        run.sample({"batch": list(batch), "class": cls, "thetas": th})


def wl_ambient(run, rng, idx):
    """Higher-level hyperbolic code whose internal calls the monitors judge."""
    from geometry_tools import hyperbolic
    from geometry_tools.hyperbolic import (Point, Segment, Geodesic, TangentVector, IdealPoint,
                                           Hyperplane, Horosphere, HorosphereArc, Polygon)
    d = 1 + idx % 5
    shape = [(), (4,), (2, 3)][(idx // 5) % 3]
    rmax = [0.9, 0.999][(idx // 15) % 2]
    run.note_class("ambient", d, shape, rmax)
    kp = rh.rand_ball(rng, d, shape, rmax=rmax)
    kq = rh.rand_ball(rng, d, shape, rmax=rmax)
    run.current_case = {"workload": "ambient", "dimension": d, "shape": list(shape), "kp": kp, "kq": kq}
    p = Point(kp, model="klein")
    qq = Point(kq, model="klein")
    p.origin_to()
    p.origin_to(force_oriented=False)
    hyperbolic.timelike_to(rh.klein_to_proj(rh.rand_ball(rng, d, (), rmax=rmax)), force_oriented=True)
    # spacelike vectors -> spacelike_to / hyperplanes / reflections
    if d >= 2:
        sv = np.concatenate([rng.uniform(-0.8, 0.8, size=shape + (1,)),
                             rh.rand_sphere(rng, d, shape)], axis=-1)
        run.current_case = {"workload": "ambient", "dimension": d, "spacelike": sv}
        hyperbolic.spacelike_to(sv[(0,) * len(shape)].copy(), force_oriented=True)
        hp = Hyperplane(sv[(0,) * len(shape)].copy())
        hp.reflection_across()
        if np.all(np.linalg.norm(kp - kq, axis=-1) > 1e-2):
            tv = p.unit_tangent_towards(qq)
            tv.origin_to()
            tv.isometry_to(qq.unit_tangent_towards(p))
            seg = Segment(p, qq)
            for model in ("poincare", "halfspace"):
                seg.sphere_parameters(model=model)
            if d == 2:
                for model in ("poincare", "halfspace"):
                    seg.circle_parameters(model=model, degrees=False)
                    Geodesic(seg).circle_parameters(model=model, degrees=False)
    if d == 2:
        # horospherical arcs: unit and (k,) composites (arc_include); the second
        # endpoint is the image of the first under a parabolic fixing the centre
        hshape = () if len(shape) != 1 else shape
        ang = rng.uniform(-np.pi, np.pi, size=hshape)
        ideal = IdealPoint.from_angle(ang)
        a1 = Point(rh.rand_ball(rng, 2, hshape, rmax=0.9), model="klein")
        run.current_case = {"workload": "ambient", "horoarc-centre-angle": ang,
                            "reference": a1.coords("klein")}
        t = rng.uniform(0.2, 1.0)
        N = rh_parabolic(ang, t)
        a2 = Point(np.einsum("...ij,...j->...i", N, a1.proj_data))
        arc = HorosphereArc(ideal, a1, a2)
        for model in ("poincare", "halfspace"):
            try:
                arc.circle_parameters(model=model, degrees=False)
            except Exception as e:
                if not _lib_exc_from(e, "core.arc_include"):
                    raise
        nv = int(rng.integers(3, 7))
        poly = Polygon(rh.klein_to_proj(rh.rand_ball(rng, 2, shape + (nv,), rmax=0.9)))
        for model in ("poincare", "halfspace"):
            poly.get_edges().circle_parameters(model=model, degrees=False)
        if idx % 15 < 3:
            from geometry_tools import drawtools
            import matplotlib.pyplot as plt
            for model in ("poincare", "halfspace"):
                dr = drawtools.HyperbolicDrawing(model=model)
                dr.draw_plane()
                dr.draw_geodesic(Segment(p, qq))
                dr.draw_polygon(poly)
                try:
                    dr.draw_horoarc(arc)
                except Exception as e:
                    if not _lib_exc_from(e, "core.arc_include"):
                        raise
                plt.close("all")


def rh_parabolic(ang, t):
    """parabolic isometry of H^2 (column convention, J = diag(-1,1,1)) fixing
    the ideal point (1, cos a, sin a): exp(t X), X = n (Jw)^T - w (Jn)^T with w
    the unit spacelike vector (0, -sin a, cos a) orthogonal to n; X^3 = 0."""
    ang = np.asarray(ang, dtype=float)
    n_ = np.stack([np.ones_like(ang), np.cos(ang), np.sin(ang)], axis=-1)
    w = np.stack([np.zeros_like(ang), -np.sin(ang), np.cos(ang)], axis=-1)
    J = rh.J(3)
    X = n_[..., :, None] * (w @ J)[..., None, :] - w[..., :, None] * (n_ @ J)[..., None, :]
    return np.eye(3) + t * X + 0.5 * t * t * (X @ X)


WORKLOADS = [
    Workload("frames", wl_frames, quick=162, thorough=3240),
    Workload("definite", wl_definite, quick=24, thorough=480),
    Workload("diagonalize", wl_diagonalize, quick=162, thorough=3240),
    Workload("kernel", wl_kernel, quick=72, thorough=1440),
    Workload("spheres", wl_spheres, quick=160, thorough=3200),
    Workload("angles", wl_angles, quick=400, thorough=8000),
    Workload("ambient", wl_ambient, quick=60, thorough=1200),
]
