"""C02 -- every isometry the library builds preserves the Minkowski form and distances.

Monitors
  constructor-form  (P) postcondition on every isometry constructor
                    (Point.origin_to, TangentVector.origin_to / isometry_to,
                    Isometry.elliptic / standard_rotation / standard_loxodromic /
                    from_sl2, sl2_iso, Subspace.reflection_across, timelike_to,
                    spacelike_to, hyperbolic.identity, CoxeterGroup.hyperbolic_rep,
                    HyperbolicRepresentation.__getitem__ / isometries): for
                    arguments an independent predicate puts in the domain, the
                    returned matrix satisfies M J M^T = J (relative to |M|^2).
                    Passing results enter a weak provenance table.
  provenance-form   (P) Transformation.apply / __matmul__ / inv / __getitem__:
                    certified o certified and certified^-1 are checked and
                    certified again -- every composition the workload or the
                    library itself performs.  The table is a WeakKeyDictionary
                    inside this module (object -> measured residual, origin);
                    nothing is written on the objects.  The tolerance of a
                    composition is the first-order bound from the residuals
                    measured on its operands and their cancellation
                    |A||B|/|AB|, so long words are judged without a geometrically
                    growing allowance.
  frame-completion  (P) utils.find_isometry and utils.indefinite_orthogonalize
                    on the Minkowski form: orthonormal rows, one timelike row,
                    nested spans kept, orientation when forced.
  sl2-to-so21       (P) lie.sl2_to_so21 for |det| = 1.
  apply-type        (P) a certified isometry applied to any real vectors keeps
                    each row timelike / lightlike / spacelike.
  distance-type     (W) reference distances of image pairs equal those of the
                    sources; interior / ideal / exterior test points keep their
                    kind (reference Minkowski norm with margins).
"""
import math
import weakref
import traceback

import numpy as np

from ..run import Workload
from .. import attach
from ..ref import hyp as rh
from ..ref import iso as ri

ID = "C02"
RULE = ("constructor cases = (constructor, dimension 1..5, composite shape, argument "
        "conditioning class {bulk, near-boundary, rescaled/negative representative}, "
        "options such as force_oriented / column_vectors); word cases = (letters: <=4 "
        "certified isometries from different constructors, length <=30, pattern "
        "{random, commutator, conjugate, w w^-1}); Coxeter cases = (matrix, route, word "
        "length); non-trivial = the isometry is not the identity; distinct = distinct "
        "signatures of that kind")
ASSUMPTIONS = [
    "an argument is in a constructor's domain when an independent predicate says so "
    "with a margin (interior point, spacelike normal, orthogonal block, |det| = 1, "
    "cosine form of signature (d,1)); other calls are counted, not judged",
    "form residuals are relative to max|M|^2; a composition C = A o B is judged with the "
    "local bound k^2 (r_A + r_B) + 2 n eps k, k = |A||B|/|C| (2-norms), from the residuals "
    "measured on its operands (an inverse with r_A |A|^2 + n eps |A|^2); beyond 1e-4 it is "
    "counted, not judged",
    "distance invariance is judged when the isometry's largest entry is <= 300 (images "
    "stay representable); type preservation is judged up to 1e4",
]
_H = "geometry_tools/hyperbolic.py"
_U = "geometry_tools/utils/core.py"
ANCHORS = [(_U, "indefinite_orthogonalize"), (_U, "find_isometry"),
           (_U, "make_orientation_preserving"), (_U, "diagonalize_form"),
           (_H, "Point.origin_to"), (_H, "TangentVector.origin_to"),
           (_H, "TangentVector.isometry_to"), (_H, "Isometry.elliptic"),
           (_H, "Isometry.standard_loxodromic"), (_H, "Isometry.standard_rotation"),
           (_H, "Isometry.from_sl2"), (_H, "sl2_iso"), (_H, "Subspace.reflection_across"),
           (_H, "timelike_to"), (_H, "spacelike_to"), (_H, "identity"),
           (_H, "HyperbolicRepresentation.wrap_func"),
           (_H, "HyperbolicRepresentation.isometries"),
           ("geometry_tools/lie/core.py", "sl2_to_so21"),
           ("geometry_tools/coxeter.py", "CoxeterGroup.hyperbolic_rep"),
           ("geometry_tools/coxeter.py", "CoxeterGroup.cartan_representation"),
           ("geometry_tools/projective.py", "Transformation.apply"),
           ("geometry_tools/projective.py", "Transformation.inv"),
           ("geometry_tools/projective.py", "Transformation.__matmul__")]
REQUIRED = [
    (_U, "find_isometry", "iso = make_orientation_preserving(iso)"),
    (_U, "find_isometry", "orth_kernel = indefinite_orthogonalize(form, kernel_basis)"),
    (_U, "indefinite_orthogonalize", "row -= projection(row, result[..., j, :], form)"),
    (_U, "make_orientation_preserving", "preserved[det(preserved) < 0, -1, :] *= -1"),
    (_U, "diagonalize_form", "sort_indices = np.zeros_like(n_eigs)"),
    (_H, "spacelike_to", "p_iso = utils.make_orientation_preserving(p_iso)"),
    (_H, "spacelike_to", "np.put_along_axis(p_iso, p_indices, p_values, axis=-2)"),
    (_H, "TangentVector.isometry_to", "return other.origin_to(**kwargs) @ self.origin_to(**kwargs).inv()"),
    ("geometry_tools/projective.py", "Transformation.inv",
     "return self.__class__(utils.invert(self.matrix))"),
    ("geometry_tools/coxeter.py", "CoxeterGroup.hyperbolic_rep",
     "return hyperbolic.HyperbolicRepresentation(matrix_rep)"),
]

TOL = 1e-7
EPS = np.finfo(float).eps

# provenance: Isometry object -> {"res": measured form residual, "origin": str}
_prov = weakref.WeakKeyDictionary()
_state = {"compositions": 0, "max_residual": {}}


def _real(arr):
    a = np.asarray(arr)
    if a.dtype == object:
        return None
    if np.iscomplexobj(a):
        if a.size and np.max(np.abs(a.imag)) > 0:
            return None
        a = a.real
    try:
        return np.asarray(a, dtype=float)
    except Exception:
        return None


def _mats(obj):
    """real (..., n+1, n+1) data of a transformation object, or None."""
    data = getattr(obj, "proj_data", None)
    if data is None:
        return None
    a = _real(data)
    if a is None or a.ndim < 2 or a.shape[-1] != a.shape[-2] or a.size == 0:
        return None
    return a


def is_minkowski(form):
    f = _real(form)
    if f is None or f.ndim != 2 or f.shape[0] != f.shape[1] or f.shape[0] < 2:
        return False
    return bool(np.array_equal(f, rh.J(f.shape[0])))


# ---------------------------------------------------------------------------
# certification

def certify(run, mon, obj, origin, key, what, case=None, slack=0.0, extra=1.0):
    """judge the form residual of a returned isometry object; on success enter
    it in the provenance table."""
    M = _mats(obj)
    if M is None:
        mon.fail(key + "/not-a-real-matrix", "%s returned no real square matrix data" % what,
                 case if case is not None else run.current_case)
        return False
    if not np.all(np.isfinite(M)):
        mon.fail(key + "/non-finite", "%s returned non-finite entries" % what,
                 case if case is not None else run.current_case)
        return False
    res = float(np.max(ri.form_residual_both(M)))
    mr = _state["max_residual"]
    if res == res and res > mr.get(origin.split(" of ")[0], -1.0):
        mr[origin.split(" of ")[0]] = res
    tol = TOL * extra + slack
    c = case if case is not None else run.current_case
    if mon.judge(res, tol, key, "%s does not preserve the Minkowski form (M J M^T != J)" % what,
                 {"workload_case": c, "matrix": M} if res > tol else None):
        try:
            _prov[obj] = {"res": res, "origin": origin}
        except TypeError:
            pass
        return True
    return False


def composition_slack(Ma, Mb, Mc, ra, rb):
    """first-order bound for the relative form residual of C = fl(A B):
    C J C^T - J = (A J A^T - J) + A (B J B^T - J) A^T + rounding, hence
    r_C <= k^2 (r_A + r_B) + 2 n eps k with k = |A|_2 |B|_2 / |C|_2 (x10, and a factor
    n for the max-norm the residuals are measured in)."""
    na = float(np.max(np.linalg.norm(Ma, ord=2, axis=(-2, -1))))
    nb = float(np.max(np.linalg.norm(Mb, ord=2, axis=(-2, -1))))
    nc = float(np.min(np.linalg.norm(Mc, ord=2, axis=(-2, -1))))
    n1 = Mc.shape[-1]
    if not (nc > 0) or not np.isfinite(na * nb):
        return np.inf
    k = max(1.0, na * nb / nc)
    return 10.0 * n1 * (k * k * (ra + rb) + 2 * n1 * EPS * k)


def frame_margin(rows):
    """min over j of |det G_j / det G_{j-1}| for the Minkowski Gram matrix of the
    Euclid-normalised rows: the square norms indefinite Gram-Schmidt divides by."""
    X = np.asarray(rows, dtype=float)
    nrm = np.linalg.norm(X, axis=-1, keepdims=True)
    if np.any(nrm == 0) or not np.all(np.isfinite(X)):
        return 0.0
    X = X / nrm
    G = ri.form_gram(X)
    prev = 1.0
    worst = np.inf
    for j in range(1, X.shape[0] + 1):
        d = float(np.linalg.det(G[:j, :j]))
        if prev == 0:
            return 0.0
        worst = min(worst, abs(d / prev))
        prev = d
    return worst


def setup(run):
    from geometry_tools import hyperbolic as hyp, projective, coxeter, representation
    from geometry_tools.utils import core as ucore
    from geometry_tools.lie import core as liecore
    GeometryError = projective.GeometryError

    m_con = run.monitor("constructor-form", min_events=300)
    m_prov = run.monitor("provenance-form", min_events=200)
    m_frame = run.monitor("frame-completion", min_events=200)
    m_sl2 = run.monitor("sl2-to-so21", min_events=20)
    m_type = run.monitor("apply-type", min_events=200)
    run.monitor("distance-type", min_events=300)

    def tb_of(exc):
        return "".join(traceback.format_exception(type(exc), exc, exc.__traceback__))

    def constructor(owner, name, domain, label=None, everywhere=False):
        """domain(call) -> (True, extra_tol) in domain / (False, reason)."""
        lab = label or name

        def hook(call):
            try:
                ok, info = domain(call)
            except Exception as e:          # a domain predicate must never decide by crashing
                run.harness_error("domain predicate " + lab, e)
                return
            if not ok:
                return m_con.skip("%s: %s" % (lab, info))
            if call.exc is not None:
                if isinstance(call.exc, (KeyboardInterrupt, SystemExit)):
                    return
                return m_con.fail("constructor-form/exception:%s/%s" % (type(call.exc).__name__, lab),
                                  "%s raised %s: %s on an in-domain argument"
                                  % (lab, type(call.exc).__name__, str(call.exc)[:160]),
                                  run.current_case, tb=tb_of(call.exc))
            certify(run, m_con, call.result, lab, "constructor-form/form-not-preserved/" + lab,
                    lab, extra=info)
        if everywhere:
            attach.wrap_everywhere(run, getattr(owner, name), hook, label=lab)
        else:
            attach.wrap_attr(run, owner, name, hook, label=lab, overrides=True)

    # -- domains --------------------------------------------------------------
    def interior_rows(P, margin=1e-12):
        P = _real(P)
        if P is None or P.ndim < 1 or P.shape[-1] < 2 or not np.all(np.isfinite(P)) or P.size == 0:
            return None
        q = ri.qrel(P)
        if np.all(q < -margin):
            return float(1.0 / np.min(-q))
        return None

    def dom_point_origin_to(call):
        p = call.args[0]
        if getattr(p, "unit_ndims", None) != 1:
            return False, "not a point object"
        c = interior_rows(p.proj_data)
        if c is None:
            return False, "point not interior with margin"
        if c > 1e9:
            return False, "beyond the stressed radius class"
        return True, max(1.0, c * 1e-5)

    def tangent_ok(tv):
        d = _real(tv.proj_data)
        if d is None or d.ndim < 2 or d.shape[-2] != 2:
            return None
        c = interior_rows(d[..., 0, :])
        if c is None or c > 1e9:
            return None
        aux = _real(tv.aux_data) if getattr(tv, "aux_data", None) is not None else None
        if aux is None:
            return None
        v = aux[..., 1, :]
        qv = ri.qrel(v)
        if not np.all(np.isfinite(qv)) or np.any(qv < 1e-9):
            return None                       # zero / non-spacelike tangent
        return max(1.0, c * 1e-5, float(1e-5 / np.min(qv)))

    def dom_tangent_origin_to(call):
        c = tangent_ok(call.args[0])
        return (True, c) if c is not None else (False, "degenerate tangent vector")

    def dom_isometry_to(call):
        a = tangent_ok(call.args[0])
        o = call.args[1] if len(call.args) > 1 else call.kwargs.get("other")
        b = tangent_ok(o) if hasattr(o, "proj_data") else None
        if a is None or b is None:
            return False, "degenerate tangent vector"
        return True, max(a, b) ** 2

    def dom_elliptic(call):
        b = call.bound()
        like = b.get("like")
        if b.get("kwargs") or (like is not None and _real(np.asarray(like)) is None):
            return False, "explicit dtype / non-numeric like"
        blk = _real(np.asarray(b.get("block_elliptic")))
        d = b.get("dimension")
        if blk is None or blk.shape != (d, d):
            return False, "block of another shape"
        if ri.maxabs(blk.T @ blk - np.eye(d)) > 1e-9:
            return False, "block not orthogonal"
        return True, 1.0

    def dom_loxodromic(call):
        b = call.bound()
        try:
            p = float(b.get("parameter"))
            d = int(b.get("dimension"))
        except Exception:
            return False, "non-numeric arguments"
        if not np.isfinite(p) or p == 0 or not (1e-3 <= abs(p) <= 1e3) or d < 1:
            return False, "parameter outside [1e-3, 1e3]"
        return True, 1.0

    def dom_rotation(call):
        b = call.bound()
        try:
            a = float(b.get("angle"))
        except Exception:
            return False, "non-scalar angle"
        if b.get("like") is not None or b.get("kwargs") or not np.isfinite(a) or int(b.get("dimension")) < 2:
            return False, "explicit like / dimension < 2"
        return True, 1.0

    def dom_sl2(call):
        m = call.args[0] if call.args else call.kwargs.get("matrix")
        if call.kwargs and any(k != "matrix" for k in call.kwargs):
            return False, "explicit dtype/base_ring"
        try:
            a = _real(np.asarray(m))
        except Exception:
            a = None
        if a is None or a.ndim < 2 or a.shape[-2:] != (2, 2) or not np.all(np.isfinite(a)):
            return False, "not real 2x2"
        det = a[..., 0, 0] * a[..., 1, 1] - a[..., 0, 1] * a[..., 1, 0]
        s = np.max(np.abs(a), axis=(-1, -2)) ** 2
        if np.any(np.abs(np.abs(det) - 1.0) > 1e-9 * np.maximum(1.0, s)):
            return False, "|det| != 1"
        if np.max(s) > 1e6:
            return False, "condition number beyond the stressed class"
        return True, 1.0

    def dom_reflection(call):
        from . import c15
        H = call.args[0]
        ideal_all, normal_all = c15.ideal_rows_of(H, hyp)
        if ideal_all is None or ideal_all.shape[-2] != ideal_all.shape[-1] - 1:
            return False, "not a hyperplane"
        worst = 1.0
        for k, iu in enumerate(c15._units(ideal_all, 2)):
            nu, cond, reason = c15.wall_domain(
                iu, None if normal_all is None else c15._units(normal_all, 1)[k])
            if nu is None:
                return False, reason
            worst = max(worst, cond)
        return True, worst

    def vec_domain(v, sign):
        a = _real(np.asarray(v))
        if a is None or a.ndim < 1 or a.shape[-1] < 2 or not np.all(np.isfinite(a)):
            return None
        if a.ndim >= 2 and a.shape[-2] != 1:
            return None                       # (k, n+1) would be read as one k-frame
        q = ri.qrel(a) * sign
        if np.any(q < 1e-9):
            return None
        return max(1.0, float(1e-5 / np.min(q)))

    def dom_timelike_to(call):
        c = vec_domain(call.args[0] if call.args else call.kwargs.get("v"), -1.0)
        return (True, c) if c is not None else (False, "vector not timelike with margin")

    def dom_spacelike_to(call):
        v = call.args[0] if call.args else call.kwargs.get("v")
        c = vec_domain(v, 1.0)
        if c is not None:
            # the library's own notion of "spacelike" is absolute: Minkowski
            # square-norm above ERROR_THRESHOLD = 1e-8 (hyperbolic.spacelike).
            # Whether a shorter vector is accepted depends on whether an earlier
            # step happened to normalise the caller's array in place (benign
            # change B-1 removes that side effect), so it is out of domain here.
            a = np.asarray(v, dtype=float)
            if np.any(rh.mink_sq(a) < 1e-6):
                return False, "vector shorter than 100x the library's absolute spacelike threshold"
        return (True, c) if c is not None else (False, "vector not spacelike with margin")

    constructor(hyp.Point, "origin_to", dom_point_origin_to, "Point.origin_to")
    constructor(hyp.TangentVector, "origin_to", dom_tangent_origin_to, "TangentVector.origin_to")
    constructor(hyp.TangentVector, "isometry_to", dom_isometry_to, "TangentVector.isometry_to")
    constructor(hyp.Isometry, "elliptic", dom_elliptic, "Isometry.elliptic")
    constructor(hyp.Isometry, "standard_loxodromic", dom_loxodromic, "Isometry.standard_loxodromic")
    constructor(hyp.Isometry, "standard_rotation", dom_rotation, "Isometry.standard_rotation")
    constructor(hyp.Isometry, "from_sl2", dom_sl2, "Isometry.from_sl2")
    constructor(hyp, "sl2_iso", dom_sl2, "sl2_iso", everywhere=True)
    constructor(hyp.Subspace, "reflection_across", dom_reflection, "Subspace.reflection_across")
    constructor(hyp, "timelike_to", dom_timelike_to, "timelike_to", everywhere=True)
    constructor(hyp, "spacelike_to", dom_spacelike_to, "spacelike_to", everywhere=True)
    constructor(hyp, "identity", lambda call: (True, 1.0), "hyperbolic.identity", everywhere=True)

    # -- Coxeter / representations ------------------------------------------------
    def rep_generators_ok(rep):
        """all generator matrices preserve the form (precondition of the word
        postcondition); returns max |g| or None."""
        gens = getattr(rep, "generators", None)
        if not gens:
            return None
        big = 1.0
        for g, mat in gens.items():
            a = _real(mat)
            if a is None or a.ndim != 2 or a.shape[0] != a.shape[1] or not np.all(np.isfinite(a)):
                return None
            if float(ri.form_residual_both(a)) > 1e-9:
                return None
            big = max(big, ri.maxabs(a))
        return big

    def hook_hyperbolic_rep(call):
        G = call.args[0]
        m = _real(getattr(G, "coxeter_matrix", None))
        if m is None or call.kwargs:
            return m_con.skip("hyperbolic_rep: explicit dtype/base_ring")
        p, q, z, w = ri.signature(ri.cosine_form(m))
        if not (q == 1 and z == 0 and p == len(m) - 1):
            return m_con.skip("hyperbolic_rep: cosine form not of signature (d,1) with margin")
        if call.exc is not None:
            return m_con.fail("constructor-form/exception:%s/CoxeterGroup.hyperbolic_rep"
                              % type(call.exc).__name__,
                              "hyperbolic_rep raised %s: %s for a Coxeter matrix whose cosine "
                              "form has signature (%d,1)" % (type(call.exc).__name__,
                                                            str(call.exc)[:160], p),
                              {"coxeter_matrix": m}, tb=tb_of(call.exc))
        rep = call.result
        cond = 1.0 / min(abs(w[0]), float(np.min(np.abs(w))))
        for g, mat in sorted(rep.generators.items()):
            a = _real(mat)
            if a is None or not np.all(np.isfinite(a)):
                m_con.fail("constructor-form/non-finite/CoxeterGroup.hyperbolic_rep",
                           "generator %r of the hyperbolic representation is not a finite real "
                           "matrix" % g, {"coxeter_matrix": m})
                continue
            m_con.judge(float(ri.form_residual_both(a)), TOL * max(1.0, cond),
                        "constructor-form/form-not-preserved/CoxeterGroup.hyperbolic_rep",
                        "generator %r of hyperbolic_rep() does not preserve diag(-1,1,..,1)" % g,
                        {"coxeter_matrix": m, "generator": g, "matrix": a})

    attach.wrap_attr(run, coxeter.CoxeterGroup, "hyperbolic_rep", hook_hyperbolic_rep)

    def word_hook(which):
        def hook(call):
            rep = call.args[0]
            if not isinstance(rep, hyp.HyperbolicRepresentation):
                return
            big = rep_generators_ok(rep)
            if big is None:
                return m_con.skip("%s: a generator is not a form-preserving real matrix" % which)
            if call.exc is not None:
                if isinstance(call.exc, (KeyError, TypeError, IndexError)):
                    return m_con.skip("%s: word not over the generators" % which)
                return m_con.fail("constructor-form/exception:%s/%s" % (type(call.exc).__name__, which),
                                  "%s raised %s: %s" % (which, type(call.exc).__name__,
                                                        str(call.exc)[:160]),
                                  run.current_case, tb=tb_of(call.exc))
            res = call.result
            M = _mats(res)
            if M is None:
                return m_con.skip("%s: no words" % which)
            words = call.args[1] if len(call.args) > 1 else None
            try:
                L = max(len(w) for w in ([words] if isinstance(words, str) else list(words)))
            except Exception:
                L = 1
            # cancellation: product of the letters' sizes against the result's size
            small = max(1.0, float(np.min(np.max(np.abs(M), axis=(-1, -2)))))
            err = 16 * EPS * max(1, L) * min(big ** max(1, L) / small, 1e30)
            if err > 1e-9:
                return m_con.skip("%s: cancellation beyond the stressed class" % which)
            certify(run, m_con, res, which, "constructor-form/form-not-preserved/" + which,
                    "%s of a representation by isometries" % which,
                    slack=100.0 * M.shape[-1] * err)
        return hook

    attach.wrap_attr(run, representation.Representation, "__getitem__",
                     word_hook("HyperbolicRepresentation.__getitem__"),
                     label="HyperbolicRepresentation.__getitem__")
    attach.wrap_attr(run, hyp.HyperbolicRepresentation, "isometries",
                     word_hook("HyperbolicRepresentation.isometries"))

    # -- provenance through apply / inv / __matmul__ / __getitem__ ------------------------
    def hook_apply(call):
        A = call.args[0]
        B = call.args[1] if len(call.args) > 1 else call.kwargs.get("proj_obj")
        pa = _prov.get(A) if isinstance(A, projective.Transformation) else None
        if pa is None:
            return
        if isinstance(B, projective.Transformation):
            pb = _prov.get(B)
            if pb is None:
                return m_prov.skip("operand without provenance")
            if call.exc is not None:
                return m_prov.skip("composition raised (judged by C03)")
            Ma, Mb, Mc = _mats(A), _mats(B), _mats(call.result)
            if Ma is None or Mb is None or Mc is None:
                return m_prov.skip("non-real data")
            slack = composition_slack(Ma, Mb, Mc, pa["res"], pb["res"])
            if slack > 1e-4:
                return m_prov.skip("cancellation beyond the stressed class")
            _state["compositions"] += 1
            certify(run, m_prov, call.result, "composition",
                    "provenance-form/composition-not-form-preserving",
                    "composition of two certified isometries (%s o %s)"
                    % (pa["origin"], pb["origin"]), slack=slack)
            return
        # a certified isometry acting on vectors: kinds are preserved
        if call.exc is not None:
            return
        src = getattr(B, "proj_data", B)
        out = getattr(call.result, "proj_data", None)
        X, Y, M = _real(src), _real(out), _mats(A)
        if X is None or Y is None or M is None or X.size == 0:
            return m_type.skip("non-real operand")
        if X.shape != Y.shape or X.shape[-1] != M.shape[-1]:
            return m_type.skip("broadcast changes the shape")
        if M.ndim > 2 and M.shape[:-2] != X.shape[:M.ndim - 2]:
            return m_type.skip("composite isometry not aligned with the operand")
        s2 = float(np.max(np.linalg.norm(M, ord=2, axis=(-2, -1))))
        if s2 > 1e6 or not np.all(np.isfinite(Y)) or not np.all(np.isfinite(X)):
            return m_type.skip("isometry or data too large")
        qx, qy = ri.qrel(X), ri.qrel(Y)
        nx, ny = np.linalg.norm(X, axis=-1), np.linalg.norm(Y, axis=-1)
        ok = nx > 0
        if not np.any(ok):
            return m_type.skip("zero vectors")
        with np.errstate(all="ignore"):
            noise = (1e-9 + 1e2 * M.shape[-1] * pa["res"]) * \
                np.where(ny > 0, (nx * s2 / np.where(ny > 0, ny, 1.0)) ** 2, np.inf)
        bad_t = ok & (qx < -1e-6) & ~(qy < noise)           # timelike became non-timelike
        bad_s = ok & (qx > 1e-6) & ~(qy > -noise)
        bad_l = ok & (np.abs(qx) <= 1e-13) & ~(np.abs(qy) <= noise)
        nbad = int(np.sum(bad_t | bad_s | bad_l))
        if nbad:
            which = "timelike" if np.any(bad_t) else ("spacelike" if np.any(bad_s) else "lightlike")
            m_type.fail("apply-type/%s-row-changes-kind" % which,
                        "a certified isometry (%s) maps a %s row to a row of another kind "
                        "(%d rows)" % (pa["origin"], which, nbad),
                        {"workload_case": run.current_case, "matrix": M,
                         "rows": X.reshape(-1, X.shape[-1])[:4]})
        else:
            m_type.ok()

    attach.wrap_attr(run, projective.Transformation, "apply", hook_apply)

    def hook_inv(call):
        A = call.args[0]
        pa = _prov.get(A)
        if pa is None or call.exc is not None:
            return
        M = _mats(A)
        if M is None:
            return
        s = float(np.max(np.linalg.norm(M, ord=2, axis=(-2, -1))))
        n1 = M.shape[-1]
        slack = 10.0 * n1 * (pa["res"] * s * s + n1 * EPS * s * s)
        if slack > 1e-4:
            return m_prov.skip("inverse of a very large isometry")
        certify(run, m_prov, call.result, "inverse of " + pa["origin"],
                "provenance-form/inverse-not-form-preserving",
                "inverse of a certified isometry (%s)" % pa["origin"], slack=slack)

    attach.wrap_attr(run, projective.Transformation, "inv", hook_inv)

    def hook_matmul(call):
        A = call.args[0]
        B = call.args[1] if len(call.args) > 1 else None
        if call.exc is not None or not isinstance(B, projective.Transformation):
            return
        pa, pb = _prov.get(A), _prov.get(B)
        if pa is None or pb is None:
            return
        if call.result in _prov:
            return m_prov.ok()
        M = _mats(call.result)
        if M is None:
            return m_prov.fail("provenance-form/matmul-result-not-a-transformation",
                               "A @ B of two certified isometries is not a transformation",
                               run.current_case)
        Ma, Mb = _mats(A), _mats(B)
        if Ma is None or Mb is None:
            return m_prov.skip("non-real data")
        slack = composition_slack(Ma, Mb, M, pa["res"], pb["res"])
        if slack > 1e-4:
            return m_prov.skip("cancellation beyond the stressed class")
        certify(run, m_prov, call.result, "composition",
                "provenance-form/composition-not-form-preserving",
                "A @ B of two certified isometries", slack=slack)

    attach.wrap_attr(run, projective.Transformation, "__matmul__", hook_matmul)

    def hook_getitem(call):
        A = call.args[0]
        if not isinstance(A, projective.Transformation) or call.exc is not None:
            return
        pa = _prov.get(A)
        if pa is None:
            return
        item = call.args[1] if len(call.args) > 1 else None
        items = item if isinstance(item, tuple) else (item,)
        outer = np.asarray(A.proj_data).ndim - 2
        if len(items) > outer or not all(isinstance(i, (int, np.integer, slice)) for i in items):
            return
        certify(run, m_prov, call.result, "unit of " + pa["origin"],
                "provenance-form/unit-of-composite-not-form-preserving",
                "a unit taken from a certified composite isometry", slack=2.0 * pa["res"])

    attach.wrap_attr(run, projective.ProjectiveObject, "__getitem__", hook_getitem,
                     label="Transformation.__getitem__")

    # -- frame completion ----------------------------------------------------------------
    def pre_copy(argname, pos):
        def pre(call):
            a = call.args[pos] if len(call.args) > pos else call.kwargs.get(argname)
            try:
                return np.array(a, copy=True)
            except Exception:
                return None
        return pre

    def frame_domain(form, rows):
        if not is_minkowski(form):
            return None, "form is not diag(-1,1,...,1)"
        X = _real(rows)
        if X is None or X.ndim < 2 or X.size == 0 or X.shape[-1] != np.asarray(form).shape[-1]:
            return None, "frame is not a real (...,k,n) array"
        if X.shape[-2] > X.shape[-1]:
            return None, "more rows than the dimension"
        worst = np.inf
        for U in X.reshape((-1,) + X.shape[-2:]):
            worst = min(worst, frame_margin(U))
        if not (worst >= 1e-6):
            return None, "a nested span is (nearly) degenerate for the form"
        return (X, 1.0 / worst), None

    def spans_nested(res, src, tol):
        """row j of res lies in span(src[:j+1])."""
        worst = 0.0
        for j in range(res.shape[0]):
            B = src[:j + 1]
            B = B / np.linalg.norm(B, axis=-1, keepdims=True)
            r = res[j] / np.linalg.norm(res[j])
            coef, *_ = np.linalg.lstsq(B.T, r, rcond=None)
            worst = max(worst, float(np.max(np.abs(B.T @ coef - r))))
        return worst

    def hook_orthogonalize(call, before):
        if call.exc is not None:
            return
        form = call.args[0] if call.args else call.kwargs.get("form")
        d, reason = frame_domain(form, before)
        if d is None:
            return m_frame.skip("indefinite_orthogonalize: " + reason)
        X, cond = d
        R = _real(call.result)
        if R is None or R.shape != X.shape:
            return m_frame.fail("frame-completion/bad-result-shape/indefinite_orthogonalize",
                                "indefinite_orthogonalize returned shape %r for %r"
                                % (None if R is None else R.shape, X.shape), run.current_case)
        tol = TOL * cond
        worst_g, worst_s = 0.0, 0.0
        for U, V in zip(R.reshape((-1,) + R.shape[-2:]), X.reshape((-1,) + X.shape[-2:])):
            if not np.all(np.isfinite(U)):
                worst_g = np.inf
                break
            G = ri.form_gram(U)
            sc = max(1.0, ri.maxabs(U)) ** 2
            worst_g = max(worst_g, ri.maxabs(np.abs(G) - np.eye(len(G))) / sc)
            worst_s = max(worst_s, spans_nested(U, V, tol))
        case = {"workload_case": run.current_case, "frame": X, "result": R}
        m_frame.judge(worst_g, tol, "frame-completion/not-orthonormal/indefinite_orthogonalize",
                      "indefinite_orthogonalize: rows are not orthonormal for diag(-1,1,..,1)",
                      case if worst_g > tol else None)
        m_frame.judge(worst_s, tol * 10, "frame-completion/span-not-kept/indefinite_orthogonalize",
                      "indefinite_orthogonalize: row j leaves the span of the first j input rows",
                      case if worst_s > tol * 10 else None)

    attach.wrap_everywhere(run, ucore.indefinite_orthogonalize, hook_orthogonalize,
                           pre=pre_copy("matrices", 1))

    def hook_find_isometry(call, before):
        if call.exc is not None:
            return
        b = call.bound()
        form = b.get("form")
        if before is not None and np.ndim(before) == 1:
            before = np.asarray(before)[None, :]
        d, reason = frame_domain(form, before)
        if d is None:
            return m_frame.skip("find_isometry: " + reason)
        X, cond = d
        R = _real(call.result)
        n1 = X.shape[-1]
        if R is None or R.shape[-2:] != (n1, n1):
            return m_frame.fail("frame-completion/bad-result-shape/find_isometry",
                                "find_isometry returned shape %r" % (None if R is None else R.shape,),
                                run.current_case)
        tol = TOL * cond
        Ru = R.reshape((-1, n1, n1))
        Xu = X.reshape((-1,) + X.shape[-2:])
        if len(Ru) != len(Xu):
            return m_frame.skip("find_isometry: broadcast frames")
        worst_g, worst_s, neg_bad, det_bad = 0.0, 0.0, 0, 0
        for U, V in zip(Ru, Xu):
            if not np.all(np.isfinite(U)):
                worst_g = np.inf
                break
            G = ri.form_gram(U)
            sc = max(1.0, ri.maxabs(U)) ** 2
            worst_g = max(worst_g, ri.maxabs(np.abs(G) - np.eye(n1)) / sc)
            neg_bad += int(np.sum(np.diag(G) < 0) != 1)
            worst_s = max(worst_s, spans_nested(U[:V.shape[0]], V, tol))
            if b.get("force_oriented") and not (np.linalg.det(U) > 0):
                det_bad += 1
        case = {"workload_case": run.current_case, "partial_map": X, "result": R}
        ok = m_frame.judge(worst_g, tol, "frame-completion/not-orthonormal/find_isometry",
                           "find_isometry: rows are not orthonormal for diag(-1,1,..,1)",
                           case if worst_g > tol else None)
        if ok:
            m_frame.require(neg_bad == 0, "frame-completion/timelike-row-count/find_isometry",
                            "find_isometry: result does not have exactly one timelike row", case)
            m_frame.require(det_bad == 0, "frame-completion/not-oriented/find_isometry",
                            "find_isometry(force_oriented=True) returned det <= 0", case)
        m_frame.judge(worst_s, tol * 10, "frame-completion/flag-not-kept/find_isometry",
                      "find_isometry: the first j rows do not span the first j rows of the "
                      "partial map", case if worst_s > tol * 10 else None)

    attach.wrap_everywhere(run, ucore.find_isometry, hook_find_isometry,
                           pre=pre_copy("partial_map", 1))

    def hook_sl2_to_so21(call):
        ok, info = dom_sl2(call)
        if not ok:
            return m_sl2.skip(info)
        if call.exc is not None:
            return m_sl2.fail("sl2-to-so21/exception:%s" % type(call.exc).__name__,
                              "sl2_to_so21 raised %s: %s" % (type(call.exc).__name__,
                                                             str(call.exc)[:160]),
                              run.current_case, tb=tb_of(call.exc))
        R = _real(call.result)
        A = _real(np.asarray(call.args[0]))
        if R is None or R.shape != A.shape[:-2] + (3, 3):
            return m_sl2.fail("sl2-to-so21/bad-result-shape",
                              "sl2_to_so21 returned shape %r for input %r"
                              % (None if R is None else R.shape, A.shape), run.current_case)
        m_sl2.judge(float(np.max(ri.form_residual_both(R))), TOL,
                    "sl2-to-so21/form-not-preserved",
                    "sl2_to_so21(A) does not preserve diag(-1,1,1) for |det A| = 1",
                    {"workload_case": run.current_case, "A": A, "image": R})

    attach.wrap_everywhere(run, liecore.sl2_to_so21, hook_sl2_to_so21)


# ---------------------------------------------------------------------------
# W: distance invariance and type preservation

def point_classes(rng, n, shape, cls):
    """pairs of Klein coordinates of interior points by conditioning class."""
    if cls == "bulk":
        kx = rh.rand_ball(rng, n, shape, rmax=0.95)
        ky = rh.rand_ball(rng, n, shape, rmax=0.95)
    elif cls == "near-boundary":
        kx = rh.rand_ball(rng, n, shape, rmax=1 - 1e-4, rmin=0.99)
        ky = rh.rand_ball(rng, n, shape, rmax=1 - 1e-4, rmin=0.9)
    elif cls == "near-coincident":
        kx = rh.rand_ball(rng, n, shape, rmax=0.9)
        ky = kx + 1e-6 * rh.rand_sphere(rng, n, shape)
    elif cls == "identical":
        kx = rh.rand_ball(rng, n, shape, rmax=0.9)
        ky = kx.copy()
    else:
        raise ValueError(cls)
    return kx, ky


POINT_CLASSES = ["bulk", "near-boundary", "near-coincident", "bulk", "identical"]


def check_action(run, T, rng, sig, case=None, reps=2):
    """W monitor distance-type for the isometry object T."""
    from geometry_tools.hyperbolic import Point
    mon = run.monitor("distance-type")
    M = _mats(T)
    if M is None or not np.all(np.isfinite(M)):
        return mon.skip("no real matrix")
    shape = M.shape[:-2]
    n = M.shape[-1] - 1
    s = ri.maxabs(M)
    if s > 1e4:
        return mon.skip("isometry entries beyond 1e4")
    s2 = float(np.max(np.linalg.norm(M, ord=2, axis=(-2, -1))))
    pshape = shape if shape else (5,)
    case = case if case is not None else run.current_case
    # the isometry's own accuracy (cancellation in compositions) enters every bound
    pe = _prov.get(T)
    merr = 10.0 * (n + 1) * (pe["res"] if pe else 0.0) + 1e-13
    for r in range(reps):
        cls = POINT_CLASSES[int(rng.integers(0, len(POINT_CLASSES)))]
        kx, ky = point_classes(rng, n, pshape, cls)
        lam = np.exp(rng.uniform(np.log(0.1), np.log(10), size=pshape + (1,))) * \
            rng.choice([-1.0, 1.0], size=pshape + (1,))
        X = rh.klein_to_proj(kx) * lam
        Y = rh.klein_to_proj(ky)
        ix = np.asarray((T @ Point(X.copy())).proj_data, dtype=float)
        iy = np.asarray(T.apply(Point(Y.copy())).proj_data, dtype=float)
        c = {"workload_case": case, "points_class": cls, "matrix": M, "X": X, "Y": Y}
        if ix.shape != X.shape or iy.shape != Y.shape:
            mon.fail("distance-type/image-shape", "image of %r points has shape %r"
                     % (X.shape, ix.shape), c)
            continue
        qix, qiy = ri.qrel(ix), ri.qrel(iy)
        # kinds: interior stays interior, quantitatively (|<x,x>| is invariant, |x| grows
        # by at most |M|_2)
        lim = -0.25 * np.minimum(np.abs(ri.qrel(X)), np.abs(ri.qrel(Y))) / (s2 * s2)
        if not (np.all(qix < lim) and np.all(qiy < lim)):
            mon.fail("distance-type/interior-point-leaves-the-ball",
                     "image of an interior point is not interior (%s points) %r" % (cls, sig),
                     c, residual=float(max(np.max(qix), np.max(qiy))))
            continue
        if s <= 300:
            d0 = rh.dist_klein(kx, ky)
            d1 = rh.dist_klein(rh.proj_to_klein(ix), rh.proj_to_klein(iy))
            cond = float(1.0 / min(np.min(-qix), np.min(-qiy)))
            if cls in ("near-coincident", "identical"):
                # (the reference distance is the cancellation-free arcsinh form, so no
                # square-root rule is needed near d = 0; measured <= 2e-12)
                tol = 1e-8 + (1e-11 + 10 * merr) * cond
            else:
                tol = 1e-7 + (1e-11 + 10 * merr) * cond
            dr = _state.setdefault("distance_ratio", {})
            dr[cls] = max(dr.get(cls, 0.0), float(np.max(np.abs(d1 - d0))) / tol)
            mon.judge(float(np.max(np.abs(d1 - d0))), tol,
                      "distance-type/distance-changes/" + cls,
                      "reference distance of the images differs from that of the sources "
                      "(%s points) %r" % (cls, sig), c)
        else:
            mon.ok()
    # ideal and exterior test points
    u = rh.rand_sphere(rng, n, pshape)
    I = np.concatenate([np.ones(pshape + (1,)), u], axis=-1) * \
        rng.choice([-1.0, 1.0], size=pshape + (1,)) * rng.uniform(0.5, 2.0, size=pshape + (1,))
    ii = np.asarray(T.apply(Point(I.copy())).proj_data, dtype=float)
    with np.errstate(all="ignore"):
        noise = (1e-11 + 10 * merr) * (np.linalg.norm(I, axis=-1) * s2 /
                                       np.linalg.norm(ii, axis=-1)) ** 2
    mon.require(bool(np.all(np.abs(ri.qrel(ii)) <= noise)),
                "distance-type/ideal-point-leaves-the-boundary",
                "image of an ideal point is not ideal %r" % (sig,),
                {"workload_case": case, "matrix": M, "ideal": I, "image": ii})
    E = np.concatenate([rng.uniform(-0.9, 0.9, size=pshape + (1,)), rh.rand_sphere(rng, n, pshape)],
                       axis=-1) * rng.choice([-1.0, 1.0], size=pshape + (1,))
    ie = np.asarray(T.apply(Point(E.copy())).proj_data, dtype=float)
    mon.require(bool(np.all(ri.qrel(ie) > 0.25 * ri.qrel(E) / (s2 * s2))),
                "distance-type/exterior-point-enters-the-ball",
                "image of an exterior point is not exterior %r" % (sig,),
                {"workload_case": case, "matrix": M, "exterior": E, "image": ie})


def must_be_certified(run, obj, what):
    """the constructor's postcondition must have seen this object."""
    mon = run.monitor("constructor-form")
    if obj not in _prov:
        mon.diag("result of %s not in the provenance table" % what)
        return False
    return True


# ---------------------------------------------------------------------------
# workloads

SHAPES = [(), (4,), (2, 3), (3, 1, 2), (1,)]
RADII = ["bulk", "bulk", "near-boundary", "stressed", "near-origin"]


def klein_by_class(rng, n, shape, cls):
    if cls == "bulk":
        return rh.rand_ball(rng, n, shape, rmax=0.95)
    if cls == "near-boundary":
        return rh.rand_ball(rng, n, shape, rmax=1 - 1e-3, rmin=0.95)
    if cls == "near-origin":
        # Klein radius 1e-9 .. 1e-3 and the exact origin: with a representative in
        # the lower nappe a closed form in 1 + t cancels there (seeded change
        # C02-r8-1); the construction itself is perfectly conditioned
        r = 10 ** rng.uniform(-9, -3, size=tuple(shape) + (1,))
        k = rh.rand_sphere(rng, n, shape) * r
        if rng.random() < 0.5:
            k[(0,) * len(shape)] = 0.0
        return k
    if cls == "stressed":
        r = 1 - 10 ** rng.uniform(-6, -3, size=tuple(shape) + (1,))
        return rh.rand_sphere(rng, n, shape) * r
    raise ValueError(cls)


def wl_origin(run, rng, idx):
    from geometry_tools.hyperbolic import Point, TangentVector, timelike_to, spacelike_to
    dims = [1, 2, 3, 4, 5] if run.tier == "thorough" else [1, 2, 3, 4]
    n = dims[idx % len(dims)]
    shape = SHAPES[(idx // len(dims)) % len(SHAPES)]
    rad = RADII[(idx // (len(dims) * len(SHAPES))) % len(RADII)]
    fo = bool(idx % 2)
    k = klein_by_class(rng, n, shape, rad)
    lam = np.exp(rng.uniform(np.log(0.1), np.log(10), size=tuple(shape) + (1,))) * \
        rng.choice([-1.0, 1.0], size=tuple(shape) + (1,))
    if idx % 5 == 4:
        # homogeneous representatives of very small / large scale (seeded change
        # C02-r2-1: a normalisation that skips vectors of squared norm < 1e-8)
        lam = lam * 10.0 ** rng.uniform(-6, 6, size=tuple(shape) + (1,))
    X = rh.klein_to_proj(k) * lam
    case = {"dimension": n, "shape": list(shape), "radius_class": rad, "force_oriented": fo,
            "points": X}
    run.current_case = case
    sig = ("origin_to", n, shape, rad, fo)
    run.note_class(*sig)
    model = ["projective", "klein", "poincare"][idx % 3]
    if model == "projective":
        p = Point(X.copy())
    elif model == "klein":
        p = Point(k.copy(), model="klein")
    else:
        p = Point(rh.klein_to_poincare(k), model="poincare")
    T = p.origin_to(force_oriented=fo)                       # P
    if must_be_certified(run, T, "Point.origin_to") and rad != "stressed":
        check_action(run, T, rng, sig)
    Ti = T.inv()                                             # P provenance
    T @ Ti                                                   # P provenance (cancellation)
    # timelike_to on the raw vectors: single (n+1,) or composite (k,1,n+1)
    v = X[..., None, :].copy() if shape else X.copy()
    run.note_class("timelike_to", n, shape, rad, fo)
    T2 = timelike_to(v, force_oriented=fo)                   # P
    if rad in ("bulk", "near-origin"):
        check_action(run, T2, rng, ("timelike_to",) + sig[1:], reps=1)
    if n >= 1 and rad == "bulk":
        # spacelike vectors
        a = rng.uniform(-0.9, 0.9, size=tuple(shape) + (1,))
        S0 = np.concatenate([a, rh.rand_sphere(rng, n, shape)], axis=-1)
        S = S0 * lam
        # (rows that the extreme scale class would push below the library's
        # absolute spacelike threshold, with margin, keep a moderate scale)
        short = rh.mink_sq(S) < 1e-5
        S = np.where(short[..., None], S0 * np.sign(lam), S)
        if n >= 2 and idx % 3 == 0:
            from . import c15
            S = c15.rand_normals(rng, n, shape, "lightlike-kernel")
        sv = S[..., None, :].copy() if shape else S.copy()
        run.current_case = dict(case, spacelike=S)
        run.note_class("spacelike_to", n, shape, fo, "lightlike-kernel" if (n >= 2 and idx % 3 == 0) else "generic")
        T3 = spacelike_to(sv, force_oriented=fo)             # P
        check_action(run, T3, rng, ("spacelike_to", n, shape, fo), reps=1)
    if idx % 16 == 1 and n >= 2:
        # out-of-domain arguments are refused (documented GeometryError); recorded, not
        # part of the property
        from geometry_tools.projective import GeometryError
        mon = run.monitor("constructor-form")
        sp = np.zeros(n + 1)
        sp[1] = 1.0
        for f, arg, what in ((timelike_to, sp, "timelike_to(spacelike)"),
                             (spacelike_to, X.reshape(-1, n + 1)[0].copy(), "spacelike_to(timelike)")):
            try:
                f(arg)
                mon.diag(what + " did not raise")
            except GeometryError:
                pass
    if idx < 2:
        run.sample({"workload": "origin", "dimension": n, "shape": list(shape),
                    "radius_class": rad, "points": X})


def wl_tangent(run, rng, idx):
    from geometry_tools.hyperbolic import Point, TangentVector
    dims = [1, 2, 3, 4, 5] if run.tier == "thorough" else [1, 2, 3, 4]
    n = dims[idx % len(dims)]
    shape = SHAPES[(idx // len(dims)) % len(SHAPES)]
    rad = ["bulk", "bulk", "near-boundary"][(idx // 7) % 3]
    fo = bool((idx // 3) % 2)
    kp = klein_by_class(rng, n, shape, rad)
    kq = klein_by_class(rng, n, shape, "bulk")
    P, Q = rh.klein_to_proj(kp), rh.klein_to_proj(kq)
    lam = rng.choice([-1.0, 1.0], size=tuple(shape) + (1,)) * rng.uniform(0.2, 5, size=tuple(shape) + (1,))
    route = ["towards", "explicit-vector", "base-tangent-moved"][idx % 3]
    if route == "explicit-vector" and (idx // 3) % 2:
        # the vector as the user has it: a chord or any ambient vector, which the
        # constructor projects to the tangent space (seeded change C02-r6-1: the
        # frame of origin_to taken from the vector as supplied while find_isometry
        # stopped orthogonalising)
        route = "explicit-nontangent-vector"
    case = {"dimension": n, "shape": list(shape), "radius_class": rad, "force_oriented": fo,
            "route": route, "P": P, "Q": Q}
    run.current_case = case
    sig = ("tangent", n, shape, rad, fo, route)
    run.note_class(*sig)
    if route == "towards":
        tv = Point((P * lam).copy()).unit_tangent_towards(Point(Q.copy()))
        tw = Point(Q.copy()).unit_tangent_towards(Point(P.copy()))
    elif route == "explicit-vector":
        w = rng.normal(size=P.shape)
        tv = TangentVector(Point((P * lam).copy()), rh.tangent_project(P * lam, w) * 3.0)
        tw = TangentVector(Point(Q.copy()), rh.tangent_project(Q, rng.normal(size=Q.shape)))
    elif route == "explicit-nontangent-vector":
        w = rng.normal(size=P.shape)
        w2 = Q - P                                            # a chord
        tv = TangentVector(Point((P * lam).copy()), (w * 3.0 * lam).copy())
        tw = TangentVector(Point(Q.copy()), w2.copy())
    else:
        base = TangentVector.get_base_tangent(n)   # (shape argument is broken in the library: not C02's matter)
        tv = Point(P.copy()).origin_to() @ base               # internal apply on a tangent vector
        tw = Point(Q.copy()).origin_to(force_oriented=False) @ base
    T = tv.origin_to(force_oriented=fo)                      # P
    if must_be_certified(run, T, "TangentVector.origin_to"):
        check_action(run, T, rng, sig, reps=1)
    U = tv.isometry_to(tw, force_oriented=fo) if idx % 2 else tv.isometry_to(tw)   # P + provenance
    if must_be_certified(run, U, "TangentVector.isometry_to"):
        check_action(run, U, rng, ("isometry_to",) + sig[1:], reps=1)
    # internal compositions: point_along uses origin_to().apply(...)
    d = rng.uniform(-2, 2, size=tuple(shape))
    tv.normalized().point_along(d)
    if idx < 1:
        run.sample({"workload": "tangent", "dimension": n, "shape": list(shape), "P": P, "Q": Q})


def rand_sl2pm(rng, shape=(), cond_max=50.0, det=None):
    out = np.empty(tuple(shape) + (2, 2))
    for ind in np.ndindex(*shape) if shape else [()]:
        while True:
            A = rng.normal(size=(2, 2))
            dt = np.linalg.det(A)
            if abs(dt) > 0.1 and np.linalg.cond(A) <= cond_max:
                A = A / math.sqrt(abs(dt))
                if det is not None and np.sign(np.linalg.det(A)) != det:
                    A[0] *= -1
                break
        out[ind] = A
    return out


def wl_standard(run, rng, idx):
    from geometry_tools import hyperbolic
    from geometry_tools.hyperbolic import Isometry, sl2_iso
    dims = [1, 2, 3, 4, 5] if run.tier == "thorough" else [1, 2, 3, 4]
    n = dims[idx % len(dims)]
    kind = ["rotation", "loxodromic", "elliptic", "sl2", "identity", "elliptic-rows",
            "loxodromic-extreme", "sl2-composite", "sl2-integer"][(idx // len(dims)) % 9]
    case = {"dimension": n, "kind": kind}
    sig = ("standard", kind, n)
    if kind == "rotation":
        n = max(n, 2)
        ang = float(rng.choice([rng.uniform(-2 * math.pi, 2 * math.pi), math.pi, -math.pi / 2,
                                2 * math.pi, 1e-9, 0.0]))
        case.update(angle=ang, dimension=n)
        run.current_case = case
        T = Isometry.standard_rotation(ang, dimension=n)
        sig = ("standard", kind, n)
    elif kind in ("loxodromic", "loxodromic-extreme"):
        if kind == "loxodromic":
            par = float(np.exp(rng.uniform(math.log(1 / 20), math.log(20))))
        else:
            par = float(rng.choice([1 / 20, 20.0, 1.0, -3.0, 1 + 1e-9, 300.0]))
        par_arg = par
        if kind == "loxodromic-extreme" and idx % 3 == 0:
            # integer-typed translation parameters (seeded change C02-3: 1/parameter
            # truncated in an integer array)
            par = float(rng.integers(2, 9))
            par_arg = [int(par), np.int64(par), np.array(int(par))][(idx // 3) % 3]
        case.update(parameter=par, parameter_type=type(par_arg).__name__)
        run.current_case = case
        T = Isometry.standard_loxodromic(n, par_arg)
    elif kind in ("elliptic", "elliptic-rows"):
        B = ri.rand_orth_det(rng, n, float(rng.choice([-1.0, 1.0])))
        case.update(block=B)
        run.current_case = case
        T = Isometry.elliptic(n, B) if kind == "elliptic" else \
            Isometry.elliptic(n, B, column_vectors=False)
    elif kind == "identity":
        run.current_case = case
        T = hyperbolic.identity(n)
    else:
        if kind == "sl2":
            A = rand_sl2pm(rng, (), det=float(rng.choice([-1.0, 1.0])))
            arg = A if idx % 2 else A.tolist()
        elif kind == "sl2-composite":
            A = rand_sl2pm(rng, [(3,), (2, 2), (1,)][idx % 3])
            arg = A
        else:
            A = np.eye(2)
            for _ in range(int(rng.integers(1, 6))):
                k = int(rng.integers(-3, 4))
                E = np.array([[1, k], [0, 1]]) if rng.random() < 0.5 else np.array([[1, 0], [k, 1]])
                A = A @ E
            if rng.random() < 0.3:
                A = A @ np.array([[0, 1], [1, 0]])
            arg = A.astype(int) if idx % 2 else A
        case.update(matrix=np.asarray(A, dtype=float), dimension=2)
        run.current_case = case
        T = sl2_iso(arg) if idx % 3 else Isometry.from_sl2(np.asarray(arg))
        sig = ("standard", kind, np.asarray(A).shape[:-2])
    run.note_class(*sig)
    if must_be_certified(run, T, kind):
        check_action(run, T, rng, sig, reps=1)
    T.inv()                                                  # P provenance
    if idx < 2:
        run.sample(dict(case, workload="standard", matrix_rows=np.asarray(T.proj_data)))


def hyperbolic_module():
    from geometry_tools import hyperbolic
    return hyperbolic


def wl_reflections(run, rng, idx):
    from geometry_tools.hyperbolic import Hyperplane, Geodesic, Subspace
    from . import c15
    dims = [2, 3, 4, 5] if run.tier == "thorough" else [2, 3, 4]
    n = dims[idx % len(dims)]
    route = ["normal", "normal-composite", "ideal-points", "normal-composite-2d",
             "integer-normal", "full-data-rescaled"][(idx // len(dims)) % 6]
    cls = ["bulk", "lightlike-kernel", "far", "through-origin"][(idx // (6 * len(dims))) % 4]
    if route == "integer-normal":
        # integer-typed normals are stored un-normalised (seeded change C02-r2-2)
        v = c15.rand_normals(rng, n, [(), (3,)][idx % 2], "integer")
        arg = v[..., None, :].copy() if v.ndim > 1 else v.copy()
        cls = "integer"
    elif route == "full-data-rescaled":
        v = c15.rand_normals(rng, n, (), "bulk")
        arg = None
        cls = "bulk"
    elif route == "normal":
        v = c15.rand_normals(rng, n, (), cls)
        arg = v.copy()
    elif route == "normal-composite":
        v = c15.rand_normals(rng, n, (4,), cls)
        arg = v[:, None, :].copy()                           # (k,1,n+1)
    elif route == "normal-composite-2d":
        v = c15.rand_normals(rng, n, (2, 3), cls)
        arg = v[..., None, :].copy()
    else:
        v = None
    case = {"dimension": n, "route": route, "normal_class": cls, "normals": v}
    run.current_case = case
    sig = ("reflection", n, route, cls)
    run.note_class(*sig)
    if route == "ideal-points":
        P = c15.rand_ideal_points(rng, n, n)
        if idx % 2:
            # ideal points are projective data: representatives in either nappe of
            # the light cone and of any scale, row by row (eigenvector routines such
            # as Isometry.axis() return them like that).  Seeded change C02-r4-1:
            # Gram-Schmidt taking the sign of each row's norm from the form's diagonal.
            P = P * (rng.choice([-1.0, 1.0], size=(n, 1)) * np.exp(rng.uniform(np.log(0.3), np.log(3.0), size=(n, 1))))
            if np.all(P[:, 0] > 0) or np.all(P[:, 0] < 0):
                P[int(rng.integers(n))] *= -1.0
            case["ideal_point_representatives"] = "mixed nappes"
        case["ideal_points"] = P
        W = Geodesic(P.copy()) if n == 2 else Subspace(P.copy())
    elif route == "full-data-rescaled":
        # a Hyperplane rebuilt from its full data with the normal row rescaled
        # (projectively the same wall, no normalisation on this route)
        W0 = Hyperplane(v.copy())
        data = np.array(W0.proj_data, dtype=float)
        data[..., 0, :] *= float(rng.choice([2.5, -0.4, 7.0]))
        W = Hyperplane(data)
    else:
        W = Hyperplane(arg)
    ideal_all, normal_all = c15.ideal_rows_of(W, hyperbolic_module())
    sane = all(c15.wall_domain(iu, None if normal_all is None else c15._units(normal_all, 1)[k])[0]
               is not None for k, iu in enumerate(c15._units(ideal_all, 2)))
    if not sane:
        # Hyperplane(v) itself is not one of C02's constructors; a broken wall comes
        # from spacelike_to, whose postcondition has already reported it
        run.monitor("constructor-form").diag("Hyperplane(v) came out degenerate (see spacelike_to)")
        return
    R = W.reflection_across()                                # P
    if must_be_certified(run, R, "reflection_across") and cls != "far":
        check_action(run, R, rng, sig, reps=1)
    R @ R                                                    # P provenance: composition
    if idx < 1:
        run.sample(dict(case, workload="reflections"))


_COX = None


def cox_list():
    global _COX
    if _COX is None:
        _COX = ri.hyperbolic_coxeter_matrices()
    return _COX


def ri_cosine(m):
    """cosine matrix of a Coxeter matrix (0 = infinite label -> -1), numpy only."""
    m = np.asarray(m)
    B = np.eye(len(m))
    for i in range(len(m)):
        for j in range(len(m)):
            if i != j:
                B[i, j] = -1.0 if m[i, j] == 0 else -math.cos(math.pi / m[i, j])
    return B


def wl_coxeter(run, rng, idx):
    from geometry_tools import coxeter
    from geometry_tools.hyperbolic import HyperbolicRepresentation
    name, m = cox_list()[idx % len(cox_list())]
    route = ["hyperbolic_rep", "cartan-minkowski", "diagram"][(idx + idx // len(cox_list())) % 3]
    inf_pairs = [(i, j) for i in range(len(m)) for j in range(i + 1, len(m)) if m[i, j] == 0]
    if inf_pairs and idx % 2:
        # a symmetric Cartan matrix that is NOT twice the group's cosine form: the
        # infinite-order edges get parameters below -2 (ultraparallel mirrors).  The
        # diagonalised representation must preserve diag(-1,1,..,1) all the same.
        # Seeded change C02-r5-2: the group's own cosine form diagonalised instead
        # of the Cartan matrix that was passed in.
        route = "tits-vinberg"
    r = len(m)
    gens = "abcde"[:r]
    case = {"coxeter": name, "route": route, "matrix": m}
    run.current_case = case
    if route == "diagram":
        diagram = [(gens[i], gens[j], int(m[i, j])) for i in range(r) for j in range(i + 1, r)]
        G = coxeter.CoxeterGroup(diagram=diagram)
        rep = G.hyperbolic_rep()                             # P
    elif route == "tits-vinberg":
        G = coxeter.CoxeterGroup(matrix=m.copy())
        C = 2.0 * ri_cosine(m)
        params = {}
        for (i, j) in inf_pairs:
            u = -float(rng.uniform(2.2, 5.0))
            params[(i, j)] = u
            C[i, j] = C[j, i] = u
        ev = np.linalg.eigvalsh(C / 2.0)
        if not (np.sum(ev < -1e-3) == 1 and np.sum(ev > 1e-3) == len(m) - 1):
            route = "hyperbolic_rep"
            rep = G.hyperbolic_rep()                         # P
        else:
            case["cartan_parameters"] = {"%d,%d" % k: v for k, v in params.items()}
            if idx % 4 == 1:
                rep = HyperbolicRepresentation(G.tits_vinberg_rep(
                    params, diagonalize=True, order_eigenvalues="minkowski"))
            else:
                rep = HyperbolicRepresentation(G.cartan_representation(
                    C.copy(), diagonalize=True, order_eigenvalues="minkowski"))
    elif route == "hyperbolic_rep":
        G = coxeter.CoxeterGroup(matrix=m.copy())
        rep = G.hyperbolic_rep()                             # P
    else:
        G = coxeter.CoxeterGroup(matrix=m.copy())
        rep = HyperbolicRepresentation(G.cartan_representation(
            2 * G.bilinear_form(), diagonalize=True, order_eigenvalues="minkowski"))
    run.note_class("coxeter", name, route)
    if route in ("tits-vinberg", "cartan-minkowski"):
        # these routes do not pass through hyperbolic_rep's postcondition: the
        # generators of the hyperbolic representation are judged here
        mc = run.monitor("constructor-form")
        for g in gens:
            a = np.asarray(rep.generators[g], dtype=float)
            mc.judge(float(ri.form_residual_both(a)), 1e-7 * max(1.0, ri.maxabs(a)) ** 2,
                     "constructor-form/form-not-preserved/cartan_representation(diagonalize,minkowski)",
                     "generator %r of the diagonalised Cartan representation (%s) does not preserve "
                     "diag(-1,1,..,1)" % (g, route), dict(case, generator=g, matrix=a))
    for g in gens:
        T = rep[g]                                           # P
        if must_be_certified(run, T, "rep[g]") and g == gens[idx % r]:
            check_action(run, T, rng, ("coxeter-generator", name, route), reps=1)
    words = []
    for L in (2, 5, int(rng.integers(6, 31))):
        w = "".join(gens[int(rng.integers(0, r))] for _ in range(L))
        words.append(w)
        W = rep[w]                                           # P
        run.note_class("coxeter-word", r, route, min(L, 12))
        if W in _prov and ri.maxabs(W.proj_data) <= 300:
            check_action(run, W, rng, ("coxeter-word", name, route, L), reps=1)
    comp = rep.isometries(words + list(gens))                # P (composite)
    # (a 30-letter word in a Tits-Vinberg representation with parameters down to -5
    # has entries ~1e19: its numerical inverse is outside any stressed class and
    # np.linalg.inv may find it singular -- thorough seed 5; the inverse of the
    # composite is asked for only while its entries stay below 1e6)
    if ri.maxabs(comp.proj_data) <= 1e6:
        comp.inv()                                           # P provenance
    A, B = rep[words[0]], rep[words[1]]
    (A @ B).inv()                                            # P provenance
    if idx < 1:
        run.sample({"workload": "coxeter", "group": name, "route": route, "words": words})


def make_letters(rng, n):
    """<= 4 certified isometries of dimension n from different constructors."""
    from geometry_tools.hyperbolic import (Point, Isometry, Hyperplane, TangentVector,
                                           spacelike_to, timelike_to)
    from . import c15
    makers = []
    makers.append(("origin_to", lambda: Point(rh.rand_ball(rng, n, (), 0.9), model="klein").origin_to(
        force_oriented=bool(rng.integers(0, 2)))))
    makers.append(("loxodromic", lambda: Isometry.standard_loxodromic(
        n, float(np.exp(rng.uniform(-1.5, 1.5))))))
    makers.append(("elliptic", lambda: Isometry.elliptic(n, rh.rand_orth(rng, n))))
    if n >= 2:
        makers.append(("rotation", lambda: Isometry.standard_rotation(
            float(rng.uniform(-2 * math.pi, 2 * math.pi)), dimension=n)))
        makers.append(("reflection", lambda: Hyperplane(
            c15.rand_normals(rng, n, (), "bulk")).reflection_across()))
        makers.append(("spacelike_to", lambda: spacelike_to(c15.rand_normals(rng, n, (), "bulk"))))
    makers.append(("timelike_to", lambda: timelike_to(
        rh.klein_to_proj(rh.rand_ball(rng, n, (), 0.9)) * float(rng.uniform(0.3, 3)))))
    if n == 2:
        from geometry_tools.hyperbolic import sl2_iso
        makers.append(("sl2", lambda: sl2_iso(rand_sl2pm(rng, (), cond_max=10.0))))
    pick = rng.choice(len(makers), size=min(4, len(makers)), replace=False)
    return [(makers[i][0], makers[i][1]()) for i in pick]


def wl_words(run, rng, idx):
    dims = [1, 2, 3, 4, 5] if run.tier == "thorough" else [1, 2, 3, 4]
    n = dims[idx % len(dims)]
    pattern = ["random", "commutator", "conjugate", "w-winv", "random"][(idx // len(dims)) % 5]
    letters = make_letters(rng, n)
    names = [nm for nm, _ in letters]
    L = int(rng.integers(2, 31))
    case = {"dimension": n, "pattern": pattern, "letters": names,
            "letter_matrices": [np.asarray(t.proj_data) for _, t in letters]}
    run.current_case = case
    for nm, T in letters:
        must_be_certified(run, T, nm)
    before = _state["compositions"]

    def pick():
        nm, T = letters[int(rng.integers(0, len(letters)))]
        if rng.random() < 0.4:
            return nm + "^-1", T.inv()                       # P provenance
        return nm, T

    def product(k):
        word, W = pick()
        hist = [word]
        for _ in range(k - 1):
            w2, T = pick()
            hist.append(w2)
            W = W @ T if rng.random() < 0.7 else W.apply(T)  # P provenance
        return hist, W

    if pattern == "random":
        hist, W = product(L)
    elif pattern == "commutator":
        h1, A = product(max(1, L // 8))
        h2, B = product(max(1, L // 8))
        W = A @ B @ A.inv() @ B.inv()
        hist = ["[", h1, h2, "]"]
    elif pattern == "conjugate":
        h1, A = product(min(4, max(1, L // 3)) if idx % 3 else max(1, L // 3))
        h2, B = product(2)
        W = A @ B @ A.inv()
        hist = [h1, h2, "conj"]
    else:
        hist, A = product(min(5, max(1, L // 2)) if idx % 3 else max(1, L // 2))
        W = A @ A.inv()
    case["word"] = hist
    run.note_class("words", n, pattern, min(L, 30) // 5, tuple(sorted(names)))
    mon = run.monitor("provenance-form")
    if W not in _prov:
        mon.diag("final product of a word not certified (cancellation or size beyond the stressed class)")
    elif _state["compositions"] == before:
        mon.diag("no composition was observed")
    if W in _prov:
        check_action(run, W, rng, ("word", n, pattern), reps=1)
    if idx < 2:
        run.sample({"workload": "words", "dimension": n, "pattern": pattern, "word": hist,
                    "result": np.asarray(W.proj_data)})


def wl_library_internal(run, rng, idx):
    """compositions the library performs itself."""
    from geometry_tools.hyperbolic import Polygon, Point, TangentVector, Isometry
    kind = ["regular_polygon", "regular_polygon-dim3", "isometry_to", "commute",
            "composite-getitem"][idx % 5]
    case = {"kind": kind}
    run.current_case = case
    run.note_class("internal", kind)
    if kind.startswith("regular_polygon"):
        nv = int(rng.integers(3, 9))
        d = 2 if kind == "regular_polygon" else 3
        if idx % 2:
            Polygon.regular_polygon(nv, radius=float(rng.uniform(0.2, 2.5)), dimension=d)
        else:
            Polygon.regular_polygon(nv, angle=float(rng.uniform(0.1, 0.9) * (nv - 2) * math.pi / nv),
                                    dimension=d)
    elif kind == "isometry_to":
        n = int(rng.integers(2, 5))
        P = Point(rh.rand_ball(rng, n, (3,), 0.9), model="klein")
        Q = Point(rh.rand_ball(rng, n, (3,), 0.9), model="klein")
        a = P.unit_tangent_towards(Q)
        b = Q.unit_tangent_towards(P)
        T = a.isometry_to(b)
        check_action(run, T, rng, ("internal", "isometry_to", n), reps=1)
    elif kind == "commute":
        n = int(rng.integers(2, 5))
        A = Isometry.standard_rotation(0.7, dimension=n)
        B = Isometry.standard_loxodromic(n, 2.0)
        A.commute(B)                                          # uses inv() and apply() inside
        B.commute(B)
    else:
        n = int(rng.integers(2, 5))
        C = Point(rh.rand_ball(rng, n, (4,), 0.9), model="klein").origin_to()
        for i in range(4):
            U = C[i]                                          # P provenance: unit of a composite
            if i == 0:
                check_action(run, U, rng, ("internal", "getitem", n), reps=1)
        C[1:3].inv()
    if idx < 1:
        run.sample({"workload": "library-internal", "kind": kind})


def wl_repo_tests(run, rng, idx):
    """the repository's own geometry tests with the postconditions attached:
    every isometry the suite constructs or composes is judged (the tests' own
    outcomes are not ours)."""
    from .. import pytest_run
    names = ("constructor-form", "provenance-form", "frame-completion", "apply-type")
    before = {k: run.monitor(k).evals for k in names}
    files = ["test_hyperbolic.py", "test_projective.py", "test_representation.py",
             "test_drawing.py", "test_utils.py"]
    run.current_case = {"repo_tests": files}
    out = pytest_run.run_repo_tests(run, files)
    run.extra["repo_tests"] = dict(
        {"ran": len(out), "passed": sum(1 for v in out.values() if v == "passed")},
        **{"evaluations:" + k: run.monitor(k).evals - before[k] for k in names})
    if out:
        run.note_class("repo-tests", len(files))


def wl_docs(run, rng, idx):
    """README / docstring programs and examples/*.py as end-to-end workloads
    (tilings by Coxeter words, regular polygons); whether they run is C12's
    question, here only the ambient postconditions judge."""
    from .. import examples
    progs = examples.programs()
    if not progs:
        return
    doc, bl = progs[idx % len(progs)]
    run.current_case = {"document": doc}
    before = run.monitor("constructor-form").evals + run.monitor("provenance-form").evals
    examples.run_program(doc, bl, shrink=(run.tier == "quick"))
    if run.monitor("constructor-form").evals + run.monitor("provenance-form").evals > before:
        run.note_class("doc", doc)


def finalize(run):
    run.extra["provenance"] = {"compositions_checked": _state["compositions"]}
    run.extra["distance_residual_over_tolerance_max"] = {
        k: float("%.3g" % v) for k, v in sorted(_state.get("distance_ratio", {}).items())}
    run.extra["form_residual_max_by_origin"] = {k: float("%.3g" % v) for k, v in
                                                sorted(_state["max_residual"].items())}


WORKLOADS = [
    Workload("origin", wl_origin, quick=400, thorough=14000),
    Workload("tangent", wl_tangent, quick=300, thorough=10000),
    Workload("standard", wl_standard, quick=450, thorough=14400),
    Workload("reflections", wl_reflections, quick=288, thorough=9600),
    Workload("coxeter", wl_coxeter, quick=96, thorough=1440),
    Workload("words", wl_words, quick=450, thorough=16000),
    Workload("library-internal", wl_library_internal, quick=80, thorough=2400),
    Workload("repo-tests-under-monitors", wl_repo_tests, quick=1, thorough=1),
    Workload("docs-as-programs", wl_docs, quick=6, thorough=12),
]
