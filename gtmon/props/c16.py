"""C16 -- affine charts, affine maps and subspace operations in projective space
are exact.

Monitors (P = postcondition on the real function, W = workload relation)
  affine_coords      P projective.affine_coords: rejected exactly when a chart
                       coordinate is zero (real and complex); returned
                       coordinates satisfy x_j = a_j * x_chart (division-free)
  projective_coords  P projective.projective_coords: chart slot == 1, the other
                       slots are the given coordinates, either layout
  in_affine_chart    P Point.in_affine_chart == (chart coordinate != 0)
  affine_linear_map  P acts on the chart as x -> Lx (or xL), judged on probe
                       points with plain row-vector arithmetic on proj_data
  affine_translation P acts on the chart as x -> x + t
  hyperplane_coordinate_transform  P orthogonal, first coordinate of the image
                       of x is a multiple of <x, n>
  intersect          P Subspace.intersect: rows in both spans, dimension a+b-n,
                       composite shape (elementwise / pairwise)
  eigenvector        P v T = lambda v (row convention of proj_data), v != 0
  diagonalize        P M T M^-1 diagonal in the library's composition order;
                       returned inverse is the inverse
  chart-roundtrip    W Point(a, chart_index=i) -> rescale by a non-zero scalar ->
                       affine_coords(i) == a; chart slot == 1; change of chart
  affine-action      W (T @ P).affine_coords(i) against L x, x + t, <x,n>
"""
import traceback

import numpy as np

from ..run import Workload
from .. import attach
from ..ref import lin

ID = "C16"
RULE = ("chart cases = (dimension 1..5, chart index, row/column layout, field in "
        "{real, complex, purely imaginary chart coordinate, integer}, composite "
        "shape, rescaling scalar class); map cases = (dimension, chart, layout, "
        "real/complex L or t with cond<=50 / real normal); subspace cases = "
        "(ambient n<=6, (a,b) with a+b>=n, real/complex, elementwise/pairwise, "
        "batch shapes, transversality>=0.1); eigen cases = (n<=6, real / "
        "complex-conjugate / complex spectrum with gaps>=0.2, unit/composite, "
        "requested eigenvalue / None / absent); non-trivial = in-domain by the "
        "independent predicate; distinct = distinct signatures of those tuples")
ASSUMPTIONS = [
    "chart indices are 0..dimension (negative indices are not part of the API)",
    "normals of hyperplane_coordinate_transform are real 1-d vectors ('orthogonal change')",
    "subspace pairs are judged when both spanning sets have full rank "
    "(sigma_min/sigma_max >= 1e-3) and U+V fills the ambient space with margin "
    ">= 0.02 (generators keep >= 0.1); elementwise intersection needs equal "
    "composite shapes (docstring); the stacked spanning sets must have their n "
    "largest singular values in [1e-6, 1e6] (utils.kernel decides ranks with the "
    "absolute tolerance 1e-8, a documented parameter), generators rescale "
    "spanning vectors by factors in +-[0.1, 10] and complex units",
    "eigenvector/diagonalize are judged for diagonalisable matrices with pairwise "
    "eigenvalue gaps >= 0.2*max|eigenvalue| and eigenvector condition <= 1e3; a "
    "requested eigenvalue is in-domain when it is an eigenvalue to 1e-9 or at "
    "distance >= 0.2 from the spectrum",
    "eigenvector(None) may return any eigenvector",
]
_P = "geometry_tools/projective.py"
ANCHORS = [(_P, q) for q in (
    "affine_coords", "projective_coords", "ProjectiveObject.affine_coords",
    "Point.__init__", "Point.in_affine_chart", "affine_linear_map", "affine_translation",
    "hyperplane_coordinate_transform", "Subspace.intersect", "Transformation.eigenvector",
    "Transformation.diagonalize", "Transformation.apply")] + [
    ("geometry_tools/utils/core.py", "find_definite_isometry"),
    ("geometry_tools/utils/core.py", "broadcast_match"),
    ("geometry_tools/utils/numerical.py", "svd_kernel")]
REQUIRED = [
    (_P, "affine_coords", "apoints = apoints.swapaxes(-1, -2)"),
    (_P, "affine_coords", "_chart_index = np.argmax("),
    (_P, "affine_coords", "if chart_index is not None:"),
    (_P, "projective_coords", "coords = coords.swapaxes(-1, -2)"),
    (_P, "projective_coords", "indices[chart_index:] += 1"),
    (_P, "Subspace.intersect", "p1, p2 = utils.broadcast_match(self.proj_data,"),
    (_P, "Transformation.eigenvector", "eigvec_coords[tuple([*unind.T])] = eigvecs.swapaxes(-1,-2)["),
    (_P, "Transformation.eigenvector", "return Point(eigvec_coords)"),
    (_P, "Transformation.diagonalize", "return conj_transform, conj_transform.inv()"),
    (_P, "affine_translation", "tf[chart_index, chart_index + 1:] = translation[chart_index:]"),
]

TOL = 1e-9
_state = {"run": None}


def _num(x):
    try:
        a = np.asarray(x)
    except Exception:
        return None
    if a.dtype.kind not in "biufc":
        return None
    return a


def _field(a):
    return "complex" if np.iscomplexobj(a) else ("integer" if a.dtype.kind in "biu" else "real")


def _nonzero(x):
    x = np.asarray(x)
    return (x.real != 0) | (x.imag != 0)


def _tb(exc):
    return "".join(traceback.format_exception(type(exc), exc, exc.__traceback__))[-3000:]


def _is_geometry_error(exc):
    return type(exc).__name__ == "GeometryError"


# ---------------------------------------------------------------------------
# chart conversion

def hook_affine_coords(call):
    run = _state["run"]
    mon = run.monitor("affine_coords")
    b = call.bound()
    X = _num(b.get("points"))
    col = bool(b.get("column_vectors"))
    ci = b.get("chart_index")
    if X is None or X.ndim < (2 if col else 1) or X.size == 0:
        return mon.skip("points not a numeric array")
    if not np.all(np.isfinite(X)):
        return mon.skip("points not finite")
    if col:
        X = np.swapaxes(X, -1, -2)
    N = X.shape[-1]
    if N < 2:
        return mon.skip("one-dimensional vector space")
    fld = _field(X)
    lay = "column" if col else "row"
    if ci is not None:
        if not isinstance(ci, (int, np.integer)) or not (0 <= int(ci) < N):
            return mon.skip("chart index outside 0..dimension")
        ci = int(ci)
    case = {"function": "affine_coords", "points": X if X.size <= 200 else X.shape,
            "chart_index": ci, "column_vectors": col}
    flat = X.reshape((-1, N))
    nz = _nonzero(flat)                       # (points, charts)
    if ci is not None:
        inside = bool(np.all(nz[:, ci]))
    else:
        inside = bool(np.any(np.all(nz, axis=0)))
    # purely imaginary / complex chart coordinates get their own key
    if ci is not None and fld == "complex" and inside and np.any(flat[:, ci].real == 0):
        fcls = "purely-imaginary-chart-coordinate"
    else:
        fcls = fld
    cls = "%s/%s/%s" % (fcls, lay, "auto-chart" if ci is None else "given-chart")
    if call.exc is not None:
        if _is_geometry_error(call.exc):
            return mon.require(not inside, "affine_coords/valid-point-rejected/%s" % cls,
                               "GeometryError although every point has a non-zero coordinate in %s"
                               % ("chart %d" % ci if ci is not None else "some standard chart"), case)
        return mon.fail("affine_coords/exception:%s/%s" % (type(call.exc).__name__, cls),
                        "affine_coords raised %s: %s" % (type(call.exc).__name__, str(call.exc)[:160]),
                        case, tb=_tb(call.exc))
    if not inside:
        return mon.fail("affine_coords/zero-chart-coordinate-accepted/%s" % cls,
                        "a point with zero chart coordinate was given affine coordinates", case)
    res = call.result
    if ci is None:
        if not (isinstance(res, tuple) and len(res) == 2):
            return mon.fail("affine_coords/return-type/%s" % cls, "expected (affine, chart_index)", case)
        A, used = res
        try:
            used = int(used)
        except Exception:
            return mon.fail("affine_coords/return-type/%s" % cls, "chart index is not an integer", case)
        if not (0 <= used < N and np.all(nz[:, used])):
            return mon.fail("affine_coords/auto-chart-invalid/%s" % cls,
                            "automatically chosen chart %r does not contain every point" % used, case)
    else:
        A, used = res, ci
    A = _num(A)
    if A is None:
        return mon.fail("affine_coords/return-type/%s" % cls, "affine coordinates are not numeric", case)
    if col:
        A = np.swapaxes(A, -1, -2)
    if A.shape != X.shape[:-1] + (N - 1,):
        return mon.fail("affine_coords/shape/%s" % cls,
                        "affine shape %r for points of shape %r" % (A.shape, X.shape), case)
    if not np.all(np.isfinite(A)):
        return mon.skip("result overflows")
    others = np.delete(X, used, axis=-1)
    xc = X[..., used:used + 1]
    sc = np.maximum(np.max(np.abs(X), axis=-1, keepdims=True), 1e-300)
    r = float(np.max(np.abs(others - A * xc) / sc))
    mon.judge(r, 1e-13, "affine_coords/wrong-coordinates/%s" % cls,
              "x_j != a_j * x_chart for the returned affine coordinates a", dict(case, result=A if A.size <= 200 else A.shape))


def hook_projective_coords(call):
    run = _state["run"]
    mon = run.monitor("projective_coords")
    b = call.bound()
    A = _num(b.get("points"))
    col = bool(b.get("column_vectors"))
    ci = b.get("chart_index")
    if A is None or A.ndim < (2 if col else 1) or A.size == 0:
        return mon.skip("points not a numeric array")
    if col:
        A = np.swapaxes(A, -1, -2)
    d = A.shape[-1]
    if not isinstance(ci, (int, np.integer)) or not (0 <= int(ci) <= d):
        return mon.skip("chart index outside 0..dimension")
    ci = int(ci)
    cls = "%s/%s" % (_field(A), "column" if col else "row")
    case = {"function": "projective_coords", "points": A if A.size <= 200 else A.shape,
            "chart_index": ci, "column_vectors": col}
    if call.exc is not None:
        return mon.fail("projective_coords/exception:%s/%s" % (type(call.exc).__name__, cls),
                        "projective_coords raised %s: %s" % (type(call.exc).__name__, str(call.exc)[:160]),
                        case, tb=_tb(call.exc))
    R = _num(call.result)
    if R is None:
        return mon.fail("projective_coords/return-type/%s" % cls, "result not numeric", case)
    if col:
        R = np.swapaxes(R, -1, -2)
    if R.shape != A.shape[:-1] + (d + 1,):
        return mon.fail("projective_coords/shape/%s" % cls,
                        "result shape %r for affine points of shape %r" % (R.shape, A.shape), case)
    c = dict(case, result=R if R.size <= 200 else R.shape)
    if not mon.require(bool(np.all(R[..., ci] == 1)), "projective_coords/chart-slot-not-1/%s" % cls,
                       "the chart slot of the homogeneous coordinates is not 1", c):
        return
    same = np.delete(R, ci, axis=-1) == A
    nan_both = np.isnan(np.delete(R, ci, axis=-1)) & np.isnan(A)
    mon.require(bool(np.all(same | nan_both)), "projective_coords/coordinates-moved/%s" % cls,
                "the non-chart slots are not the given affine coordinates in order", c)


def hook_in_affine_chart(call):
    run = _state["run"]
    mon = run.monitor("in_affine_chart")
    if call.exc is not None:
        return
    b = call.bound()
    obj = b.get("self")
    ix = b.get("index")
    X = _num(getattr(obj, "proj_data", None))
    if X is None or not isinstance(ix, (int, np.integer)) or not (0 <= int(ix) < X.shape[-1]):
        return mon.skip("no numeric data / index outside 0..dimension")
    want = _nonzero(X[..., int(ix)])
    got = np.asarray(call.result)
    cls = _field(X)
    case = {"function": "Point.in_affine_chart", "proj_data": X if X.size <= 200 else X.shape, "index": int(ix)}
    if got.shape != want.shape:
        return mon.fail("in_affine_chart/shape/%s" % cls, "result shape %r != %r" % (got.shape, want.shape), case)
    mon.require(bool(np.all(got.astype(bool) == want)), "in_affine_chart/wrong-answer/%s" % cls,
                "in_affine_chart differs from (chart coordinate != 0)", case)


# ---------------------------------------------------------------------------
# affine maps

def _probe_points(d, complex_):
    pts = [np.zeros(d)] + [np.eye(d)[i] for i in range(d)]
    g = np.cos(1.0 + np.arange(d)) * 1.7
    pts.append(g)
    P = np.array(pts, dtype=complex if complex_ else float)
    if complex_:
        P[-1] = P[-1] + 1j * np.sin(2.0 + np.arange(d))
    return P


def _embed(x, c):
    """affine rows -> homogeneous rows with 1 in slot c (own implementation)."""
    x = np.asarray(x)
    return np.concatenate([x[..., :c], np.ones(x.shape[:-1] + (1,), dtype=x.dtype), x[..., c:]], axis=-1)


def _act_rows(R, x, c):
    """image of the affine rows x under the row matrix R, read in chart c;
    returns (affine image, |chart coordinate| relative)."""
    y = _embed(x, c) @ R
    yc = y[..., c:c + 1]
    with np.errstate(all="ignore"):
        aff = np.delete(y, c, axis=-1) / yc
    rel = np.abs(yc[..., 0]) / np.maximum(np.max(np.abs(y), axis=-1), 1e-300)
    return aff, rel


def _transformation_matrix(T):
    R = _num(getattr(T, "proj_data", None))
    return R


def hook_affine_linear_map(call):
    run = _state["run"]
    mon = run.monitor("affine_linear_map")
    b = call.bound()
    L = _num(b.get("linear_map"))
    c = b.get("chart_index")
    colv = bool(b.get("column_vectors"))
    if L is None or L.ndim != 2 or L.shape[0] != L.shape[1] or L.shape[0] == 0 or not np.all(np.isfinite(L)):
        return mon.skip("linear map not a finite square matrix")
    d = L.shape[0]
    if not isinstance(c, (int, np.integer)) or not (0 <= int(c) <= d):
        return mon.skip("chart index outside 0..dimension")
    c = int(c)
    cls = "%s/%s" % (_field(L), "column_vectors" if colv else "row_vectors")
    case = {"function": "affine_linear_map", "linear_map": L, "chart_index": c, "column_vectors": colv}
    if call.exc is not None:
        return mon.fail("affine_linear_map/exception:%s/%s" % (type(call.exc).__name__, cls),
                        "affine_linear_map raised %s: %s" % (type(call.exc).__name__, str(call.exc)[:160]),
                        case, tb=_tb(call.exc))
    R = _transformation_matrix(call.result)
    if R is None or R.shape != (d + 1, d + 1):
        return mon.fail("affine_linear_map/shape/%s" % cls, "result is not a (d+1)x(d+1) transformation", case)
    x = _probe_points(d, np.iscomplexobj(L) or np.iscomplexobj(R))
    want = x @ L.T if colv else x @ L
    got, rel = _act_rows(R, x, c)
    cc = dict(case, matrix=R)
    if not mon.require(bool(np.all(rel > 1e-12)), "affine_linear_map/chart-not-preserved/%s" % cls,
                       "an affine point is sent out of the chart", cc):
        return
    sc = 1.0 + np.max(np.abs(L)) * np.max(np.abs(x))
    mon.judge(float(np.max(np.abs(got - want)) / sc), 1e-12, "affine_linear_map/wrong-action/%s" % cls,
              "the transformation does not act as x -> %s in chart %d" % ("Lx" if colv else "xL", c), cc)


def hook_affine_translation(call):
    run = _state["run"]
    mon = run.monitor("affine_translation")
    b = call.bound()
    t = _num(b.get("translation"))
    c = b.get("chart_index")
    if t is None or t.ndim != 1 or t.size == 0 or not np.all(np.isfinite(t)):
        return mon.skip("translation not a finite vector")
    d = t.shape[0]
    if not isinstance(c, (int, np.integer)) or not (0 <= int(c) <= d):
        return mon.skip("chart index outside 0..dimension")
    c = int(c)
    cls = _field(t)
    case = {"function": "affine_translation", "translation": t, "chart_index": c}
    if call.exc is not None:
        return mon.fail("affine_translation/exception:%s/%s" % (type(call.exc).__name__, cls),
                        "affine_translation raised %s: %s" % (type(call.exc).__name__, str(call.exc)[:160]),
                        case, tb=_tb(call.exc))
    R = _transformation_matrix(call.result)
    if R is None or R.shape != (d + 1, d + 1):
        return mon.fail("affine_translation/shape/%s" % cls, "result is not a (d+1)x(d+1) transformation", case)
    x = _probe_points(d, np.iscomplexobj(t) or np.iscomplexobj(R))
    got, rel = _act_rows(R, x, c)
    cc = dict(case, matrix=R)
    if not mon.require(bool(np.all(rel > 1e-12)), "affine_translation/chart-not-preserved/%s" % cls,
                       "an affine point is sent out of the chart", cc):
        return
    sc = 1.0 + np.max(np.abs(t)) + np.max(np.abs(x))
    mon.judge(float(np.max(np.abs(got - (x + t))) / sc), 1e-12, "affine_translation/wrong-action/%s" % cls,
              "the transformation does not act as x -> x + t in chart %d" % c, cc)


def hook_hyperplane_coordinate_transform(call):
    run = _state["run"]
    mon = run.monitor("hyperplane_coordinate_transform")
    b = call.bound()
    nrm = _num(b.get("normal"))
    if nrm is None or nrm.ndim != 1 or nrm.size < 2 or np.iscomplexobj(nrm) or not np.all(np.isfinite(nrm)):
        return mon.skip("normal not a finite real vector of length >= 2")
    nrm = nrm.astype(float)
    if np.linalg.norm(nrm) == 0:
        return mon.skip("zero normal")
    N = nrm.size
    case = {"function": "hyperplane_coordinate_transform", "normal": nrm}
    if call.exc is not None:
        return mon.fail("hyperplane_coordinate_transform/exception:%s" % type(call.exc).__name__,
                        "raised %s: %s" % (type(call.exc).__name__, str(call.exc)[:160]), case, tb=_tb(call.exc))
    R = _transformation_matrix(call.result)
    if R is None or R.shape != (N, N):
        return mon.fail("hyperplane_coordinate_transform/shape", "result is not an n x n transformation", case)
    cc = dict(case, matrix=R)
    if not mon.judge(float(np.max(np.abs(R @ R.T - np.eye(N)))), TOL,
                     "hyperplane_coordinate_transform/not-orthogonal", "the matrix is not orthogonal", cc):
        return
    # (x R)_0 = <x, R[:,0]> must be a multiple of <x, n>: R[:,0] parallel to n
    mon.judge(lin.out_of_span(R[:, 0][None, :], nrm[None, :]), TOL,
              "hyperplane_coordinate_transform/hyperplane-not-sent-to-infinity",
              "the first coordinate of the image of x is not a multiple of <x, n>", cc)


# ---------------------------------------------------------------------------
# subspaces

def hook_intersect(call):
    run = _state["run"]
    mon = run.monitor("intersect")
    b = call.bound()
    A = _num(getattr(b.get("self"), "proj_data", None))
    other = b.get("other")
    B = _num(getattr(other, "proj_data", other))
    bc = b.get("broadcast")
    if A is None or B is None or A.ndim < 2 or B.ndim < 2 or A.shape[-1] != B.shape[-1]:
        return mon.skip("operands not numeric (...,k,n) arrays of one ambient dimension")
    if bc not in ("elementwise", "pairwise"):
        return mon.skip("unknown broadcast rule (documented ValueError)")
    if not (np.all(np.isfinite(A)) and np.all(np.isfinite(B))):
        return mon.skip("not finite")
    n = A.shape[-1]
    a, bb = A.shape[-2], B.shape[-2]
    ba, bB = A.shape[:-2], B.shape[:-2]
    if a > n or bb > n or a + bb < n or a == 0 or bb == 0:
        return mon.skip("dimensions do not add up to at least the ambient dimension")
    if bc == "elementwise" and ba != bB:
        return mon.skip("elementwise intersection of composites of different shape")
    k = a + bb - n
    if bc == "elementwise":
        batch = ba
        pairs = [(ix, ix, ix) for ix in (np.ndindex(*batch) if batch else [()])]
    else:
        batch = ba + bB
        pairs = [(i + j, i, j) for i in (np.ndindex(*ba) if ba else [()])
                 for j in (np.ndindex(*bB) if bB else [()])]
    if len(pairs) > 64:
        step = len(pairs) / 64.0
        pairs = [pairs[int(i * step)] for i in range(64)]
    for _, i, j in pairs:
        sa, sb = lin.sing(A[i]), lin.sing(B[j])
        if sa[-1] / sa[0] < 1e-3 or sb[-1] / sb[0] < 1e-3:
            return mon.skip("a spanning set is (nearly) dependent")
        if lin.transversality(A[i], B[j]) < 0.02:
            return mon.skip("pair not transverse (margin < 0.02)")
        st = lin.sing(np.concatenate([A[i], B[j]], axis=0))
        if st[0] > 1e6 or st[n - 1] < 1e-6:
            return mon.skip("scale of the spanning vectors outside the kernel routine's rank tolerance")
    fld = "complex" if (np.iscomplexobj(A) or np.iscomplexobj(B)) else "real"
    cls = "%s/%s/%s" % (fld, bc, "composite" if batch else "unit")
    case = {"function": "Subspace.intersect", "self": A if A.size <= 300 else A.shape,
            "other": B if B.size <= 300 else B.shape, "broadcast": bc}
    if call.exc is not None:
        return mon.fail("intersect/exception:%s/%s" % (type(call.exc).__name__, cls),
                        "Subspace.intersect raised %s: %s on a transverse pair"
                        % (type(call.exc).__name__, str(call.exc)[:160]), case, tb=_tb(call.exc))
    I = _num(getattr(call.result, "proj_data", None))
    want = batch + (k, n)
    if I is None or I.shape != want:
        return mon.fail("intersect/shape/%s" % cls,
                        "intersection has data of shape %r, expected %r (dimension a+b-n = %d)"
                        % (getattr(I, "shape", None), want, k), case)
    for o, i, j in pairs:
        rows = I[o]
        c = dict(case, unit=[list(i), list(j)], self=A[i], other=B[j], result=rows)
        if k == 0:
            mon.ok()
            continue
        if not np.all(np.isfinite(rows)):
            mon.fail("intersect/non-finite/%s" % cls, "non-finite intersection", c)
            continue
        if not mon.judge(lin.out_of_span(rows, A[i]), 1e-8, "intersect/not-in-self/%s" % cls,
                         "a vector of the intersection is not in the first subspace", c):
            continue
        if not mon.judge(lin.out_of_span(rows, B[j]), 1e-8, "intersect/not-in-other/%s" % cls,
                         "a vector of the intersection is not in the second subspace", c):
            continue
        mon.require(lin.rank(rows, 1e-7) == k, "intersect/wrong-dimension/%s" % cls,
                    "the %d returned vectors are not independent" % k, c)


# ---------------------------------------------------------------------------
# eigen-decompositions

def _spectrum_class(R):
    """R: (n,n) row matrix.  -> (eigenvalues, ok, reason)."""
    try:
        w, V = np.linalg.eig(R.T)
    except Exception:
        return None, False, "eig failed"
    m = np.max(np.abs(w))
    if m == 0:
        return w, False, "zero matrix"
    gaps = np.abs(w[:, None] - w[None, :]) + np.eye(len(w)) * 1e9
    if np.min(gaps) < 0.2 * m:
        # repeated eigenvalues are in domain for real symmetric / Hermitian
        # matrices (reflections, orthogonal projections plus a scalar...): those
        # are diagonalisable with a perfectly conditioned eigenbasis, whatever
        # the multiplicities, provided distinct eigenvalues are either equal to
        # rounding or well separated
        herm = float(np.max(np.abs(R - np.conj(R.T)))) <= 1e-13 * m
        clustered = bool(np.all((gaps <= 1e-9 * m) | (gaps >= 0.2 * m)))
        if herm and clustered:
            return w, True, None
        return w, False, "eigenvalue gap < 0.2 max|eigenvalue|"
    if np.linalg.cond(V) > 1e3:
        return w, False, "eigenvector matrix condition > 1e3"
    return w, True, None


def hook_eigenvector(call):
    run = _state["run"]
    mon = run.monitor("eigenvector")
    b = call.bound()
    R = _num(getattr(b.get("self"), "proj_data", None))
    lam = b.get("eigenvalue")
    if R is None or R.ndim < 2 or R.shape[-1] != R.shape[-2] or not np.all(np.isfinite(R)):
        return mon.skip("not a finite square transformation")
    if lam is not None:
        lam_a = _num(lam)
        if lam_a is None or lam_a.ndim != 0:
            return mon.skip("eigenvalue not a scalar")
        lam = complex(lam_a)
    n = R.shape[-1]
    batch = R.shape[:-2]
    units = list(np.ndindex(*batch)) if batch else [()]
    if len(units) > 48:
        return mon.skip("more than 48 units")
    info = {}
    present = []
    for ix in units:
        w, ok, why = _spectrum_class(R[ix])
        if not ok:
            return mon.skip(why)
        m = np.max(np.abs(w))
        if lam is None:
            present.append(True)
        else:
            dist = np.min(np.abs(w - lam))
            if dist <= 1e-9 * m:
                present.append(True)
            elif dist >= 0.2 * m:
                present.append(False)
            else:
                return mon.skip("requested eigenvalue neither in the spectrum nor away from it")
        info[ix] = m
        if np.max(np.abs(w.imag)) > 1e-9 * m:
            info["nonreal"] = True
    fld = "complex-matrix" if np.iscomplexobj(R) else (
        "real-matrix-complex-spectrum" if info.get("nonreal") else "real-matrix-real-spectrum")
    lcls = "any" if lam is None else ("complex-eigenvalue" if abs(lam.imag) > 0 else "real-eigenvalue")
    cls = "%s/%s/%s" % (fld, lcls, "composite" if batch else "unit")
    case = {"function": "Transformation.eigenvector", "proj_data": R if R.size <= 300 else R.shape,
            "eigenvalue": None if lam is None else repr(lam)}
    if call.exc is not None:
        if _is_geometry_error(call.exc) and not batch and not present[0]:
            return mon.ok()
        return mon.fail("eigenvector/exception:%s/%s" % (type(call.exc).__name__, cls),
                        "eigenvector raised %s: %s" % (type(call.exc).__name__, str(call.exc)[:160]),
                        case, tb=_tb(call.exc))
    v = _num(getattr(call.result, "proj_data", None))
    if v is None or v.shape != batch + (n,):
        return mon.fail("eigenvector/shape/%s" % cls,
                        "eigenvector data of shape %r for a transformation of shape %r"
                        % (getattr(v, "shape", None), R.shape), case)
    for ix, pres in zip(units, present):
        x = v[ix]
        Ri = R[ix]
        c = dict(case, unit=list(ix), proj_data=Ri, eigenvector=x)
        nx = np.linalg.norm(x)
        if not pres:
            if nx == 0:
                mon.ok()
                continue
        if not mon.require(nx > 0 and np.all(np.isfinite(x)), "eigenvector/degenerate/%s" % cls,
                           "zero / non-finite vector although the eigenvalue is in the spectrum", c):
            continue
        y = x @ Ri
        if lam is None:
            mu = np.vdot(x, y) / np.vdot(x, x)
        else:
            mu = lam
        r = float(np.linalg.norm(y - mu * x) / (nx * max(np.linalg.norm(Ri, 2), 1e-300)))
        mon.judge(r, 1e-9, "eigenvector/not-an-eigenvector/%s" % cls,
                  "the reported vector v does not satisfy v T = %s v" % ("mu" if lam is None else "lambda"), c)


def hook_diagonalize(call):
    run = _state["run"]
    mon = run.monitor("diagonalize")
    b = call.bound()
    R = _num(getattr(b.get("self"), "proj_data", None))
    rinv = bool(b.get("return_inv"))
    if R is None or R.ndim < 2 or R.shape[-1] != R.shape[-2] or not np.all(np.isfinite(R)):
        return mon.skip("not a finite square transformation")
    if b.get("kwargs"):
        return mon.skip("extra keyword arguments")
    n = R.shape[-1]
    batch = R.shape[:-2]
    units = list(np.ndindex(*batch)) if batch else [()]
    if len(units) > 48:
        return mon.skip("more than 48 units")
    for ix in units:
        w, ok, why = _spectrum_class(R[ix])
        if not ok:
            return mon.skip(why)
    cls = "%s/%s/%s" % ("complex-matrix" if np.iscomplexobj(R) else "real-matrix",
                        "with-inverse" if rinv else "M-only", "composite" if batch else "unit")
    case = {"function": "Transformation.diagonalize", "proj_data": R if R.size <= 300 else R.shape,
            "return_inv": rinv}
    if call.exc is not None:
        return mon.fail("diagonalize/exception:%s/%s" % (type(call.exc).__name__, cls),
                        "diagonalize raised %s: %s" % (type(call.exc).__name__, str(call.exc)[:160]),
                        case, tb=_tb(call.exc))
    res = call.result
    if rinv:
        if not (isinstance(res, tuple) and len(res) == 2):
            return mon.fail("diagonalize/return-type/%s" % cls, "expected (M, M^-1)", case)
        M, Mi = (_num(getattr(r, "proj_data", None)) for r in res)
    else:
        M, Mi = _num(getattr(res, "proj_data", None)), None
    if M is None or M.shape != R.shape or (rinv and (Mi is None or Mi.shape != R.shape)):
        return mon.fail("diagonalize/shape/%s" % cls, "M has shape %r for T of shape %r"
                        % (getattr(M, "shape", None), R.shape), case)
    for ix in units:
        m, Ri = M[ix], R[ix]
        c = dict(case, unit=list(ix), proj_data=Ri, M=m)
        cond = np.linalg.cond(m)
        if not mon.require(np.isfinite(cond) and cond < 1e6, "diagonalize/singular-frame/%s" % cls,
                           "the diagonalising frame is singular (cond %g)" % cond, c):
            continue
        # library composition: (M.inv() @ T @ M).proj_data = M T M^-1 on row matrices
        D = m @ Ri @ np.linalg.inv(m)
        off = D - np.diag(np.diag(D))
        r = float(np.max(np.abs(off)) / max(np.linalg.norm(Ri, 2), 1e-300)) if n > 1 else 0.0
        if not mon.judge(r, 1e-9 * max(1.0, cond), "diagonalize/not-diagonal/%s" % cls,
                         "M.inv() @ T @ M is not diagonal", c):
            continue
        if rinv:
            mi = Mi[ix]
            ri = float(np.max(np.abs(m @ mi - np.eye(n))) / max(1.0, np.linalg.norm(m, 2) * np.linalg.norm(mi, 2)))
            mon.judge(ri, 1e-9, "diagonalize/inverse/%s" % cls,
                      "the second transformation is not the inverse of the first", dict(c, Minv=mi))


def setup(run):
    from geometry_tools import projective
    _state["run"] = run
    mins = {"affine_coords": 200, "projective_coords": 200, "in_affine_chart": 50,
            "affine_linear_map": 50, "affine_translation": 50,
            "hyperplane_coordinate_transform": 20, "intersect": 100, "eigenvector": 100,
            "diagonalize": 50, "chart-roundtrip": 200, "affine-action": 100}
    for k, v in mins.items():
        run.monitor(k, min_events=v)
    W = attach.wrap_everywhere
    W(run, projective.affine_coords, hook_affine_coords)
    W(run, projective.projective_coords, hook_projective_coords)
    W(run, projective.affine_linear_map, hook_affine_linear_map)
    W(run, projective.affine_translation, hook_affine_translation)
    W(run, projective.hyperplane_coordinate_transform, hook_hyperplane_coordinate_transform)
    attach.wrap_attr(run, projective.Point, "in_affine_chart", hook_in_affine_chart)
    attach.wrap_attr(run, projective.Subspace, "intersect", hook_intersect)
    attach.wrap_attr(run, projective.Transformation, "eigenvector", hook_eigenvector)
    attach.wrap_attr(run, projective.Transformation, "diagonalize", hook_diagonalize)


# ---------------------------------------------------------------------------
# workloads

SHAPES = [(), (3,), (2, 2), (1, 4)]
FIELDS = ["real", "complex", "imaginary-chart", "integer"]
SCALARS = ["positive", "negative", "complex-unit", "complex", "tiny", "huge"]
EXTREME_SCALARS = ["1e-17", "1e-25", "1e-200", "1e+150"]


def _lib_exc_from(e, funcname):
    from .. import core
    return core.lib_frame_of(e.__traceback__) == funcname


def rand_scalars(rng, shape, kind):
    mag = np.exp(rng.uniform(np.log(0.1), np.log(10), size=shape))
    if kind == "positive":
        return mag
    if kind == "negative":
        return -mag
    if kind == "complex-unit":
        return np.exp(1j * rng.uniform(0, 2 * np.pi, size=shape))
    if kind == "complex":
        return mag * np.exp(1j * rng.uniform(0, 2 * np.pi, size=shape))
    if kind == "tiny":
        return mag * 1e-8 * rng.choice([-1.0, 1.0], size=shape)
    if kind in EXTREME_SCALARS:
        s = mag * float(kind) * rng.choice([-1.0, 1.0], size=shape)
        if kind == "1e-25":
            s = s * np.exp(1j * rng.uniform(0, 2 * np.pi, size=shape))
        return s
    return mag * 1e8 * rng.choice([-1.0, 1.0], size=shape)


def rand_affine(rng, shape, d, field):
    if field == "integer":
        return rng.integers(-9, 10, size=shape + (d,))
    a = rng.normal(size=shape + (d,)) * 10 ** rng.uniform(-1, 1)
    if field in ("complex", "imaginary-chart"):
        a = a + 1j * rng.normal(size=shape + (d,))
    return a


def wl_charts(run, rng, idx):
    from geometry_tools import projective
    mon = run.monitor("chart-roundtrip")
    d = 1 + idx % 5
    field = FIELDS[(idx // 5) % 4]
    shape = SHAPES[(idx // 20) % 4]
    skind = SCALARS[(idx // 80) % 6]
    if idx % 4 == 3:
        # "any non-zero rescaling": scalars far below machine epsilon and far above
        # 1/eps (seeded change C16-r3-1: chart membership decided by
        # |coordinate| < eps instead of == 0)
        skind = EXTREME_SCALARS[(idx // 4) % len(EXTREME_SCALARS)]
    if field == "integer" and skind.startswith("complex"):
        skind = "negative"
    for c in range(d + 1):
        a = rand_affine(rng, shape, d, field)
        lam = rand_scalars(rng, shape + (1,), skind)
        if field == "imaginary-chart":
            # the chart coordinate of the rescaled point is purely imaginary
            lam = 1j * np.abs(lam)
        case = {"workload": "charts", "dimension": d, "chart": c, "field": field, "shape": list(shape),
                "scalar": skind, "affine": a, "lambda": lam}
        run.current_case = case
        run.note_class("charts", d, c, field, shape, skind)

        def judge(what, got, want, tol=1e-12):
            got = np.asarray(got)
            want = np.asarray(want)
            if got.shape != want.shape:
                return mon.fail("chart-roundtrip/shape/%s/%s" % (what, field),
                                "%s: shape %r, expected %r" % (what, got.shape, want.shape), case)
            err = float(np.max(np.abs(got - want) / (1.0 + np.abs(want)))) if got.size else 0.0
            return mon.judge(err, tol, "chart-roundtrip/%s/%s" % (what, field),
                             "%s does not give back the affine coordinates" % what, case)
        def g(thunk):
            """run a library call; a GeometryError raised by affine_coords is
            judged by its postcondition (valid point rejected) -> None here."""
            try:
                return thunk()
            except Exception as e:
                if not _lib_exc_from(e, "projective.affine_coords"):
                    raise
                return None
        P = projective.Point(a.copy(), chart_index=c)
        X = np.asarray(P.proj_data)
        mon.require(bool(np.all(X[..., c] == 1)), "chart-roundtrip/chart-slot-not-1/%s" % field,
                    "Point(a, chart_index=%d) has chart slot != 1" % c, case)
        got = g(lambda: P.affine_coords(chart_index=c))
        if got is not None:
            judge("Point.affine_coords", got, a)
        Y = X * lam
        Q = projective.Point(Y.copy())
        got = g(lambda: Q.affine_coords(chart_index=c))
        if got is not None:
            judge("rescaled Point.affine_coords", got, a, 1e-11)
        got = g(lambda: projective.affine_coords(Y.copy(), chart_index=c))
        if got is not None:
            judge("module affine_coords(row)", got, a, 1e-11)
        # column layout needs >= 2 axes
        if shape:
            Yc = np.swapaxes(Y, -1, -2)
            got = g(lambda: projective.affine_coords(Yc.copy(), chart_index=c, column_vectors=True))
            if got is not None:
                judge("module affine_coords(column)", np.swapaxes(got, -1, -2), a, 1e-11)
            ac = np.swapaxes(a, -1, -2)
            pc = projective.projective_coords(ac.copy(), chart_index=c, column_vectors=True)
            judge("projective_coords(column)", np.swapaxes(pc, -1, -2), X, 0.0)
        judge("projective_coords(row)", projective.projective_coords(a.copy(), chart_index=c), X, 0.0)
        # membership and change of chart
        inn = Q.in_affine_chart(c)
        mon.require(bool(np.all(inn)), "chart-roundtrip/in_affine_chart/%s" % field,
                    "a point built in chart %d is reported outside it" % c, case)
        E = _embed(a, c)
        for c2 in range(d + 1):
            if c2 == c:
                continue
            member = np.asarray(Q.in_affine_chart(c2))
            want_member = _nonzero(E[..., c2])
            mon.require(bool(np.array_equal(member, want_member)),
                        "chart-roundtrip/in_affine_chart/%s" % field,
                        "membership in chart %d differs from (coordinate != 0)" % c2, case)
            if np.all(want_member):
                b2 = g(lambda: Q.affine_coords(chart_index=c2))
                if b2 is not None:
                    # independent change of chart: divide own embedding
                    want = np.delete(E / E[..., c2:c2 + 1], c2, axis=-1)
                    judge("change of chart", b2, want, 1e-10)
        # automatic chart
        res = g(lambda: projective.affine_coords(Y.copy()))
        if res is not None:
            aff, used = res
            judge("automatic chart", aff, np.delete(E / E[..., int(used):int(used) + 1], int(used), axis=-1), 1e-10)
    # points outside a chart must be rejected, exactly those
    c = int(rng.integers(0, d + 1))
    a = rand_affine(rng, (4,), d, field)
    X = _embed(a, c).astype(complex if field in ("complex", "imaginary-chart") else float)
    c2 = (c + 1) % (d + 1)
    X[1, c2] = 0
    run.current_case = {"workload": "charts", "class": "zero-chart-coordinate", "points": X, "chart": c2}
    run.note_class("charts-outside", d, field)
    try:
        projective.affine_coords(X.copy(), chart_index=c2)
    except Exception as e:
        if not _lib_exc_from(e, "projective.affine_coords"):
            raise
    member = np.asarray(projective.Point(X.copy()).in_affine_chart(c2))
    mon.require(bool(not member[1]), "chart-roundtrip/in_affine_chart/%s" % field,
                "a point with zero chart coordinate is reported inside the chart", run.current_case)
    # no standard chart contains all of these points: automatic choice must refuse
    Z = np.eye(d + 1)[: 2 + idx % d] * rand_scalars(rng, (1,), "negative")
    if field in ("complex", "imaginary-chart"):
        Z = Z * 1j
    run.current_case = {"workload": "charts", "class": "no-common-chart", "points": Z}
    try:
        projective.affine_coords(Z.copy())
    except Exception as e:
        if not _lib_exc_from(e, "projective.affine_coords"):
            raise
    if idx < 3:
        run.sample({"dimension": d, "field": field, "shape": list(shape), "scalar": skind})


def wl_maps(run, rng, idx):
    from geometry_tools import projective
    mon = run.monitor("affine-action")
    d = 1 + idx % 5
    cplx = (idx // 5) % 2 == 1
    shape = SHAPES[(idx // 10) % 4]
    for c in range(d + 1):
        L = lin.rand_cond_matrix(rng, d, 50.0, complex_=cplx)
        if idx % 7 == 0:
            L = np.round(L * 3)                      # exact (possibly singular) integer map
        t = rng.normal(size=d) * 10 ** rng.uniform(-1, 1)
        if cplx:
            t = t + 1j * rng.normal(size=d)
        x = rand_affine(rng, shape, d, "complex" if cplx else "real")
        fld = "complex" if cplx else "real"
        case = {"workload": "maps", "dimension": d, "chart": c, "field": fld, "L": L, "t": t, "x": x}
        run.current_case = case
        run.note_class("maps", d, c, fld, shape)
        P = projective.Point(x.copy(), chart_index=c)

        def judge(what, T, want, tol=1e-10):
            try:
                img = T @ P
                got = np.asarray(img.affine_coords(chart_index=c))
            except Exception as e:
                if _lib_exc_from(e, "projective.affine_coords"):
                    return None
                raise
            err = float(np.max(np.abs(got - want) / (1.0 + np.abs(want))))
            return mon.judge(err, tol, "affine-action/%s/%s" % (what, fld),
                             "(T @ P).affine_coords differs from the %s applied to the affine coordinates" % what,
                             case)
        Tl = projective.affine_linear_map(L.copy(), chart_index=c)
        judge("linear-map(column)", Tl, x @ L.T)
        Tr = projective.affine_linear_map(L.copy(), chart_index=c, column_vectors=False)
        judge("linear-map(row)", Tr, x @ L)
        Tt = projective.affine_translation(t.copy(), chart_index=c)
        judge("translation", Tt, x + t)
        judge("translation-after-linear", Tt @ Tl, x @ L.T + t)
        if idx % 3 == 0:
            Tt2 = projective.affine_translation(list(t), chart_index=c)
            judge("translation(list)", Tt2, x + t)
    # hyperplane normal -> chart change
    N = d + 1
    nrm = rng.normal(size=N) * 10 ** rng.uniform(-1, 1)
    if idx % 4 == 0:
        nrm = rng.integers(-4, 5, size=N).astype(float)   # integer normals
        if not np.any(nrm):
            nrm[int(rng.integers(0, N))] = 1.0
    case = {"workload": "maps", "class": "hyperplane", "normal": nrm}
    run.current_case = case
    run.note_class("hyperplane", N, idx % 4 == 0)
    T = projective.hyperplane_coordinate_transform(nrm.copy())
    pts = rng.normal(size=(6, N))
    # three points on the hyperplane (projected), three off it
    pts[:3] -= np.outer(pts[:3] @ nrm, nrm) / (nrm @ nrm)
    img = np.asarray((T @ projective.Point(pts.copy())).proj_data)
    sc = np.linalg.norm(pts, axis=-1)
    mon.judge(float(np.max(np.abs(img[:3, 0]) / sc[:3])), 1e-10, "affine-action/hyperplane-to-infinity",
              "points of the hyperplane n-perp do not get x0 = 0", case)
    want0 = (pts[3:] @ nrm) / np.linalg.norm(nrm)
    mon.judge(float(np.max(np.abs(np.abs(img[3:, 0]) - np.abs(want0)) / sc[3:])), 1e-10,
              "affine-action/hyperplane-chart", "x0 of the image is not +-<x,n>/|n|", case)
    mon.judge(float(np.max(np.abs(np.linalg.norm(img, axis=-1) - sc) / sc)), 1e-10,
              "affine-action/hyperplane-orthogonal", "the coordinate change does not preserve norms", case)


def rand_subspace(rng, batch, k, n, cplx):
    A = rng.normal(size=batch + (k, n))
    if cplx:
        A = A + 1j * rng.normal(size=batch + (k, n))
    return A


AB = [(n, a, b) for n in range(2, 7) for a in range(1, n + 1) for b in range(1, n + 1) if a + b >= n]


def wl_intersect(run, rng, idx):
    from geometry_tools import projective
    n, a, b = AB[idx % len(AB)]
    v = idx // len(AB)
    cplx = v % 2 == 1
    mode = ["elementwise", "pairwise"][(v // 2) % 2]
    bshape = [(), (3,), (2, 2)][(idx + v) % 3]
    if mode == "pairwise":
        ba, bb = bshape, [(2,), (), (1, 3)][(idx + v // 4) % 3]
    else:
        ba = bb = bshape
    for attempt in range(50):
        A = rand_subspace(rng, ba, a, n, cplx)
        B = rand_subspace(rng, bb, b, n, cplx)
        ok = True
        for i in (np.ndindex(*ba) if ba else [()]):
            for j in (np.ndindex(*bb) if bb else [()]):
                if mode == "elementwise" and i != j:
                    continue
                if lin.transversality(A[i], B[j]) < 0.1 or lin.sing(A[i])[-1] < 0.05 or lin.sing(B[j])[-1] < 0.05:
                    ok = False
        if ok:
            break
    else:
        run.monitor("intersect").diag("generator found no transverse pair")
        return
    # hostile: rescale spanning vectors by huge / negative / complex scalars
    A = A * rand_scalars(rng, ba + (a, 1), ["positive", "negative"][v % 2])
    if cplx:
        B = B * rand_scalars(rng, bb + (b, 1), "complex")
    run.current_case = {"workload": "intersect", "n": n, "a": a, "b": b, "complex": cplx, "mode": mode,
                        "self": A, "other": B}
    run.note_class("intersect", n, a, b, cplx, mode, ba, bb)
    SA = projective.Subspace(A.copy())
    other = projective.Subspace(B.copy()) if v % 3 else B.copy()
    try:
        SA.intersect(other, broadcast=mode)
    except Exception as e:
        # exceptions raised in or below intersect are recorded by its postcondition
        if not any(fs.name == "intersect" for fs in traceback.extract_tb(e.__traceback__)):
            raise
    if idx < 2:
        run.sample({"n": n, "a": a, "b": b, "complex": cplx, "mode": mode})


def rand_spectrum(rng, n, kind):
    """n eigenvalues with pairwise gaps >= 0.25 max|.| (constructive: jittered
    grids): real, real with conjugate pairs, complex."""
    M = 10 ** rng.uniform(-0.5, 0.5)
    jit = lambda size: rng.uniform(-0.08, 0.08, size=size)
    if kind == "real":
        base = np.linspace(-1, 1, n) if n > 1 else np.array([1.0])
        w = base + jit(n) * (2.0 / max(n - 1, 1))
        w = w[rng.permutation(n)] + 0j
    elif kind == "conjugate":
        m = n // 2
        grid = [complex(re, im) for re in (-1.0, 0.0, 1.0) for im in (0.8, 1.6)]
        z = np.array([grid[i] for i in rng.permutation(len(grid))[:m]]) + jit(m) + 1j * jit(m)
        rest = np.array([2.2 * rng.choice([-1.0, 1.0])])[: n - 2 * m] + 0j
        w = np.concatenate([z, np.conj(z), rest])
    else:
        grid = [complex(re, im) for re in (-1.0, 0.0, 1.0) for im in (-1.0, 0.0, 1.0) if (re, im) != (0.0, 0.0)]
        w = np.array([grid[i] for i in rng.permutation(len(grid))[:n]]) + jit(n) + 1j * jit(n)
    w = M * w
    g = np.abs(w[:, None] - w[None, :]) + np.eye(n) * 1e9
    assert np.min(g) >= 0.25 * np.max(np.abs(w)), (kind, n, w)
    return w


def real_block_matrix(w):
    """real block-diagonal matrix with spectrum w (conjugate pairs adjacent blocks)."""
    n = len(w)
    D = np.zeros((n, n))
    used = np.zeros(n, dtype=bool)
    k = 0
    for i in range(n):
        if used[i]:
            continue
        if abs(w[i].imag) > 0:
            j = [jj for jj in range(n) if not used[jj] and jj != i and abs(w[jj] - np.conj(w[i])) < 1e-12 * (1 + abs(w[i]))][0]
            used[i] = used[j] = True
            D[k:k + 2, k:k + 2] = [[w[i].real, -w[i].imag], [w[i].imag, w[i].real]]
            k += 2
        else:
            used[i] = True
            D[k, k] = w[i].real
            k += 1
    return D


STRUCTURES = ["generic", "generic", "diagonal", "triangular", "block", "symmetric-repeated", "affine-map"]


def structured_case(rng, n, kind, structure, w):
    """(matrix acting on COLUMN vectors, spectrum) with the requested structure.
    diagonal / triangular / block / affine-map: eigenvectors with exact zero
    coordinates (seeded change C16-r4-3: a phase normalisation by
    sign(v[0]) zeroes them); symmetric-repeated: real symmetric with repeated
    eigenvalues, e.g. hyperplane reflections (seeded change C16-r4-1: the
    transposed eigenvector frame returned as the inverse)."""
    cx = kind == "complex"
    D = np.diag(w) if cx else real_block_matrix(w)
    if structure == "diagonal":
        P = np.eye(n)[rng.permutation(n)]
        return P @ D @ P.T, w
    if structure == "triangular":
        U = np.triu(rng.normal(size=(n, n)) + (1j * rng.normal(size=(n, n)) if cx else 0), 1) * 0.3 + np.eye(n)
        A = U @ D @ np.linalg.inv(U)
        return (np.triu(A) if kind != "conjugate" else A), w
    if structure == "block":
        k = max(1, n // 2)
        S = np.eye(n, dtype=complex if cx else float)
        S[k:, k:] = lin.rand_cond_matrix(rng, n - k, 10.0, complex_=cx) if n - k >= 1 else 1.0
        if kind == "conjugate":
            return lin.rand_cond_matrix(rng, n, 20.0) @ D @ np.eye(n), w     # keep generic for 2x2 blocks
        return S @ D @ np.linalg.inv(S), w
    if structure == "symmetric-repeated":
        q, _ = np.linalg.qr(rng.normal(size=(n, n)))
        vals = [(-1.0,) + (1.0,) * (n - 1), (2.0,) * (n - 1) + (5.0,), (3.0, 3.0) + tuple(-1.0 - i for i in range(n - 2))]
        ww = np.array(vals[int(rng.integers(len(vals)))][:n], dtype=float)
        if n == 2:
            ww = np.array([-1.0, 1.0])
        A = q @ np.diag(ww) @ q.T
        return (A + A.T) / 2.0, ww + 0j
    if structure == "affine-map":
        # the matrix of an affine linear map in chart 0: 1 (+) L, eigenvectors of L
        # lie in x_0 = 0 exactly
        L = lin.rand_cond_matrix(rng, n - 1, 10.0, complex_=cx)
        wl = w[:n - 1]
        Dl = np.diag(wl) if cx else None
        if Dl is None or kind == "conjugate":
            return None, None
        A = np.zeros((n, n), dtype=complex)
        A[0, 0] = w[n - 1]
        A[1:, 1:] = L @ Dl @ np.linalg.inv(L)
        return A, np.concatenate([wl, w[n - 1:]])
    return None, None


def wl_eigen(run, rng, idx):
    from geometry_tools import projective
    n = 2 + idx % 5
    kind = ["real", "conjugate", "complex"][(idx // 5) % 3]
    batch = [(), (3,), (2, 2)][(idx // 15) % 3]
    colv = (idx // 45) % 2 == 0
    structure = STRUCTURES[(idx // 3) % len(STRUCTURES)]
    mats = np.empty(batch + (n, n), dtype=complex if kind == "complex" else float)
    specs = {}
    shared = None
    for ix in (np.ndindex(*batch) if batch else [()]):
        if shared is None or idx % 2:
            w = rand_spectrum(rng, n, kind)
            if shared is None:
                shared = w
        else:
            w = shared                       # same spectrum in every unit
        A = None
        if structure != "generic":
            wr = w if kind != "real" else w.real + 0j
            A, w2 = structured_case(rng, n, "real" if kind == "real" else kind, structure, wr)
            if A is not None and (kind == "complex" or np.max(np.abs(np.imag(A))) == 0):
                w = w2
                A = A if kind == "complex" else np.real(A)
            else:
                A = None
        if A is None:
            S = lin.rand_cond_matrix(rng, n, 20.0, complex_=(kind == "complex"))
            D = np.diag(w) if kind == "complex" else real_block_matrix(w)
            A = S @ D @ np.linalg.inv(S)
        mats[ix] = A
        specs[ix] = w
    run.current_case = {"workload": "eigen", "n": n, "kind": kind, "batch": list(batch), "matrix": mats,
                        "column_vectors": colv, "structure": structure}
    run.note_class("eigen", n, kind, batch, colv, structure)
    T = projective.Transformation(mats.copy(), column_vectors=colv)
    first = specs[next(iter(specs))]
    common = [lam for lam in first if all(np.min(np.abs(w - lam)) < 1e-12 for w in specs.values())]
    lams = list(common[:3])
    for lam in lams:
        lam_arg = float(lam.real) if abs(lam.imag) == 0 else complex(lam)
        try:
            T.eigenvector(lam_arg)
        except Exception as e:
            if not any(fs.name == "eigenvector" for fs in traceback.extract_tb(e.__traceback__)):
                raise
    try:
        T.eigenvector()
    except Exception as e:
        if not any(fs.name == "eigenvector" for fs in traceback.extract_tb(e.__traceback__)):
            raise
    # an absent eigenvalue: GeometryError (unit) / zero vector (composite)
    absent = 10.0 + float(np.max([np.max(np.abs(w)) for w in specs.values()]))
    try:
        T.eigenvector(absent)
    except Exception as e:
        if type(e).__name__ != "GeometryError":
            raise
    for rinv in (False, True):
        try:
            T.diagonalize(return_inv=rinv)
        except Exception as e:
            if not any(fs.name == "diagonalize" for fs in traceback.extract_tb(e.__traceback__)):
                raise
    if idx < 2:
        run.sample({"n": n, "kind": kind, "batch": list(batch), "matrix": mats})


WORKLOADS = [
    Workload("charts", wl_charts, quick=480, thorough=9600),
    Workload("maps", wl_maps, quick=120, thorough=2400),
    Workload("intersect", wl_intersect, quick=4 * len(AB), thorough=48 * len(AB)),
    Workload("eigen", wl_eigen, quick=180, thorough=3600),
]
