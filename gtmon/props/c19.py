"""C19 -- what is drawn is the object.

Every monitor is a postcondition (P) on a draw_* method of
drawtools.HyperbolicDrawing / ProjectiveDrawing: a pre-hook snapshots the artist
lists (ax.patches, ax.collections, ax.lines) of *every* open Axes, the post-hook
takes the new artists and compares them with the independently transformed
object (reference charts of ref.circles, reference transform = the column
matrix the workload built the drawing's isometry from, else transform.proj_data
read with the documented row convention).  Residuals are normalised by the
tolerance of the case.

  placement         the call added its artist(s) to this drawing's Axes and to
                    no other Axes.
  polygon-path      draw_polygon (Poincare / half-plane): one MOVETO; Bezier
                    pieces (Path.iter_bezier, 5 samples each) walk the edges in
                    order: each piece starts/ends at the model coordinates of the
                    vertices, every sample lies on the hyperbolic edge (reference
                    betweenness <= 1e-4, scaled near the boundary), progress along
                    the edge is monotone; a straight piece is accepted only if it
                    is within tolerance of the edge or the edge's reference radius
                    exceeds RADIUS_THRESHOLD and the piece is exactly the
                    substitute (chord / vertical segment at the second endpoint's
                    height).  Branch arms arc / reversed-arc / straight counted.
  klein-polygon     draw_polygon (Klein): PolyCollection paths at Klein coordinates.
  geodesic-artist   draw_geodesic: Arc centre/width/height/angle/theta1/theta2 =
                    reference circle and arc (endpoints, ccw arc on the segment),
                    PathPatch substitute above the threshold, Klein LineCollection.
  point-artist      draw_point: Line2D data = model coordinates.
  horosphere-artist draw_horosphere: EllipseCollection offsets/widths/heights (or
                    the half-plane rectangle for a centre at infinity).
  horoarc-artist    draw_horoarc: Arc on the reference horocycle between the
                    endpoints, avoiding the ideal centre.
  projective-artist ProjectiveDrawing.draw_point / draw_proj_segment /
                    draw_polygon: affine chart coordinates after the transform;
                    assume_affine=False: a polygon that crosses the chart's line at
                    infinity twice becomes two patches, each holding exactly the
                    vertices of one side at their chart coordinates and running off
                    screen along the two crossing edges (reference clipping
                    ref.draw.sign_runs / clipped_piece), also in composites mixed
                    with polygons inside the chart; when the representatives span a
                    convex cone, a 15x15 grid of the view is inside the two patches
                    exactly where it is inside the polygon (ref.draw.cone_membership;
                    vertices up to 50 view diameters away).
  wrong-dimension   objects of dimension != 2 raise GeometryError, add nothing.

The radius threshold is always the one in force for the call (draw_geodesic's /
get_polygon_arcpath's argument, else the module constant).  Artists are judged
against the object's proj_data at the time of the call; the edges handed out by
polygon.get_edges() against the polygon's current vertices (DECLARED).
"""
import math
import traceback
import numpy as np

from .. import attach
from ..ref import hyp as rh
from ..ref import circles as rc
from ..ref import draw as rd

ID = "C19"
RULE = ("cases = (draw method, model / chart, object class, composite shape, "
        "drawing transform (identity or random certified isometry / invertible "
        "projective map), input class): polygons with 3..8 vertices random / convex "
        "/ star-shaped / with an edge through the origin / with a nearly straight "
        "edge of reference radius 40..1e4 and infinite (both sides of "
        "RADIUS_THRESHOLD) / short edges / near-boundary vertices; segments and "
        "geodesics incl. custom radius_threshold; points; horospheres; horoarcs; "
        "projective points, segments, polygons in charts 0..2, composites of polygons "
        "crossing the line at infinity at different vertex indices (assume_affine="
        "False) and with vertices 0.5..50 view diameters outside the window on the "
        "same or on opposite sides; exact special positions (endpoint exactly at the "
        "origin, foot of the perpendicular from the origin, axis-parallel edges ending "
        "on an axis, antipodal, pre-image of the origin under an exact dyadic boost) "
        "for segments and polygon edges; radius thresholds of the caller's own "
        "(12..5000, int / float, keyword / positional) with radii between the default "
        "and the passed threshold, above both, below both, for draw_geodesic and "
        "get_polygon_arcpath; histories draw -> public setter (set_endpoints, "
        "set_center_ref, coords(model, data), item assignment, set) -> draw again for "
        "segments, geodesics, polygons (and their get_edges()), points, horospheres; "
        "custom windows of the drawing constructors (xlim / ylim wider, shifted, "
        "asymmetric, one of the two, narrower) with objects inside the custom window "
        "and outside the default one, incl. exactly vertical half-plane edges; "
        "sign classes of the homogeneous "
        "representatives (positive / negative "
        "/ alternating per unit or per vertex) and the drawing transform written as "
        "-A for every object kind; objects of dimension "
        "1 and 3; drawings that are not pyplot's current axes; non-trivial = "
        "distinct vertices (Klein separation >= 2e-3), inside the half-plane view "
        "when a vertical substitute is expected; distinct = distinct (method, model, "
        "class, shape, transform kind, branch) signatures")
ASSUMPTIONS = [
    "artists are judged at the artist level (paths, arcs, collections), not pixels",
    "the straight substitute above RADIUS_THRESHOLD is accepted exactly as "
    "drawtools defines it (chord in the disk; vertical segment from the first "
    "endpoint to the second endpoint's height in the half-plane) and only when the "
    "reference radius is >= threshold*(1-1e-3) or the piece is within tolerance of "
    "the edge anyway",
    "half-plane edges with a vertical substitute and an endpoint outside the "
    "drawing's horizontal range (the library then flips the substitute) are out of "
    "domain; so are polygons with consecutive vertices closer than 2e-3 (Klein)",
    "half-plane node tolerances follow the square-root rule of the library's "
    "chart at ideal points (3e-5 + 3e-7/sep, times the radius)",
    "a path may start at any vertex and must then visit the others in cyclic order",
    "projective polygons crossing the chart's line at infinity are judged when they "
    "cross it exactly twice (the edges are the segments s X_i + t X_{i+1}, s,t >= 0, "
    "of the given representatives); the closing edge between the two off-screen "
    "artificial vertices is judged only through the coverage of the view (grid "
    "points whose vector makes an angle of sine > 1e-4 with every facet plane of "
    "the cone), and only for representatives spanning a convex cone",
]
DT = "geometry_tools/drawtools.py"
ANCHORS = [(DT, q) for q in (
    "HyperbolicDrawing.preprocess_object", "HyperbolicDrawing.draw_polygon",
    "HyperbolicDrawing.get_polygon_arcpath", "HyperbolicDrawing.get_circle_arcpath",
    "HyperbolicDrawing.get_straight_arcpath", "HyperbolicDrawing.get_vertical_segment",
    "HyperbolicDrawing.draw_geodesic", "HyperbolicDrawing.draw_point",
    "HyperbolicDrawing.draw_horosphere", "HyperbolicDrawing.draw_horoarc",
    "ProjectiveDrawing.preprocess_object", "ProjectiveDrawing.draw_point",
    "ProjectiveDrawing.draw_proj_segment", "ProjectiveDrawing.draw_polygon")]
REQUIRED = [
    (DT, "HyperbolicDrawing.get_polygon_arcpath", "g_path = self.get_circle_arcpath(center, radius, theta)"),
    (DT, "HyperbolicDrawing.get_polygon_arcpath", "g_path = self.get_straight_arcpath(segment)"),
    (DT, "HyperbolicDrawing.get_polygon_arcpath", "g_verts = g_verts[::-1]"),
    (DT, "HyperbolicDrawing.get_straight_arcpath", "v_endpts = self.get_vertical_segment(endpts)"),
    (DT, "HyperbolicDrawing.get_straight_arcpath", "return Path(endpts, [Path.MOVETO, Path.LINETO])"),
    (DT, "HyperbolicDrawing.draw_geodesic", "arcpath = self.get_straight_arcpath(segment)"),
    (DT, "HyperbolicDrawing.draw_geodesic", "arc = Arc(center, radius * 2, radius * 2,"),
    (DT, "HyperbolicDrawing.draw_geodesic", "lines = LineCollection(seglist.endpoint_coords(self.model),"),
    (DT, "HyperbolicDrawing.draw_polygon", "polys = PolyCollection(polylist.coords(\"klein\"), **default_kwargs)"),
    (DT, "HyperbolicDrawing.draw_horosphere", "self.ax.add_collection("),
    (DT, "HyperbolicDrawing.draw_horosphere", "h_rect = Rectangle((self.left_infinity, height),"),
    (DT, "HyperbolicDrawing.draw_horoarc", "arc = Arc(center, radius * 2, radius * 2,"),
    (DT, "HyperbolicDrawing.preprocess_object", "raise GeometryError("),
    (DT, "ProjectiveDrawing.preprocess_object", "raise GeometryError("),
    (DT, "ProjectiveDrawing.draw_polygon", "polys = self.__class__._PolyCollection(polylist.affine_coords("),
]

MIN_SEP = 2e-3
INF_MARGIN = 0.02
THRESH_BAND = 1e-3

# id(object about to be drawn) -> homogeneous data it has to be judged against,
# when that is not the object's own proj_data: the edges handed out by
# polygon.get_edges() are derived (auxiliary) data of the polygon, and must be the
# edges of the polygon's *current* vertices (workload edit-redraw; seeded change
# C19-r6-3: auxiliary data left stale by a public setter).  One-shot.
DECLARED = {}


def model_name(model):
    v = getattr(model, "value", model)
    try:
        v = str(v).lower()
    except Exception:
        return None
    return {"halfplane": "halfspace", "kleinian": "klein", "affine": "klein"}.get(v, v)


def as_float(a):
    try:
        a = np.asarray(a)
        if a.dtype == object or np.iscomplexobj(a):
            return None
        return a.astype(float)
    except Exception:
        return None


def all_axes(drawing):
    from matplotlib import _pylab_helpers
    axes = [drawing.ax]
    for mgr in _pylab_helpers.Gcf.get_all_fig_managers():
        for ax in mgr.canvas.figure.axes:
            if all(ax is not a for a in axes):
                axes.append(ax)
    return axes


def window_of(drawing):
    """((x0, x1), (y0, y1)) of the window actually shown: the limits of the
    drawing's Axes, not attributes the drawing class caches about them."""
    return (tuple(float(v) for v in drawing.ax.get_xlim()),
            tuple(float(v) for v in drawing.ax.get_ylim()))


def offscreen_of(drawing, factor):
    """(left, right), up: where 'off screen' begins for the window actually
    shown, with the margin drawtools defines (OFFSCREEN_FACTOR of the width /
    height), computed from the Axes limits -- never read from the drawing's
    cached left/right/up_infinity (seeded change C19-r7-1: bounds computed from
    the model's default window and not recomputed for a custom one)."""
    (x0, x1), (y0, y1) = window_of(drawing)
    f = float(factor)
    return (x0 - f * (x1 - x0), x1 + f * (x1 - x0)), y1 + f * (y1 - y0)


def snapshot(call):
    drawing = call.args[0]
    return [(ax, len(ax.patches), len(ax.collections), len(ax.lines))
            for ax in all_axes(drawing)]


def new_artists(state):
    """[(ax, new patches, new collections, new lines)] in snapshot order
    (the drawing's own Axes first)."""
    out = []
    for ax, npat, ncol, nlin in state:
        out.append((ax, list(ax.patches)[npat:], list(ax.collections)[ncol:],
                    list(ax.lines)[nlin:]))
    return out


def arm(run, name, count=1):
    if count > 0:
        run.monitor("arm/" + name, min_events=1).ok()
        d = run.extra.setdefault("branch_arms", {})
        d[name] = d.get(name, 0) + int(count)


def ratio_note(run, key, value):
    d = run.extra.setdefault("max_ratio_by_check", {})
    old = d.get(key)
    if old is None or value > old[0]:
        d[key] = [float("%.3g" % value)]


def judge(run, mon, residual, tol, key, what, case):
    ratio = float(residual) / float(tol) if np.isfinite(residual) else float("inf")
    if ratio <= 1.0:
        ratio_note(run, key, ratio)
        return mon.judge(ratio, 1.0, key, what, suspicious=0.2)
    return mon.judge(ratio, 1.0, key, "%s [residual %.3g, tolerance %.3g]"
                     % (what, float(residual), float(tol)), case, suspicious=0.2)


def transform_matrix(drawing):
    """column-convention matrix of the drawing's transform."""
    A = getattr(drawing, "_gtmon_matrix", None)
    if A is not None:
        return np.asarray(A, dtype=float), "workload"
    T = as_float(getattr(drawing.transform, "proj_data", None))
    if T is None or T.ndim != 2:
        return None, None
    return T.T, "proj_data"


def t_on_of(model, sep, dinf=None):
    with np.errstate(all="ignore"):
        if model == "poincare":
            return 1e-7 + 1e-13 / sep ** 2
        amp = 1.0 if dinf is None else np.maximum(1.0, 0.3 / dinf) ** 2
        return (3e-5 + 3e-7 / sep) * amp


def setup(run):
    from geometry_tools import drawtools as D
    from geometry_tools import GeometryError
    from matplotlib.patches import Arc, PathPatch, Rectangle
    from matplotlib.collections import EllipseCollection, LineCollection, PolyCollection
    from matplotlib.lines import Line2D

    m_place = run.monitor("placement", min_events=20)
    m_poly = run.monitor("polygon-path", min_events=20)
    m_kpoly = run.monitor("klein-polygon", min_events=5)
    m_geo = run.monitor("geodesic-artist", min_events=20)
    m_pt = run.monitor("point-artist", min_events=5)
    m_horo = run.monitor("horosphere-artist", min_events=5)
    m_harc = run.monitor("horoarc-artist", min_events=5)
    m_proj = run.monitor("projective-artist", min_events=10)
    m_dim = run.monitor("wrong-dimension", min_events=5)
    for a in ("edge/arc", "edge/reversed-arc", "edge/straight", "geodesic/arc",
              "geodesic/straight"):
        run.monitor("arm/" + a, min_events=1)

    def common(call, state, method):
        """placement + dimension handling.  Returns None when nothing further is
        to be judged, else (drawing, obj, data, A, patches, collections, lines)."""
        drawing = call.args[0]
        if type(drawing).__name__.endswith("3D"):
            return None
        b = call.bound()
        names = list(b)
        obj = b.get(names[1]) if len(names) > 1 else None
        data = as_float(getattr(obj, "proj_data", None))
        declared = DECLARED.pop(id(obj), None)
        if declared is not None:
            data = as_float(declared)
        if data is None:
            return None
        new = new_artists(state)
        own = new[0]
        n_own = len(own[1]) + len(own[2]) + len(own[3])
        n_other = sum(len(p) + len(c) + len(l) for (_, p, c, l) in new[1:])
        case = {"method": method, "drawing": type(drawing).__name__,
                "model": model_name(getattr(drawing, "model", None)),
                "object": type(obj).__name__, "proj_data": data,
                "judged_against": "declared primary data of the owner" if declared is not None
                else "the object's own proj_data", "current_case": run.current_case}
        dim = data.shape[-1] - 1
        if dim != 2:
            ok = isinstance(call.exc, (GeometryError, D.DrawingError)) and n_own + n_other == 0
            m_dim.require(ok, "wrong-dimension/%s/accepted-or-wrong-error" % method,
                          "%s given an object of dimension %d: expected GeometryError and no "
                          "artist, got %s and %d new artists"
                          % (method, dim, type(call.exc).__name__ if call.exc else "no exception",
                             n_own + n_other), case)
            run.note_class("wrong-dimension", method, dim)
            return None
        if call.exc is not None:
            return None            # reported by the runner as exception:<Type>@...
        if data.size == 0:
            return None
        if n_other > 0 or n_own == 0:
            if n_other > 0:
                m_place.fail("placement/%s/artist-added-to-another-axes" % method,
                             "%s added %d artist(s) to an Axes that is not the drawing's own "
                             "(and %d to its own): the drawing is not pyplot's current axes"
                             % (method, n_other, n_own), case)
                return None
            expected_empty = getattr(run, "_c19_expect_nothing", False)
            if not expected_empty:
                m_place.fail("placement/%s/no-artist-added" % method,
                             "%s added no artist to the drawing's Axes" % method, case)
            return None
        m_place.ok()
        want = getattr(drawing, "_gtmon_window", None)
        if want is not None:
            # the window the constructor was asked for is the window shown
            got = window_of(drawing)
            dev = max(abs(a - b_) for w_, g_ in zip(want, got) for a, b_ in zip(w_, g_))
            m_place.require(dev <= 1e-9, "placement/%s/window-not-the-requested-one" % method,
                            "the drawing's Axes show %r, the constructor was given xlim, ylim = %r"
                            % (got, want), case)
        A, src = transform_matrix(drawing)
        if A is None:
            return None
        return drawing, obj, data, A, own[1], own[2], own[3], case

    # ---- hyperbolic polygons ---------------------------------------------------------
    def h_polygon(call, state):
        got = common(call, state, "HyperbolicDrawing.draw_polygon")
        if got is None:
            return
        drawing, obj, data, A, patches, colls, lines, case = got
        model = model_name(drawing.model)
        units = data.reshape((-1,) + data.shape[-2:])
        X = rd.apply_columns(A, units)
        kinds = rh.kind(X, 1e-9)
        K = rc.klein_of_proj(X)
        nv = K.shape[-2]
        if model == "klein":
            if len(colls) != 1 or not isinstance(colls[0], PolyCollection):
                return m_kpoly.fail("klein-polygon/not-one-polycollection",
                                    "expected one PolyCollection, got %r" % [type(c).__name__ for c in colls], case)
            paths = colls[0].get_paths()
            if len(paths) != len(K):
                return m_kpoly.fail("klein-polygon/wrong-number-of-paths",
                                    "%d paths for %d polygons" % (len(paths), len(K)), case)
            worst = 0.0
            for p, k in zip(paths, K):
                v = np.asarray(p.vertices, dtype=float)
                if len(v) < nv or (len(v) > nv and np.max(np.abs(v[nv:] - v[0])) > 1e-12):
                    return m_kpoly.fail("klein-polygon/wrong-vertex-count",
                                        "path has %d vertices for a %d-gon" % (len(v), nv), case)
                worst = max(worst, float(np.max(np.abs(v[:nv] - k))))
            judge(run, m_kpoly, worst, 1e-9, "klein-polygon/vertices-not-at-klein-coordinates",
                  "Klein polygon vertices are not at the Klein coordinates of the transformed "
                  "vertices", case)
            run.note_class("draw_polygon", "klein", nv, data.shape[:-2])
            return
        if model not in ("poincare", "halfspace"):
            return
        if len(patches) != len(K) or not all(isinstance(p, PathPatch) for p in patches):
            return m_poly.fail("polygon-path/wrong-number-of-patches/%s" % model,
                               "%d PathPatch(es) for %d polygons" % (len(patches), len(K)), case)
        thr = float(D.RADIUS_THRESHOLD)      # draw_polygon has no threshold option
        view = offscreen_of(drawing, D.OFFSCREEN_FACTOR)[0]
        for patch, k, knd in zip(patches, K, kinds):
            judge_path(patch.get_path(), k, knd, model, thr, view, case, nv)

    def judge_path(path, k, knd, model, thr, view, case, nv, tag=""):
        """one drawn polygon path against the Klein vertices k, with the radius
        threshold `thr` that is in force for this call."""
        pcase = dict(case, klein_vertices=k, path_vertices=np.asarray(path.vertices),
                     path_codes=None if path.codes is None else np.asarray(path.codes),
                     radius_threshold=thr)
        if not np.all(knd == "interior") or not np.all(np.isfinite(k)):
            return m_poly.skip("vertices not interior")
        sep = np.linalg.norm(np.roll(k, -1, axis=0) - k, axis=-1)
        if np.min(sep) < MIN_SEP:
            return m_poly.skip("consecutive vertices closer than 2e-3 (Klein)")
        if model == "halfspace":
            if np.min(rc.inf_distance(k)) < INF_MARGIN:
                return m_poly.skip("vertex near the half-plane's point at infinity")
            r_edges = rd.edge_radii(k, model)
            Wv = rc.model_of_klein(k, model)
            big = ~np.isfinite(r_edges) | (r_edges >= thr * (1 - THRESH_BAND))
            if np.any(big & ((Wv[:, 0] < view[0] + 1e-6) | (Wv[:, 0] > view[1] - 1e-6) |
                             (np.roll(Wv[:, 0], -1) < view[0] + 1e-6) |
                             (np.roll(Wv[:, 0], -1) > view[1] - 1e-6))):
                return m_poly.skip("vertical substitute with an endpoint outside the view")
        rep = rd.check_polygon_path(path, k, model, thr * (1 - THRESH_BAND) / (1 - 1e-6),
                                    view if model == "halfspace" else None)
        if rep.ill_conditioned:
            return m_poly.skip("node tolerance comparable to an edge's length (short edge of large radius)")
        for name, cnt in rep.branches.items():
            arm(run, "edge/" + ("straight" if name.startswith("straight") else name), cnt)
            run.note_class("polygon-edge", model, name)
        if rep.problems:
            key, text = rep.problems[0]
            m_poly.fail("polygon-path/%s/%s%s" % (key, model, tag),
                        "draw_polygon(%s), %d-gon, radius threshold %g: %s" % (model, nv, thr, text), pcase)
        else:
            ratio_note(run, "polygon-path/betweenness/" + model, rep.max_between)
            ratio_note(run, "polygon-path/node/" + model, rep.max_node)
            m_poly.judge(max(rep.max_between, rep.max_node), 1.0,
                         "polygon-path/tolerance/%s" % model, "tolerance", pcase, suspicious=0.3)
        run.note_class("draw_polygon", model, nv)
    attach.wrap_attr(run, D.HyperbolicDrawing, "draw_polygon", h_polygon, pre=snapshot)

    def h_arcpath(call):
        """get_polygon_arcpath called with a radius threshold of its own (the
        calls draw_polygon makes use the default and are judged there): the path
        may be straight only above the threshold actually passed.  The polygon is
        taken as given (no drawing transform: the caller pre-processes)."""
        if call.exc is not None:
            return
        b = call.bound()
        drawing, poly = call.args[0], b.get("polygon")
        thr = as_float(b.get("radius_threshold"))
        if thr is None or thr.ndim != 0 or float(thr) == float(D.RADIUS_THRESHOLD) \
                or not hasattr(call.result, "vertices"):
            return
        data = as_float(getattr(poly, "proj_data", None))
        model = model_name(drawing.model)
        if data is None or data.ndim != 2 or data.shape[-1] != 3 or model not in ("poincare", "halfspace"):
            return
        knd = rh.kind(data, 1e-9)
        k = rc.klein_of_proj(data)
        view = offscreen_of(drawing, D.OFFSCREEN_FACTOR)[0]
        case = {"method": "HyperbolicDrawing.get_polygon_arcpath", "model": model, "proj_data": data,
                "current_case": run.current_case}
        judge_path(call.result, k, knd, model, float(thr), view, case, data.shape[0],
                   tag="/explicit-threshold")
        run.note_class("get_polygon_arcpath", model, float(thr))
    attach.wrap_attr(run, D.HyperbolicDrawing, "get_polygon_arcpath", h_arcpath)

    # ---- geodesics ---------------------------------------------------------------------------
    def h_geodesic(call, state):
        got = common(call, state, "HyperbolicDrawing.draw_geodesic")
        if got is None:
            return
        drawing, obj, data, A, patches, colls, lines, case = got
        model = model_name(drawing.model)
        thr = float(call.bound().get("radius_threshold", D.RADIUS_THRESHOLD))
        units = data.reshape((-1,) + data.shape[-2:])[:, :2, :]
        X = rd.apply_columns(A, units)
        from . import c14 as c14mod
        kinds = c14mod.classify_endpoints(X)
        K = c14mod.klein_unit(X, kinds)
        if model == "klein":
            if len(colls) != 1 or not isinstance(colls[0], LineCollection):
                return m_geo.fail("geodesic-artist/not-one-linecollection/klein",
                                  "expected one LineCollection", case)
            segs = colls[0].get_segments()
            if len(segs) != len(K):
                return m_geo.fail("geodesic-artist/wrong-number-of-segments/klein",
                                  "%d segments for %d objects" % (len(segs), len(K)), case)
            worst = max(float(np.max(np.abs(np.asarray(s_) - k))) for s_, k in zip(segs, K))
            judge(run, m_geo, worst, 1e-9, "geodesic-artist/endpoints-not-at-klein-coordinates",
                  "Klein segments do not join the Klein coordinates of the endpoints", case)
            run.note_class("draw_geodesic", "klein", type(obj).__name__)
            return
        if model not in ("poincare", "halfspace"):
            return
        if len(patches) != len(K):
            return m_geo.fail("geodesic-artist/wrong-number-of-patches/%s" % model,
                              "%d patches for %d objects" % (len(patches), len(K)), case)
        view = offscreen_of(drawing, D.OFFSCREEN_FACTOR)[0]
        for patch, x, k, knd in zip(patches, X, K, kinds):
            ucase = dict(case, klein_endpoints=k, patch=type(patch).__name__)
            if not np.all(np.isin(knd, ("interior", "ideal"))):
                m_geo.skip("endpoints not in the closed disk")
                continue
            sep = float(np.linalg.norm(k[0] - k[1]))
            if sep < MIN_SEP:
                m_geo.skip("endpoints closer than 2e-3 (Klein)")
                continue
            dinf = None
            if model == "halfspace":
                E = rc.ideal_endpoints(k[0], k[1])
                dinf = float(min(np.min(rc.inf_distance(k)), np.min(rc.inf_distance(E))))
                if dinf < INF_MARGIN:
                    # the circle's ideal endpoints (not the segment's own endpoints) come
                    # close to the point at infinity: a nearly vertical arc of large
                    # radius.  Numbers are not judged there, but the *kind* of artist is:
                    # a straight substitute although the reference radius is below the
                    # threshold in force by more than the library's own conditioning
                    # (20 x the square-root-rule tolerance) -- seeded change C19-r6-2.
                    kd = float(np.min(rc.inf_distance(k)))
                    if dinf > 1e-12 and kd >= INF_MARGIN and np.all(knd == "interior") \
                            and isinstance(patch, PathPatch):
                        with np.errstate(all="ignore"):
                            _, r0 = rc.geodesic_circle(k[0], k[1], model)
                        t0 = float(t_on_of(model, sep, dinf))
                        if np.isfinite(r0) and r0 * (1 + 20 * t0) < thr:
                            m_geo.fail("geodesic-artist/straight-below-threshold/%s" % model,
                                       "a straight path is drawn although the reference radius %.5g is "
                                       "below the threshold %g" % (r0, thr),
                                       dict(ucase, reference_radius=r0, threshold=thr))
                            continue
                    # (nearly) vertical geodesic between interior points that are
                    # themselves away from infinity and inside the window: the straight
                    # substitute is prescribed exactly (from the first endpoint vertically
                    # to the second endpoint's height) and involves no ideal point --
                    # judged with the interior points' own tolerance.  Seeded change
                    # C19-r7-1 (segment treated as running off screen in a custom window).
                    kd = float(np.min(rc.inf_distance(k)))
                    if kd >= INF_MARGIN and np.all(knd == "interior") and isinstance(patch, PathPatch):
                        with np.errstate(all="ignore"):
                            _, r0 = rc.geodesic_circle(k[0], k[1], model)
                        pm0 = rc.model_of_klein(k[0], model)
                        qm0 = rc.model_of_klein(k[1], model)
                        inview = all(view[0] + 1e-6 <= z[0] <= view[1] - 1e-6 for z in (pm0, qm0))
                        v = np.asarray(patch.get_path().vertices, dtype=float)
                        if (not np.isfinite(r0) or r0 >= 10 * thr) and inview and v.shape == (2, 2):
                            expect = np.stack([pm0, np.array([pm0[0], qm0[1]])])
                            tol = 1e-5 * (1 + float(np.max(np.abs(expect)))) * max(1.0, 0.3 / kd) ** 2
                            judge(run, m_geo, float(np.max(np.abs(v - expect))), tol,
                                  "geodesic-artist/substitute-endpoints/%s" % model,
                                  "the straight substitute of a vertical geodesic does not run between "
                                  "the prescribed points", dict(ucase, path_vertices=v, expected=expect))
                            arm(run, "geodesic/straight")
                            continue
                    m_geo.skip("near the half-plane's point at infinity")
                    continue
            with np.errstate(all="ignore"):
                c_ref, r_ref = rc.geodesic_circle(k[0], k[1], model)
            pm = rc.model_of_klein(k[0], model, ideal=(knd[0] == "ideal"))
            qm = rc.model_of_klein(k[1], model, ideal=(knd[1] == "ideal"))
            big = (not np.isfinite(r_ref)) or r_ref >= thr * (1 - THRESH_BAND)
            small = np.isfinite(r_ref) and r_ref <= thr * (1 + THRESH_BAND)
            t_on = float(t_on_of(model, sep, dinf))
            if isinstance(patch, Arc):
                if not small:
                    # an exact arc above the threshold is still the geodesic
                    pass
                ucase.update(arc_center=np.asarray(patch.center), arc_width=patch.width,
                             theta1=patch.theta1, theta2=patch.theta2,
                             reference_centre=c_ref, reference_radius=r_ref)
                if not np.isfinite(r_ref):
                    m_geo.fail("geodesic-artist/arc-for-a-straight-geodesic/%s" % model,
                               "an Arc patch for a geodesic whose reference radius is infinite", ucase)
                    continue
                interior = bool(np.all(knd == "interior"))
                res = rd.check_arc(patch.center, patch.width, patch.height, patch.angle,
                                   patch.theta1, patch.theta2, c_ref, r_ref, pm, qm, interior, model)
                t_c = t_on * (10 * max(1.0, r_ref) if model == "poincare" else 2.0)
                anyideal = bool(np.any(knd == "ideal"))
                t_ang = 4 * t_on + 1e-9 + (1e-6 / r_ref if anyideal else 0.0)
                lam = float(max(rd.conf_factor(pm, model), rd.conf_factor(qm, model))) if interior else 1.0
                pre = "geodesic-artist/arc-"
                if t_c <= 1e-2:
                    judge(run, m_geo, max(res["centre"], res["radius"]), t_c, pre + "centre-or-radius/%s" % model,
                          "Arc centre/width/height are not the reference circle of the geodesic", ucase)
                judge(run, m_geo, res["angle"], 1e-12, pre + "rotated/%s" % model,
                      "Arc patch has a non-zero rotation angle", ucase)
                if t_ang * r_ref < 0.05:
                    judge(run, m_geo, res["ends"], t_ang, pre + "angles-are-not-the-endpoints/%s" % model,
                          "theta1/theta2 of the Arc are not the two endpoints", ucase)
                    m_geo.require(res["inside"] == 0.0, pre + "leaves-the-model/%s" % model,
                                  "the Arc from theta1 to theta2 leaves the model", ucase)
                    if interior:
                        t_b = 1e-6 + 2.5 * t_on * r_ref * lam
                        if t_b <= 0.02:
                            judge(run, m_geo, res["between"], t_b, pre + "not-on-the-segment/%s" % model,
                                  "a point of the Arc from theta1 to theta2 is off the hyperbolic "
                                  "segment (betweenness)", ucase)
                arm(run, "geodesic/arc")
                run.note_class("draw_geodesic", model, type(obj).__name__, "arc", thr)
            elif isinstance(patch, PathPatch):
                v = np.asarray(patch.get_path().vertices, dtype=float)
                codes = patch.get_path().codes
                ucase.update(path_vertices=v, reference_radius=r_ref, threshold=thr)
                if not big:
                    m_geo.fail("geodesic-artist/straight-below-threshold/%s" % model,
                               "a straight path is drawn although the reference radius %.5g is "
                               "below the threshold %g" % (r_ref, thr), ucase)
                    continue
                if model == "halfspace" and not (view[0] + 1e-6 <= pm[0] <= view[1] - 1e-6
                                                 and view[0] + 1e-6 <= qm[0] <= view[1] - 1e-6):
                    m_geo.skip("vertical substitute with an endpoint outside the view")
                    continue
                expect = np.stack([pm, qm]) if model == "poincare" else \
                    np.stack([pm, np.array([pm[0], qm[1]])])
                ok_shape = v.shape == (2, 2) and (codes is None or list(codes) == [1, 2])
                if not ok_shape:
                    m_geo.fail("geodesic-artist/substitute-not-a-two-point-line/%s" % model,
                               "the straight substitute is not MOVETO+LINETO", ucase)
                    continue
                tol = (1e-6 + 4 * t_on) * (1 + float(np.max(np.abs(expect))))
                judge(run, m_geo, float(np.max(np.abs(v - expect))), tol,
                      "geodesic-artist/substitute-endpoints/%s" % model,
                      "the straight substitute does not run between the prescribed points", ucase)
                arm(run, "geodesic/straight")
                run.note_class("draw_geodesic", model, type(obj).__name__, "straight", thr)
            else:
                m_geo.fail("geodesic-artist/unexpected-artist/%s" % model,
                           "unexpected artist %s" % type(patch).__name__, ucase)
    attach.wrap_attr(run, D.HyperbolicDrawing, "draw_geodesic", h_geodesic, pre=snapshot)

    # ---- points --------------------------------------------------------------------------------
    def h_point(call, state):
        got = common(call, state, "HyperbolicDrawing.draw_point")
        if got is None:
            return
        drawing, obj, data, A, patches, colls, lines, case = got
        model = model_name(drawing.model)
        if model not in ("poincare", "halfspace", "klein"):
            return
        X = rd.apply_columns(A, data.reshape(-1, data.shape[-1]))
        kinds = rh.kind(X, 1e-9)
        if not np.all(kinds == "interior"):
            return m_pt.skip("points not interior")
        K = rc.klein_of_proj(X)
        if model == "halfspace" and np.min(rc.inf_distance(K)) < INF_MARGIN:
            return m_pt.skip("near the point at infinity")
        if len(lines) != 1 or not isinstance(lines[0], Line2D):
            return m_pt.fail("point-artist/not-one-line2d", "expected one Line2D", case)
        xy = np.asarray(lines[0].get_xydata(), dtype=float)
        W = rc.model_of_klein(K, model)
        if xy.shape != W.shape:
            return m_pt.fail("point-artist/wrong-number-of-points/%s" % model,
                             "%r data for %r points" % (xy.shape, W.shape), case)
        judge(run, m_pt, float(np.max(np.abs(xy - W) / (1 + np.abs(W)))), 1e-7,
              "point-artist/not-at-model-coordinates/%s" % model,
              "points are not placed at their %s coordinates after the drawing's transform" % model,
              dict(case, drawn=xy, expected=W))
        run.note_class("draw_point", model, data.shape[:-1])
    attach.wrap_attr(run, D.HyperbolicDrawing, "draw_point", h_point, pre=snapshot)

    # ---- horospheres ---------------------------------------------------------------------------
    def horo_refs(X, model):
        from . import c14 as c14mod
        ck = c14mod.classify_endpoints(X[:, 0, :])
        rk = c14mod.classify_endpoints(X[:, 1, :])
        ok = (ck == "ideal") & (rk == "interior")
        e = c14mod.klein_unit(X[:, 0, :], ck)
        kr = rc.klein_of_proj(X[:, 1, :])
        if model == "halfspace":
            with np.errstate(all="ignore"):
                ok = ok & (rc.inf_distance(kr) >= INF_MARGIN)
        return ok, e, kr

    def h_horosphere(call, state):
        run._c19_expect_nothing = False
        got = common(call, state, "HyperbolicDrawing.draw_horosphere")
        if got is None:
            return
        drawing, obj, data, A, patches, colls, lines, case = got
        model = model_name(drawing.model)
        if model not in ("poincare", "halfspace"):
            return
        X = rd.apply_columns(A, data.reshape((-1,) + data.shape[-2:])[:, :2, :])
        ok, e, kr = horo_refs(X, model)
        if not np.all(ok):
            return m_horo.skip("centre not ideal / reference not interior / near infinity")
        thr = float(D.RADIUS_THRESHOLD)
        with np.errstate(all="ignore"):
            c_ref, r_ref = rc.horosphere_sphere(e, X[:, 1, :], model)
        at_inf = rc.inf_distance(e) == 0.0 if model == "halfspace" else np.zeros(len(e), bool)
        near_inf = (rc.inf_distance(e) < INF_MARGIN) & ~at_inf if model == "halfspace" else np.zeros(len(e), bool)
        good = np.isfinite(r_ref) & (r_ref < thr * (1 - THRESH_BAND)) & ~at_inf
        amb = ~good & ~at_inf & (np.isfinite(r_ref) & (r_ref < thr * (1 + THRESH_BAND)) | near_inf)
        if np.any(amb) or np.any(near_inf):
            return m_horo.skip("radius at the threshold / centre near infinity")
        ells = [c for c in colls if isinstance(c, EllipseCollection)]
        ngood = int(np.sum(good))
        if ngood and len(ells) != 1:
            return m_horo.fail("horosphere-artist/not-one-ellipsecollection/%s" % model,
                               "expected one EllipseCollection", case)
        if ngood:
            ec = ells[0]
            off = np.asarray(ec.get_offsets(), dtype=float)
            wid = 2 * np.asarray(ec._widths, dtype=float).ravel()
            hei = 2 * np.asarray(ec._heights, dtype=float).ravel()
            if off.shape != (ngood, 2) or wid.shape != (ngood,):
                return m_horo.fail("horosphere-artist/wrong-number-of-circles/%s" % model,
                                   "%d circles drawn for %d horospheres" % (len(off), ngood), case)
            cg, rg = c_ref[good], r_ref[good]
            pmg = rc.poincare_of_proj(X[good, 1, :])
            amp = np.maximum(1.0, 0.3 / np.clip(1.0 - np.sum(e[good] * pmg, axis=-1), 1e-300, None)) \
                if model == "poincare" else np.ones(ngood)
            tol = 4e-5 * amp
            res = np.maximum(np.linalg.norm(off - cg, axis=-1),
                             np.maximum(np.abs(wid / 2 - rg), np.abs(hei / 2 - rg))) / rg
            i = int(np.argmax(res / tol))
            judge(run, m_horo, res[i], tol[i], "horosphere-artist/circle-differs-from-reference/%s" % model,
                  "the drawn circle (offset, width, height) is not the horosphere's circle",
                  dict(case, drawn_centre=off[i], drawn_width=wid[i], reference_centre=cg[i],
                       reference_radius=rg[i]))
            m_horo.require(str(getattr(ec, "_units", "xy")) == "xy" and
                           float(np.max(np.abs(np.asarray(ec._angles)))) == 0.0,
                           "horosphere-artist/not-in-data-units/%s" % model,
                           "EllipseCollection is not in data units / rotated", case)
        if model == "halfspace":
            rects = [p for p in patches if isinstance(p, Rectangle)]
            nbad = int(np.sum(~good))
            if len(rects) != nbad:
                return m_horo.fail("horosphere-artist/wrong-number-of-rectangles/halfspace",
                                   "%d rectangles for %d horoballs centred at infinity / above the "
                                   "threshold" % (len(rects), nbad), case)
            hts = rc.halfspace_of_proj(X[~good, 1, :])[:, 1]
            for rect, h in zip(rects, hts):
                wx, wy = window_of(drawing)
                okr = abs(rect.get_y() - h) <= 1e-6 * (1 + abs(h)) and \
                    rect.get_x() <= wx[0] and rect.get_x() + rect.get_width() >= wx[1] \
                    and rect.get_y() + rect.get_height() >= wy[1]
                m_horo.require(okr, "horosphere-artist/rectangle-not-the-horoball/halfspace",
                               "the rectangle of a horoball centred at infinity does not start at "
                               "the reference point's height / does not cover the view", case)
        run.note_class("draw_horosphere", model, data.shape[:-2], "rect" if np.any(~good) else "circle")
    attach.wrap_attr(run, D.HyperbolicDrawing, "draw_horosphere", h_horosphere, pre=snapshot)

    def h_horoarc(call, state):
        got = common(call, state, "HyperbolicDrawing.draw_horoarc")
        if got is None:
            return
        drawing, obj, data, A, patches, colls, lines, case = got
        model = model_name(drawing.model)
        if model not in ("poincare", "halfspace") or data.shape[-2] < 3:
            return
        X = rd.apply_columns(A, data.reshape((-1,) + data.shape[-2:]))
        ok, e, k1 = horo_refs(X, model)
        from . import c14 as c14mod
        k2kind = c14mod.classify_endpoints(X[:, 2, :])
        k2 = rc.klein_of_proj(X[:, 2, :])
        ok = ok & (k2kind == "interior")
        if model == "halfspace":
            with np.errstate(all="ignore"):
                ok = ok & (rc.inf_distance(k2) >= INF_MARGIN) & (rc.inf_distance(e) >= INF_MARGIN)
        if len(patches) != len(X):
            return m_harc.fail("horoarc-artist/wrong-number-of-patches/%s" % model,
                               "%d patches for %d arcs" % (len(patches), len(X)), case)
        thr = float(D.RADIUS_THRESHOLD)
        nbad = 0
        nunits = 0
        first_bad = None
        for i, patch in enumerate(patches):
            if not ok[i]:
                m_harc.skip("out of domain")
                continue
            c_ref, r_ref = rc.horosphere_sphere(e[i], X[i, 1, :], model)
            p1 = rc.model_of_proj(X[i, 1, :], model)
            p2 = rc.model_of_proj(X[i, 2, :], model)
            em = rc.model_of_klein(e[i], model, ideal=True)
            if abs(np.linalg.norm(p2 - c_ref) - r_ref) > 1e-4 * r_ref or \
                    thr * (1 - THRESH_BAND) <= r_ref <= thr * (1 + THRESH_BAND):
                m_harc.skip("endpoints not on one horosphere / radius at the threshold")
                continue
            ucase = dict(case, unit=i, reference_centre=c_ref, reference_radius=r_ref,
                         endpoints=np.stack([p1, p2]), ideal_centre=em)
            if r_ref > thr:
                # deliberate substitute: the chord between the endpoints
                okp = isinstance(patch, PathPatch) and np.asarray(patch.get_path().vertices).shape == (2, 2)
                if not okp:
                    m_harc.fail("horoarc-artist/substitute-not-a-two-point-line/%s" % model,
                                "above the radius threshold a two-point path is expected", ucase)
                    continue
                v = np.asarray(patch.get_path().vertices, dtype=float)
                judge(run, m_harc, float(np.max(np.abs(v - np.stack([p1, p2])))),
                      1e-6 * (1 + float(np.max(np.abs(v)))),
                      "horoarc-artist/substitute-endpoints/%s" % model,
                      "the straight substitute does not join the two endpoints", ucase)
                run.note_class("draw_horoarc", model, "straight")
                continue
            if not isinstance(patch, Arc):
                m_harc.fail("horoarc-artist/not-an-arc/%s" % model,
                            "expected an Arc patch below the radius threshold", ucase)
                continue
            a1 = math.atan2(p1[1] - c_ref[1], p1[0] - c_ref[0])
            a2 = math.atan2(p2[1] - c_ref[1], p2[0] - c_ref[0])
            phi = math.atan2(em[1] - c_ref[1], em[0] - c_ref[0])
            gap = min(abs(np.angle(np.exp(1j * (a1 - phi)))), abs(np.angle(np.exp(1j * (a2 - phi)))),
                      abs(np.angle(np.exp(1j * (a1 - a2)))))
            if gap < 1e-3:
                m_harc.skip("endpoints too close to each other or to the ideal centre")
                continue
            res = rd.check_arc(patch.center, patch.width, patch.height, patch.angle,
                               patch.theta1, patch.theta2, c_ref, r_ref, p1, p2, False, model)
            ucase.update(arc_center=np.asarray(patch.center), arc_width=patch.width,
                         theta1=patch.theta1, theta2=patch.theta2)
            amp = max(1.0, 0.3 / max(1e-300, 1.0 - float(np.dot(e[i], rc.poincare_of_proj(X[i, 1, :]))))) \
                if model == "poincare" else 1.0
            tol = 4e-5 * amp
            judge(run, m_harc, max(res["centre"], res["radius"]), tol,
                  "horoarc-artist/circle-differs-from-reference/%s" % model,
                  "the Arc's centre/width are not the horosphere's circle", ucase)
            judge(run, m_harc, res["ends"], 4 * tol + 2e-4,
                  "horoarc-artist/angles-are-not-the-endpoints/%s" % model,
                  "theta1/theta2 of the Arc are not the two endpoints", ucase)
            frac = float(rc.angle_in_ccw_arc(np.radians([patch.theta1, patch.theta2]), phi))
            nunits += 1
            if 0.0 < frac < 1.0:
                nbad += 1
                first_bad = first_bad or ucase
        if nunits:
            cls = "single" if len(patches) == 1 else "composite"
            if nbad:
                m_harc.fail("horoarc-artist/arc-passes-through-ideal-centre/%s/%s" % (cls, model),
                            "the drawn Arc is the complementary arc (it passes through the "
                            "horosphere's ideal centre) for %d of %d arcs" % (nbad, nunits), first_bad)
            else:
                m_harc.ok()
            run.note_class("draw_horoarc", model, cls)
    attach.wrap_attr(run, D.HyperbolicDrawing, "draw_horoarc", h_horoarc, pre=snapshot)

    # ---- projective drawings ---------------------------------------------------------------------
    def proj_common(call, state, method):
        got = common(call, state, method)
        if got is None:
            return None
        drawing, obj, data, A, patches, colls, lines, case = got
        ci = int(getattr(drawing, "chart_index", 0))
        case["chart_index"] = ci
        return drawing, data, A, patches, colls, lines, case, ci

    def h_ppoint(call, state):
        got = proj_common(call, state, "ProjectiveDrawing.draw_point")
        if got is None:
            return
        drawing, data, A, patches, colls, lines, case, ci = got
        X = rd.apply_columns(A, data.reshape(-1, 3))
        if np.min(rd.chart_margin(X, ci)) < 0.02:
            return m_proj.skip("point near the chart's line at infinity")
        if len(lines) != 1:
            return m_proj.fail("projective-artist/draw_point/not-one-line2d", "expected one Line2D", case)
        xy = np.asarray(lines[0].get_xydata(), dtype=float)
        W = rd.affine_chart(X, ci)
        if xy.shape != W.shape:
            return m_proj.fail("projective-artist/draw_point/wrong-number-of-points",
                               "%r data for %r points" % (xy.shape, W.shape), case)
        judge(run, m_proj, float(np.max(np.abs(xy - W) / (1 + np.abs(W)))), 1e-9,
              "projective-artist/draw_point/not-at-chart-coordinates/chart%d" % ci,
              "points are not at their affine coordinates in chart %d after the transform" % ci,
              dict(case, drawn=xy, expected=W))
        run.note_class("proj.draw_point", ci, data.shape[:-1])
    attach.wrap_attr(run, D.ProjectiveDrawing, "draw_point", h_ppoint, pre=snapshot)

    def h_psegment(call, state):
        got = proj_common(call, state, "ProjectiveDrawing.draw_proj_segment")
        if got is None:
            return
        drawing, data, A, patches, colls, lines, case, ci = got
        X = rd.apply_columns(A, data.reshape((-1,) + data.shape[-2:])[:, :2, :])
        if np.min(rd.chart_margin(X, ci)) < 0.02:
            return m_proj.skip("endpoint near the chart's line at infinity")
        if len(colls) != 1 or not isinstance(colls[0], LineCollection):
            return m_proj.fail("projective-artist/draw_proj_segment/not-one-linecollection",
                               "expected one LineCollection", case)
        segs = colls[0].get_segments()
        W = rd.affine_chart(X, ci)
        if len(segs) != len(W):
            return m_proj.fail("projective-artist/draw_proj_segment/wrong-number-of-segments",
                               "%d segments for %d pairs" % (len(segs), len(W)), case)
        worst = max(float(np.max(np.abs(np.asarray(s_) - w) / (1 + np.abs(w)))) for s_, w in zip(segs, W))
        judge(run, m_proj, worst, 1e-9,
              "projective-artist/draw_proj_segment/not-at-chart-coordinates/chart%d" % ci,
              "segment ends are not at the affine coordinates of the endpoints in chart %d" % ci, case)
        run.note_class("proj.draw_proj_segment", ci, data.shape[:-2])
    attach.wrap_attr(run, D.ProjectiveDrawing, "draw_proj_segment", h_psegment, pre=snapshot)

    def h_ppolygon(call, state):
        run._c19_expect_nothing = False
        got = proj_common(call, state, "ProjectiveDrawing.draw_polygon")
        if got is None:
            return
        drawing, data, A, patches, colls, lines, case, ci = got
        assume_affine = bool(call.bound().get("assume_affine", True))
        X = rd.apply_columns(A, data.reshape((-1,) + data.shape[-2:]))
        nv = X.shape[-2]
        # vertices of polygons drawn with assume_affine=False may lie far outside the
        # view (|chart coordinates| up to 2000, i.e. x_i/|X| down to 5e-4): the sign
        # of x_i and the relative 1e-9 tolerance stay safe (rounding ~1e-15/margin)
        if np.min(rd.chart_margin(X, ci)) < (5e-4 if not assume_affine and ci == 0 else 0.02):
            return m_proj.skip("vertex near the chart's line at infinity")
        runs = [rd.sign_runs(x, ci) for x in X]
        nruns = np.array([len(r_) for r_ in runs])
        in_chart = nruns == 1
        if assume_affine and not np.all(in_chart):
            return m_proj.skip("polygon crossing the chart's line at infinity drawn with assume_affine")
        if not assume_affine and ci != 0:
            return m_proj.skip("assume_affine=False is only defined for the standard chart")
        if np.any(nruns > 2):
            return m_proj.skip("polygon crossing the chart's line at infinity more than twice")
        pcs = [c for c in colls if isinstance(c, PolyCollection)]
        paths = [p for c in pcs for p in c.get_paths()]
        W = rd.affine_chart(X, ci)[in_chart]
        if len(paths) != len(W):
            return m_proj.fail("projective-artist/draw_polygon/wrong-number-of-paths",
                               "%d paths for %d polygons inside the chart (assume_affine=%s)"
                               % (len(paths), len(W), assume_affine), case)
        worst = 0.0
        for p, w in zip(paths, W):
            v = np.asarray(p.vertices, dtype=float)
            if len(v) < nv or (len(v) > nv and np.max(np.abs(v[nv:] - v[0])) > 1e-12):
                return m_proj.fail("projective-artist/draw_polygon/wrong-vertex-count",
                                   "path has %d vertices for a %d-gon" % (len(v), nv), case)
            worst = max(worst, float(np.max(np.abs(v[:nv] - w) / (1 + np.abs(w)))))
        if len(W):
            judge(run, m_proj, worst, 1e-9,
                  "projective-artist/draw_polygon/not-at-chart-coordinates/chart%d" % ci,
                  "polygon vertices are not at their affine coordinates in chart %d after the "
                  "transform" % ci, case)
        ncross = int(np.sum(~in_chart))
        if ncross:
            # polygons that cross the chart's line at infinity (assume_affine=False):
            # every maximal run of vertices on one side is one drawn piece -- a patch
            # holding exactly that run at its chart coordinates, closed off screen by
            # artificial vertices that continue the two crossing edges (reference
            # clipping rd.sign_runs / rd.clipped_piece).  Patches are matched to the
            # pieces by content, not by position.  Seeded change C19-r4-1.
            pre = "projective-artist/draw_polygon/nonaffine/"
            if len(patches) != 2 * ncross:
                return m_proj.fail(pre + "wrong-number-of-patches",
                                   "%d patches for %d polygons that cross the line at infinity "
                                   "twice (two pieces each)" % (len(patches), ncross), case)
            xlim, ylim = window_of(drawing)
            free = [rd.open_vertices(p.get_xy() if hasattr(p, "get_xy") else p.get_path().vertices)
                    for p in patches]
            first_switch = set()
            grid = rd.view_grid(xlim, ylim, 15)
            for k in np.flatnonzero(~in_chart):
                sk = np.sign(X[k][:, ci])
                first_switch.add(int(np.argmax(sk != sk[0])))
                matched = []
                for rn in runs[k]:
                    V, wp, wn = rd.clipped_piece(X[k], rn, ci)
                    if min(np.linalg.norm(V[0] - wp), np.linalg.norm(V[-1] - wn)) < 1e-6:
                        m_proj.skip("crossing edge with coincident chart coordinates")
                        continue
                    pcase = dict(case, polygon=int(k), homogeneous_vertices=X[k], run=rn,
                                 expected_visible_vertices=V)
                    hit = None
                    for j, xy in enumerate(free):
                        if xy is None or not np.all(np.isfinite(xy)):
                            continue
                        al = rd.piece_alignment(xy, V)
                        if al is not None:
                            hit = (j, al)
                            break
                    if hit is None:
                        m_proj.fail(pre + "no-patch-holds-one-side-of-the-polygon",
                                    "polygon %d of %d crosses the line at infinity: no drawn patch "
                                    "has the %d vertices with x_%d %s 0 (and only those) at their "
                                    "chart coordinates, consecutively and in order"
                                    % (k, len(X), len(rn), ci, ">" if X[k][rn[0], ci] > 0 else "<"),
                                    dict(pcase, patches=[f for f in free if f is not None]))
                        continue
                    j, al = hit
                    free[j] = None
                    matched.append(patches[j])
                    dummies = al[len(V):]
                    if len(dummies) < 2:
                        m_proj.fail(pre + "piece-not-closed-off-screen",
                                    "the patch of an unbounded piece has %d artificial vertices"
                                    % len(dummies), dict(pcase, patch=al))
                        continue
                    visible = (dummies[:, 0] > xlim[0]) & (dummies[:, 0] < xlim[1]) & \
                        (dummies[:, 1] > ylim[0]) & (dummies[:, 1] < ylim[1])
                    m_proj.require(not np.any(visible), pre + "artificial-vertex-inside-the-view",
                                   "an artificial vertex closing an unbounded piece is inside the "
                                   "drawing's view", dict(pcase, patch=al))
                    off1, along1 = rd.ray_defect(dummies[0], V[-1], wn)
                    off2, along2 = rd.ray_defect(dummies[-1], V[0], wp)
                    if along1 > 0 and along2 > 0:
                        judge(run, m_proj, max(off1, off2), 1e-9, pre + "piece-leaves-the-crossing-edge",
                              "the boundary of an unbounded piece does not run to infinity along "
                              "the polygon's edge that crosses the line at infinity",
                              dict(pcase, patch=al))
                    else:
                        m_proj.fail(pre + "piece-continues-on-the-wrong-side",
                                    "the boundary of an unbounded piece runs from its end vertex "
                                    "towards the neighbour across the line at infinity instead of "
                                    "away from it", dict(pcase, patch=al))
                # coverage inside the view: when the representatives span a convex
                # cone the polygon is the projectivisation of that cone, and a point
                # of the view belongs to it iff the determinants det(X_i, X_{i+1}, y)
                # have one sign (rd.cone_membership) -- whichever way the drawing code
                # cuts it into pieces.  Every grid point of the view clearly inside the
                # polygon must be inside one of its two patches, every point clearly
                # outside must be outside both (vertices far outside the window on
                # either side: seeded change C19-r5-2, artificial vertices that end up
                # inside the window; on any tree: a closing edge between off-screen
                # artificial vertices that passes through the window).
                if len(matched) == 2 and rd.convex_cone_orientation(X[k]) != 0:
                    inside, clear = rd.cone_membership(X[k], grid, ci)
                    drawn = np.zeros(len(grid), dtype=bool)
                    for pt in matched:
                        path = pt.get_patch_transform().transform_path(pt.get_path())
                        drawn |= np.asarray(path.contains_points(grid), dtype=bool)
                    sure = clear > 1e-4
                    missing = sure & inside & ~drawn
                    extra = sure & ~inside & drawn
                    far = float(np.max(np.linalg.norm(
                        rd.affine_chart(X[k], ci) - [np.mean(xlim), np.mean(ylim)], axis=-1))
                        / np.hypot(xlim[1] - xlim[0], ylim[1] - ylim[0]))
                    ccase = dict(case, polygon=int(k), homogeneous_vertices=X[k],
                                 patches=[rd.open_vertices(pt.get_xy()) if hasattr(pt, "get_xy")
                                          else np.asarray(pt.get_path().vertices) for pt in matched],
                                 grid_points_inside_polygon=int(np.sum(sure & inside)),
                                 grid_points_missing=grid[missing][:6], grid_points_extra=grid[extra][:6],
                                 farthest_vertex_in_view_diameters=far)
                    m_proj.require(not np.any(missing), pre + "view-not-covered-by-the-pieces",
                                   "%d of %d grid points of the view that lie inside the polygon "
                                   "(convex cone test) are in neither of its two drawn patches; "
                                   "farthest vertex %.3g view diameters from the view's centre"
                                   % (int(np.sum(missing)), int(np.sum(sure & inside)), far), ccase)
                    m_proj.require(not np.any(extra), pre + "pieces-cover-points-outside-the-polygon",
                                   "%d grid points of the view outside the polygon are inside one of "
                                   "its drawn patches" % int(np.sum(extra)), ccase)
                    run.note_class("proj.draw_polygon/coverage", nv,
                                   "far" if far > 3 else "near",
                                   "view-partly-inside" if np.any(sure & inside) and np.any(sure & ~inside)
                                   else ("view-inside" if np.any(sure & inside) else "view-outside"))
            run.note_class("proj.draw_polygon/nonaffine", nv, ncross, int(np.sum(in_chart)),
                           "distinct-switch-indices" if len(first_switch) > 1 else "one-switch-index")
        run.note_class("proj.draw_polygon", ci, nv, data.shape[:-2], assume_affine)
    attach.wrap_attr(run, D.ProjectiveDrawing, "draw_polygon", h_ppolygon, pre=snapshot)


from .c19_workloads import WORKLOADS  # noqa: E402
